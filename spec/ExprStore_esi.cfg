\* C06: ExprStore.tla, alphabet 'esi', specification reading (Inj, Faithful, Canon must hold)
SPECIFICATION Spec
CONSTANT KeySeq <- Keys_esi
CONSTANT AnnSeq <- Anns_esi
CONSTANT BVVSeq <- None
CONSTANT MaxAnn = 1
CONSTANT MaxLive = 6
CONSTANT MaxSteps = 4
CONSTANT Coded = FALSE
INVARIANT Inj
INVARIANT Faithful
INVARIANT RefLive
INVARIANT Closed
INVARIANT Canon
CONSTRAINT Bound
VIEW View
INVARIANT Export
CHECK_DEADLOCK FALSE
