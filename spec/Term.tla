------------------------------- MODULE Term -------------------------------
(***************************************************************************)
(* The shared term language of claripy bit-vector / Boolean expressions    *)
(* and its reference semantics (SMT-LIB QF_BV).                            *)
(*                                                                         *)
(* A term is a 4-tuple  <<op, name, ints, args>>  (a serialised claripy    *)
(* AST *is* such a tuple; the Python side produces it with harness/term.py)*)
(*   <<"BVS","x",<<3>>,<<>>>>       <<"BVV","",bits,<<>>>> (LSB-first)      *)
(*   <<"BoolS","c",<<>>,<<>>>>      <<"BoolV","",<<1>>,<<>>>>               *)
(*   <<"Extract","",<<hi,lo>>,<<t>>>>   <<"__add__","",<<>>,<<t1,t2,...>>>> *)
(* Bit-vector values are LSB-first 0/1 sequences (module BVBits) so that   *)
(* no TLC integer ever exceeds 32 bits; Boolean values are <<1>> / <<0>>.  *)
(***************************************************************************)
EXTENDS BVBits, FiniteSets

BoolOps == {"BoolS","BoolV","__eq__","__ne__","ULT","ULE","UGT","UGE","SLT","SLE","SGT","SGE","And","Or","Not",
            "fpLT","fpLEQ","fpGT","fpGEQ","fpEQ","fpNEQ","fpIsNaN","fpIsInf"}

RECURSIVE IsBoolT(_)
IsBoolT(t) == IF t[1] = "If" THEN IsBoolT(t[4][2]) ELSE t[1] \in BoolOps

\* ---- width of a bit-vector term (0 for Booleans) ----
RECURSIVE Width(_)
Width(t) ==
  LET op == t[1] A == t[4] IN
  CASE op = "BVS" -> t[3][1]
    [] op = "BVV" -> Len(t[3])
    [] op \in BoolOps -> 0
    [] op = "Concat" -> FoldLeft(LAMBDA acc, k : acc + Width(k), 0, A)
    [] op = "FPS" -> t[3][1] + t[3][2]                        \* <<"FPS", name, <<ebits, sbits>>, <<>>>>
    [] op = "FPV" -> Len(t[3])
    [] op \in {"fpToFP", "fpToFPUnsigned"} -> t[3][Len(t[3]) - 1] + t[3][Len(t[3])]   \* target sort last in ints
    [] op \in {"fpToSBV", "fpToUBV"} -> t[3][1]
    [] op = "fpFP" -> FoldLeft(LAMBDA acc, k : acc + Width(k), 0, A)
    [] op = "Extract" -> t[3][1] - t[3][2] + 1
    [] op \in {"ZeroExt","SignExt"} -> t[3][1] + Width(A[1])
    [] op = "If" -> Width(A[2])
    [] OTHER -> Width(A[1])

\* ---- free variables (names) ----
RECURSIVE FreeVars(_)
FreeVars(t) ==
  IF t[1] \in {"BVS","BoolS","FPS","StringS"} THEN {t[2]}
  ELSE FoldLeft(LAMBDA acc, k : acc \cup FreeVars(k), {}, t[4])

\* ---- depth: leaves have depth 1 ----
RECURSIVE Depth(_)
Depth(t) == 1 + FoldLeft(LAMBDA acc, k : LET d == Depth(k) IN IF d > acc THEN d ELSE acc, 0, t[4])

\* ---- number of nodes ----
RECURSIVE Size(_)
Size(t) == 1 + FoldLeft(LAMBDA acc, k : acc + Size(k), 0, t[4])

\* ---- evaluation.  asg : variable name -> bit sequence (Booleans: <<1>> / <<0>>) ----
\* Every value is a bit sequence; Boolean values are <<1>> (true) and <<0>> (false).
\* Evaluation is NOT a recursive operator: TLC passes arguments of RECURSIVE operators by name and
\* re-evaluates them at every reference, which is exponential in the depth of the term.  Instead the
\* term is flattened to post-order once (Flat) and evaluated by a stack machine that is a FoldLeft
\* (Java-overridden, eager): every node is evaluated exactly once.
B2b(b) == IF b THEN <<1>> ELSE <<0>>
T1 == <<1>>

RECURSIVE Flat(_)
Flat(t) == FoldLeft(LAMBDA acc, k : acc \o Flat(k), <<>>, t[4]) \o << <<t[1], t[2], t[3], Len(t[4])>> >>

NAry(F(_,_), A) == FoldLeft(LAMBDA acc, k : F(acc, k), A[1], Tail(A))

Apply(op, name, ints, A, asg) ==
  CASE op = "BVS" -> asg[name]
    [] op = "BoolS" -> asg[name]
    [] op = "BVV" -> ints
    [] op = "BoolV" -> ints
    [] op = "__add__" -> NAry(BAdd, A)
    [] op = "__mul__" -> NAry(BMul, A)
    [] op = "__and__" -> NAry(BAnd, A)
    [] op = "__or__"  -> NAry(BOr, A)
    [] op = "__xor__" -> NAry(BXor, A)
    [] op = "__sub__" -> NAry(BSub, A)
    [] op = "__floordiv__" -> BUDiv(A[1], A[2])
    [] op = "__mod__" -> BURem(A[1], A[2])
    [] op = "SDiv" -> BSDiv(A[1], A[2])
    [] op = "SMod" -> BSRem(A[1], A[2])
    [] op = "__neg__" -> BNeg(A[1])
    [] op = "__invert__" -> BNot(A[1])
    [] op = "__lshift__" -> BShl(A[1], A[2])
    [] op = "__rshift__" -> BAShr(A[1], A[2])
    [] op = "LShR" -> BLShr(A[1], A[2])
    [] op = "RotateLeft" -> BRotL(A[1], A[2])
    [] op = "RotateRight" -> BRotR(A[1], A[2])
    [] op = "Concat" -> NAry(BConcat, A)
    [] op = "Extract" -> BExtract(ints[1], ints[2], A[1])
    [] op = "ZeroExt" -> BZExt(ints[1], A[1])
    [] op = "SignExt" -> BSExt(ints[1], A[1])
    [] op = "Reverse" -> BReverse(A[1])
    [] op = "If" -> IF A[1] = T1 THEN A[2] ELSE A[3]
    [] op = "__eq__" -> B2b(A[1] = A[2])
    [] op = "__ne__" -> B2b(A[1] # A[2])
    [] op = "ULT" -> B2b(UCmp(A[1], A[2]) < 0)
    [] op = "ULE" -> B2b(UCmp(A[1], A[2]) <= 0)
    [] op = "UGT" -> B2b(UCmp(A[1], A[2]) > 0)
    [] op = "UGE" -> B2b(UCmp(A[1], A[2]) >= 0)
    [] op = "SLT" -> B2b(SCmp(A[1], A[2]) < 0)
    [] op = "SLE" -> B2b(SCmp(A[1], A[2]) <= 0)
    [] op = "SGT" -> B2b(SCmp(A[1], A[2]) > 0)
    [] op = "SGE" -> B2b(SCmp(A[1], A[2]) >= 0)
    [] op = "And" -> B2b(\A i \in 1..Len(A) : A[i] = T1)
    [] op = "Or"  -> B2b(\E i \in 1..Len(A) : A[i] = T1)
    [] op = "Not" -> B2b(A[1] # T1)

DivOps == {"__floordiv__","__mod__","SDiv","SMod"}

\* machine state <<stack, divisors>>: divisors collects, in post-order, the value of the second operand
\* of every division / remainder node (needed for the division-by-zero exemption)
Step(asg, st, n) ==
  LET k == n[4]
      S == st[1]
      m == Len(S)
      A == SubSeq(S, m-k+1, m)
      v == Apply(n[1], n[2], n[3], A, asg)
  IN << Append(SubSeq(S, 1, m-k), v), IF n[1] \in DivOps THEN Append(st[2], A[2]) ELSE st[2] >>

Run(flat, asg) == FoldLeft(LAMBDA st, n : Step(asg, st, n), << <<>>, <<>> >>, flat)
EvalF(flat, asg) == Run(flat, asg)[1][1]
Divisors(flat, asg) == Run(flat, asg)[2]

\* value of term t under asg, as a bit sequence (Booleans <<1>>/<<0>>)
EvalV(t, asg) == EvalF(Flat(t), asg)
Eval(t, asg) == EvalV(t, asg)
Holds(t, asg) == EvalV(t, asg) = T1

\* ---- assignments ----
\* vars : sequence of <<name, width>>, width 0 = Boolean.  All assignments as functions name -> bits.
AllBits(w) == IF w = 0 THEN {<<0>>, <<1>>} ELSE [1..w -> {0,1}]
Names(vars) == {vars[i][1] : i \in 1..Len(vars)}
WidthOf(vars, n) == (CHOOSE i \in 1..Len(vars) : vars[i][1] = n)
AllAsg(vars) ==
  LET N == Names(vars)
      W == [n \in N |-> vars[CHOOSE i \in 1..Len(vars) : vars[i][1] = n][2]]
  IN { f \in [N -> UNION {AllBits(W[n]) : n \in N}] : \A n \in N : f[n] \in AllBits(W[n]) }
\* assignments from a logged list  <<  << <<name, bits>>, ... >>, ... >>
AsgOf(pairs) == [n \in {pairs[i][1] : i \in 1..Len(pairs)} |-> pairs[CHOOSE i \in 1..Len(pairs) : pairs[i][1] = n][2]]

\* ---- substitution on the held AST (C08): replace every occurrence of node o by n ----
RECURSIVE Subst(_,_,_)
Subst(t, o, n) == IF t = o THEN n ELSE <<t[1], t[2], t[3], [i \in 1..Len(t[4]) |-> Subst(t[4][i], o, n)] \o <<>> >>

\* ---- renaming of variables (C08 canonicalize / identical) ----
RECURSIVE Rename(_,_)
Rename(t, f) == IF t[1] \in {"BVS","BoolS"} THEN <<t[1], f[t[2]], t[3], t[4]>>
                ELSE <<t[1], t[2], t[3], [i \in 1..Len(t[4]) |-> Rename(t[4][i], f)] \o <<>> >>
\* a equals b up to a consistent (injective) renaming of variables
AlphaEq(a, b) ==
  LET Va == FreeVars(a) Vb == FreeVars(b) IN
  /\ Cardinality(Va) = Cardinality(Vb)
  /\ \E f \in [Va -> Vb] : (\A x, y \in Va : f[x] = f[y] => x = y) /\ Rename(a, f) = b
=============================================================================
