CONSTANTS
 MaxW = 3
