---------------------------- MODULE ExprStoreOps ----------------------------
(***************************************************************************)
(* C06 -- pure operators of the hash-cons store model: structural keys,    *)
(* the model of Python's hash() on annotation contents, interning of one   *)
(* request, weak-reference death, and Request (the effect of one client      *)
(* request).  Used by ExprStore.tla (the state machine explored by TLC)    *)
(* and by TraceStore.tla (validation of runs recorded on the real code).   *)
(* See ExprStore.tla for the description of keys, slots and readings.      *)
(***************************************************************************)
EXTENDS Term, TLC

\* ---------------------------------------------------------------- keys
NoAnn == <<>>
KBVS(n, w)        == <<"BVS", n, <<w>>, <<>>, NoAnn, w>>
KBVV(bits)        == <<"BVV", "", bits, <<>>, NoAnn, Len(bits)>>
KOp(op, A, w)     == <<op, "", <<>>, A, NoAnn, w>>
KOpI(op, I, A, w) == <<op, "", I, A, NoAnn, w>>
WithAnns(k, as)   == <<k[1], k[2], k[3], k[4], as, k[6]>>
AddAnns(k, as)    == WithAnns(k, k[5] \o as)
AddAnn(k, a)      == AddAnns(k, <<a>>)
EmptyKey          == <<"", "", <<>>, <<>>, NoAnn, 0>>
NoneAnn           == <<"", <<>>>>

\* ---------------------------------------------------------------- Python's hash() on annotation contents
\* CPython: hash(-1) = -2; hash(n) = n mod (2^61 - 1) for 0 <= n; a tuple's hash is a function of its
\* elements' hashes.  Only the values that occur in the alphabets are listed.
PyInt(s) == CASE s = "-1" -> "-2"
              [] s = "2305843009213693951" -> "0"
              [] s = "2305843009213693952" -> "1"
              [] OTHER -> s
PyHash(a) == IF a[1] = "HConst" THEN <<"HConst", <<"*">>>>        \* user class: def __hash__(self): return 7
             ELSE <<a[1], [i \in 1..Len(a[2]) |-> PyInt(a[2][i])] \o <<>> >>
AnnHash(cd, a)   == IF cd THEN PyHash(a) ELSE a
AnnHashes(cd, as) == [i \in 1..Len(as) |-> AnnHash(cd, as[i])] \o <<>>

\* ---------------------------------------------------------------- interning one request (pure)
\* post-order list of the nodes of a key: <<op, name, ints, nargs, anns, len>>
RECURSIVE Flat6(_)
Flat6(k) == FoldLeft(LAMBDA acc, a : acc \o Flat6(a), <<>>, k[4]) \o << <<k[1], k[2], k[3], Len(k[4]), k[5], k[6]>> >>

Put(f, x, v) == [y \in DOMAIN f \cup {x} |-> IF y = x THEN v ELSE f[y]]

\* the object in slot `slot`, created with actual key `actual` if the weak table has no live entry
Lookup(st, slot, actual) == IF slot \in DOMAIN st.key THEN st.key ELSE Put(st.key, slot, actual)

\* x.annotate(*as) on the object in slot s:  Base._apply_to_annotations -> make_like(op, args, annotations + as)
AnnotateSlot(cd, st, s, as) ==
  LET o == st.key[s]
      slot == <<s[1], s[2], s[3], s[4], s[5] \o AnnHashes(cd, as), s[6]>>
  IN [key |-> Lookup(st, slot, AddAnns(o, as)), bvv |-> st.bvv, slot |-> slot]

\* one node of the request; st = [key, bvv, stk] where stk is the stack of argument slots.
\* kw: this is the top node of BVV(v, w, annotations=...) (keyword form: created with its annotations at once
\*     and -- as coded -- written into the side cache that the plain form reads)
InternNode(cd, st, n, kw) ==
  LET m == Len(st.stk)
      S == SubSeq(st.stk, m - n[4] + 1, m)
      rest == SubSeq(st.stk, 1, m - n[4])
      isBVV == n[1] = "BVV"
      as0 == IF kw THEN n[5] ELSE NoAnn
      slot0 == <<n[1], n[2], n[3], S, AnnHashes(cd, as0), n[6]>>
      actual0 == <<n[1], n[2], n[3], [i \in 1..Len(S) |-> st.key[S[i]]] \o <<>>, as0, n[6]>>
      hit == cd /\ isBVV /\ ~kw /\ n[3] \in DOMAIN st.bvv                   \* try: return _bvv_cache[(value, size)]
      s1 == IF hit THEN st.bvv[n[3]] ELSE slot0
      key1 == IF hit THEN st.key ELSE Lookup(st, slot0, actual0)
      bvv1 == IF cd /\ isBVV /\ ~hit THEN Put(st.bvv, n[3], slot0) ELSE st.bvv   \* _bvv_cache[(value, size)] = result
      st1 == [key |-> key1, bvv |-> bvv1]
      r == IF kw \/ n[5] = NoAnn THEN [key |-> key1, bvv |-> bvv1, slot |-> s1]
           ELSE AnnotateSlot(cd, st1, s1, n[5])
  IN [key |-> r.key, bvv |-> r.bvv, stk |-> Append(rest, r.slot)]

\* intern the whole request bottom-up; result [key, bvv, slot]
Intern(cd, key0, bvv0, k, kw) ==
  LET f == Flat6(k)
      st == FoldLeft(LAMBDA acc, i : InternNode(cd, acc, f[i], kw /\ i = Len(f)),
                     [key |-> key0, bvv |-> bvv0, stk |-> <<>>], [i \in 1..Len(f) |-> i])
  IN [key |-> st.key, bvv |-> st.bvv, slot |-> st.stk[1]]

\* ---------------------------------------------------------------- weak-reference death
Kids(s) == {s[4][i] : i \in 1..Len(s[4])}
Grow(R) == R \cup UNION {Kids(s) : s \in R}
Reach(roots) == Grow(Grow(Grow(Grow(roots))))            \* keys of the alphabets have depth <= 4
Rng(f) == {f[x] : x \in DOMAIN f}
Restr(f, D) == [x \in DOMAIN f \cap D |-> f[x]]
Collect(key1, ref1, bvv1) ==
  LET L == Reach(Rng(ref1)) IN
  [key |-> Restr(key1, L), bvv |-> [b \in {c \in DOMAIN bvv1 : bvv1[c] \in L} |-> bvv1[b]]]

\* ---------------------------------------------------------------- the properties, as predicates on a store
InjOn(K)  == \A i, j \in DOMAIN K : K[i] = K[j] => i = j          \* equal keys => same node (the converse is trivial)
FaithfulOn(K, id, req) == id \in DOMAIN K /\ K[id] = req          \* what came back is what was asked for

\* ---------------------------------------------------------------- one client request (pure)
\* Al = [K |-> sequence of buildable keys, A |-> sequence of annotation values, V |-> sequence of BVV requests]
\* A handle label is <<kind, i, j1, j2>>: the reference obtained by Build(Al.K[i]) (kind "K") or by
\* BVV(Al.V[i]) (kind "V"), then annotated with Al.A[j1], Al.A[j2] (0: none).  A request is
\* e = <<act, kind, i, j1, j2, j>>: act "B" build, "V" BVV(...), "A" annotate handle with Al.A[j], "D" drop handle.
ELab(e) == <<e[2], e[3], e[4], e[5]>>
LabBase(Al, l) == IF l[1] = "K" THEN Al.K[l[2]] ELSE Al.V[l[2]]
LabAnns(Al, l) == (IF l[3] = 0 THEN <<>> ELSE <<Al.A[l[3]]>>) \o (IF l[4] = 0 THEN <<>> ELSE <<Al.A[l[4]]>>)
LabKey(Al, l)  == AddAnns(LabBase(Al, l), LabAnns(Al, l))          \* the key the handle stands for in the specification
LabCount(l) == (IF l[3] = 0 THEN 0 ELSE 1) + (IF l[4] = 0 THEN 0 ELSE 1)
LabAdd(l, j) == IF l[3] = 0 THEN <<l[1], l[2], j, 0>> ELSE <<l[1], l[2], l[3], j>>

\* st = [key, ref, bvv]; result [key, ref, bvv, ok, n] : the store after the request and the weak-reference deaths it
\* causes, ok = Faithful held for this request, n = live nodes
Finish(r, ref1, req, creates) ==
  LET g == Collect(r.key, ref1, r.bvv) IN
  [key |-> g.key, ref |-> ref1, bvv |-> g.bvv, ok |-> (~creates) \/ FaithfulOn(r.key, r.slot, req)]

Request(cd, Al, st, e) ==
  LET l == ELab(e) IN
  CASE e[1] = "B" -> LET r == Intern(cd, st.key, st.bvv, Al.K[e[3]], FALSE)
                     IN Finish(r, Put(st.ref, l, r.slot), Al.K[e[3]], TRUE)
    [] e[1] = "V" -> LET k == Al.V[e[3]]  r == Intern(cd, st.key, st.bvv, k, k[5] # NoAnn)
                     IN Finish(r, Put(st.ref, l, r.slot), k, TRUE)
    \* the request is relative to the object actually held:  obj.annotate(a)  asks for  key(obj) + a
    [] e[1] = "A" -> LET s == st.ref[l]  a == Al.A[e[6]]
                         r == AnnotateSlot(cd, [key |-> st.key, bvv |-> st.bvv], s, <<a>>)
                     IN Finish(r, Put(st.ref, LabAdd(l, e[6]), r.slot), AddAnn(st.key[s], a), TRUE)
    [] e[1] = "D" -> Finish([key |-> st.key, bvv |-> st.bvv, slot |-> EmptyKey],
                            Restr(st.ref, DOMAIN st.ref \ {l}), EmptyKey, FALSE)
=============================================================================
