------------------------------- MODULE Threads -------------------------------
(***************************************************************************)
(* C20: solvers used from several threads answer as if used alone.         *)
(*                                                                         *)
(* State at API-call granularity: every thread t runs a history of NCalls  *)
(* public calls on solver objects it alone owns; what is shared between    *)
(* threads is the expression store (hash-cons table, per-AST error sets,   *)
(* truth caches) — modelled as a set the threads only ever add to — and    *)
(* what must be private is the Z3 context and the conversion caches:       *)
(* ctx[t] is fixed when the thread first touches the backend and every     *)
(* Z3 object a thread's solver holds must come from ctx[t].                *)
(*                                                                         *)
(* TLC enumerates all interleavings of the calls (the schedule is the      *)
(* exported behaviour: hist) and checks that a thread's abstract solver    *)
(* state is a function of its own history only (Independent): the          *)
(* per-thread projection of any behaviour equals the sequential run.  The  *)
(* harness replays the schedules with a baton on real threads and each     *)
(* thread's recorded trace is validated against SolverAbs (TraceThreads).  *)
(***************************************************************************)
EXTENDS Integers, Sequences, FiniteSets, TLC

CONSTANTS NT, NCalls
Thread == 0..(NT - 1)

VARIABLES pc,       \* pc[t]: number of calls thread t has performed
          own,      \* own[t]: abstract state of t's solvers = the sequence of its own calls so far
          ctx,      \* ctx[t]: 0 = not yet created, otherwise the id of t's private Z3 context
          store,    \* shared expression store: set of <<thread, call index>> nodes built so far (grows only)
          nextCtx,
          hist      \* schedule: sequence of thread ids (hidden from the fingerprint)
vars == <<pc, own, ctx, store, nextCtx, hist>>
view == <<pc, own, ctx, store, nextCtx>>

Init == /\ pc = [t \in Thread |-> 0] /\ own = [t \in Thread |-> <<>>] /\ ctx = [t \in Thread |-> 0]
        /\ store = {} /\ nextCtx = 1 /\ hist = <<>>

Call(t) ==
  /\ pc[t] < NCalls
  /\ pc' = [pc EXCEPT ![t] = @ + 1]
  /\ own' = [own EXCEPT ![t] = Append(@, pc[t] + 1)]
  /\ IF ctx[t] = 0 THEN ctx' = [ctx EXCEPT ![t] = nextCtx] /\ nextCtx' = nextCtx + 1 ELSE UNCHANGED <<ctx, nextCtx>>
  /\ store' = store \cup {<<t, pc[t] + 1>>}
  /\ hist' = Append(hist, t)

Next == \E t \in Thread : Call(t)
Spec == Init /\ [][Next]_vars

\* a thread's solver state depends on its own calls only, whatever the others did in between
Independent == \A t \in Thread : own[t] = [i \in 1..pc[t] |-> i]
\* contexts are private
CtxPrivate == \A t, u \in Thread : t # u /\ ctx[t] # 0 => ctx[t] # ctx[u]
Done == \A t \in Thread : pc[t] = NCalls
=============================================================================
