---------------------------- MODULE TraceFPSolve ----------------------------
(***************************************************************************)
(* Solution SETS of floating-point equalities through every frontend       *)
(* (C13: a frontend that rewrites or replaces on the way to the backend    *)
(* must not lose models; C02 semantics of fpEQ).                           *)
(* One event: a fresh solver of class cls, the single constraint           *)
(* fpEQ(f, c) on a symbolic f of format (eb, sb) (c a bit pattern), then   *)
(*   vals   = eval(fpToIEEEBV(f), 4)        (exc set when it raised)        *)
(*   negz   = solution(fpToIEEEBV(f), pattern of -0.0)                      *)
(*   poz    = solution(fpToIEEEBV(f), pattern of +0.0)                      *)
(*   ist0   = is_true(fpToIEEEBV(f) == pattern of +0.0)                     *)
(*   isf1   = is_false(fpToIEEEBV(f) == pattern of -0.0)                    *)
(* Reference (FP.tla): the models of fpEQ(f, c) are the patterns v with     *)
(* FEq(Unpack(v), Unpack(c)): none for a NaN, both zeros for a zero, c      *)
(* itself otherwise -- all of them among the candidates below.              *)
(***************************************************************************)
EXTENDS FP, Json, IOUtils, FiniteSets

Cand(e) == {e.c, PZero(0, e.eb, e.sb), PZero(1, e.eb, e.sb)}
Models(e) == {v \in Cand(e) : FEq(Unpack(v, e.eb, e.sb), Unpack(e.c, e.eb, e.sb))}
SeqSet(s) == {s[i] : i \in 1..Len(s)}

Failing(e) ==
  LET M == Models(e) IN
  (IF M = {} THEN (IF e.exc = "UnsatError" \/ (e.exc = "" /\ Len(e.vals) = 0) THEN {} ELSE {"fp-models-on-unsat"})
   ELSE IF e.exc # "" THEN {"fp-exc"}
   ELSE (IF SeqSet(e.vals) = M /\ Len(e.vals) = Cardinality(M) THEN {} ELSE {"fp-model-set"})
        \cup (IF e.negz = (PZero(1, e.eb, e.sb) \in M) THEN {} ELSE {"fp-solution-negzero"})
        \cup (IF e.poz = (PZero(0, e.eb, e.sb) \in M) THEN {} ELSE {"fp-solution-poszero"})
        \* is_true / is_false relative to the constraints: a True answer is a claim about every model (C10)
        \cup (IF e.ist0 /\ M # {PZero(0, e.eb, e.sb)} THEN {"fp-is_true-overclaims"} ELSE {})
        \cup (IF e.isf1 /\ PZero(1, e.eb, e.sb) \in M THEN {"fp-is_false-overclaims"} ELSE {}))

ASSUME LET Trace == ndJsonDeserialize(IOEnv.TRACE_FILE) IN
       /\ \A i \in 1..Len(Trace) : \A c \in Failing(Trace[i]) : PrintT(<<"BAD", i, c>>)
       /\ PrintT(<<"DONE", Len(Trace)>>)
=============================================================================
