------------------------- MODULE SolverCompositeCow -------------------------
(***************************************************************************)
(* Refined model of branch() on claripy.SolverComposite: two composites    *)
(* that SHARE child solver objects after a branch, and the copy-on-write   *)
(* discipline (_owned_solvers, _claim) that keeps them isolated (C14).     *)
(*                                                                         *)
(* Child solvers are OBJECTS here (obj: id -> constraints held); a         *)
(* composite has its own dictionary reg: variable -> object id (0 = none), *)
(* its own set of owned objects and its own unchecked set.                 *)
(*                                                                         *)
(*   Branch       _copy: the new composite gets a copy of the dictionary;  *)
(*                BOTH sides give up ownership of every object (the parent *)
(*                resets _owned_solvers "for the COW")                     *)
(*   Add(c, k)    _add_dependent_constraints: the object reached from the  *)
(*                constraint's names; s = _claim(s): an object this        *)
(*                composite does not own is copied (branch() of the child) *)
(*                before the constraint is added; an owned object is       *)
(*                changed in place; several reached objects are combined   *)
(*                into a new object; _store_child                          *)
(*   Sat(c)       flag, then the unchecked reachable objects               *)
(*   Eval(c, q)   _ensure_sat; answer from the objects reached from the    *)
(*                expression's names; ConstraintExpansionMixin's helper    *)
(*                constraint is added through the same claiming path when   *)
(*                at most one object is registered for the names           *)
(*                                                                         *)
(* Checked by TLC: AnswerStep (each composite answers as the conjunction   *)
(* of what was added to IT -- its own adds plus its ancestors' before the  *)
(* branch), CoverageC, OwnedExclusive, RegWithinVars.  Variant "noclaim"   *)
(* (negative control): a single reached object is always changed in place; *)
(* TLC must refute CoverageC / AnswerStep.                                 *)
(***************************************************************************)
EXTENDS Naturals, Sequences, FiniteSets, TLC, SequencesExt

CONSTANTS NV, NC, NQ, CVars, CDen, QVars, QVal, NA, MaxDepth, Variant

VARIABLES obj, comp, hist, ret
vars == <<obj, comp, hist, ret>>
\* object ids are allocation order: abstract from them in the view by listing, per composite, the objects it reaches
ViewOf(c) == IF ~comp[c].live THEN <<>> ELSE
             << {<<{v \in 1..NV : comp[c].reg[v] = i}, obj[i], i \in comp[c].owned, i \in comp[c].unchk,
                   \E d \in 1..2 : d # c /\ comp[d].live /\ \E v \in 1..NV : comp[d].reg[v] = i>> :
                    i \in {comp[c].reg[v] : v \in 1..NV} \ {0}}, comp[c].flag, comp[c].added >>
view == <<ViewOf(1), ViewOf(2)>>

IVars(i) == IF i <= NC THEN CVars[i] ELSE QVars[i - NC]
VarsOf(cs) == UNION {IVars(i) : i \in cs}
Asg == 1..NA
Den(cs) == {a \in Asg : \A c \in cs : c > NC \/ a \in CDen[c]}
NObj == Len(obj)

Kids(c) == {comp[c].reg[v] : v \in 1..NV} \ {0}
Direct(c, N) == {comp[c].reg[v] : v \in N} \ {0}
Closure(c, N) ==
  LET step(S) == S \cup UNION {VarsOf(obj[i]) : i \in Direct(c, S)}
      names == FoldLeft(LAMBDA S, n : step(S), N, [n \in 1..(NV + 1) |-> n] \o <<>>)
  IN Direct(c, names)
AbsDen(c) == {a \in Asg : \A k \in comp[c].added : a \in CDen[k]}

Blank == [live |-> FALSE, reg |-> [v \in 1..NV |-> 0], owned |-> {}, unchk |-> {}, flag |-> FALSE, added |-> {}]
Init == /\ obj = <<>>
        /\ comp = [c \in 1..2 |-> IF c = 1 THEN [Blank EXCEPT !.live = TRUE] ELSE Blank]
        /\ hist = <<>> /\ ret = <<"init">>

\* the claiming path shared by add() and by the helper constraint: returns <<obj', comp[c]'>> after putting item k
\* into the object reached from names N; mark = whether the object becomes unchecked (invalidate_cache)
Put(c, N, k, mark) ==
  LET T == Closure(c, N)
      me == comp[c]
      inplace == Cardinality(T) = 1 /\ ((CHOOSE i \in T : TRUE) \in me.owned \/ Variant = "noclaim")
      tgt == IF inplace THEN CHOOSE i \in T : TRUE ELSE NObj + 1
      newcs == UNION {obj[i] : i \in T} \cup {k}
      obj2 == IF inplace THEN [obj EXCEPT ![tgt] = newcs] ELSE Append(obj, newcs)
      reg2 == [v \in 1..NV |-> IF v \in VarsOf(newcs) THEN tgt ELSE me.reg[v]]
  IN << obj2, [me EXCEPT !.reg = reg2, !.owned = @ \cup {tgt},
                         !.unchk = IF mark THEN @ \cup {tgt} ELSE @] >>

Add(c, k) ==
  /\ comp[c].live
  /\ hist' = Append(hist, <<1, c, k>>)
  /\ ret' = <<"ok">>
  /\ IF CVars[k] = {}
       THEN /\ comp' = [comp EXCEPT ![c].added = @ \cup {k}, ![c].flag = @ \/ CDen[k] = {}]
            /\ obj' = obj
       ELSE LET r == Put(c, CVars[k], k, TRUE) IN
            /\ obj' = r[1]
            /\ comp' = [comp EXCEPT ![c] = [r[2] EXCEPT !.added = @ \cup {k}]]

UnchkReach(c) == comp[c].unchk \cap Kids(c)
AllSat(c) == \A i \in UnchkReach(c) : Den(obj[i]) # {}

Sat(c) ==
  /\ comp[c].live
  /\ hist' = Append(hist, <<2, c, 0>>)
  /\ obj' = obj
  /\ IF comp[c].flag THEN ret' = <<"sat", FALSE>> /\ comp' = comp
     ELSE IF AllSat(c) THEN ret' = <<"sat", TRUE>> /\ comp' = [comp EXCEPT ![c].unchk = {}]
     ELSE ret' = <<"sat", FALSE>> /\ comp' = comp

Eval(c, q) ==
  /\ comp[c].live
  /\ hist' = Append(hist, <<3, c, q>>)
  /\ LET ok == ~comp[c].flag /\ AllSat(c)
         N == QVars[q]
         T == Closure(c, N)
         vals == {QVal[q][a] : a \in Den(UNION {obj[i] : i \in T})}
     IN IF ~ok THEN ret' = <<"unsat">> /\ UNCHANGED <<obj, comp>>
        ELSE /\ ret' = <<"vals", vals>>
             /\ IF Cardinality(Direct(c, N)) > 1
                  THEN /\ obj' = obj
                       /\ comp' = [comp EXCEPT ![c].unchk = {}]
                  ELSE LET me1 == [comp[c] EXCEPT !.unchk = {}]
                           r == Put(c, N, NC + q, FALSE)
                       IN /\ obj' = r[1]
                          /\ comp' = [comp EXCEPT ![c] = [r[2] EXCEPT !.unchk = {}]]

Branch ==
  /\ comp[1].live /\ ~comp[2].live
  /\ hist' = Append(hist, <<4, 1, 0>>)
  /\ ret' = <<"ok">>
  /\ obj' = obj
  /\ comp' = [comp EXCEPT ![2] = [comp[1] EXCEPT !.owned = {}], ![1].owned = {}]

Next == \/ \E c \in 1..2 : \E k \in 1..NC : Add(c, k)
        \/ \E c \in 1..2 : Sat(c)
        \/ \E c \in 1..2 : \E q \in 1..NQ : Eval(c, q)
        \/ Branch
Spec == Init /\ [][Next]_vars
DepthOK == Len(hist) <= MaxDepth

\* ---- refinement: each composite answers as the conjunction of what was added to it ----
LastOp == hist'[Len(hist')]
AnswerOK(r, c, q) ==
  CASE r[1] = "sat" -> r[2] = (AbsDen(c) # {})
    [] r[1] = "unsat" -> AbsDen(c) = {}
    [] r[1] = "vals" -> AbsDen(c) # {} /\ r[2] = {QVal[q][a] : a \in AbsDen(c)}
    [] OTHER -> TRUE
AnswerStep == [][LET o == LastOp IN AnswerOK(ret', o[2], IF o[1] = 3 THEN o[3] ELSE 1)]_vars

\* ---- invariants ----
CoverageC == \A c \in 1..2 : comp[c].live =>
               (IF comp[c].flag THEN {} ELSE Den(UNION {obj[i] : i \in Kids(c)})) = AbsDen(c)
RegWithinVars == \A c \in 1..2 : \A v \in 1..NV : comp[c].reg[v] # 0 => v \in VarsOf(obj[comp[c].reg[v]])
\* what one composite owns (and may change in place) the other composite cannot reach
OwnedExclusive == \A c, d \in 1..2 : c # d /\ comp[d].live => comp[c].owned \cap Kids(d) = {}
=============================================================================
