------------------------------- MODULE BVBits -------------------------------
EXTENDS Integers, Sequences, TLC, SequencesExt
\* fixed-width bit vectors: LSB-first sequences of 0/1; width = Len. All loops are folds.
Idx(n) == [i \in 1..n |-> i] \o <<>>
RIdx(n) == [i \in 1..n |-> n+1-i] \o <<>>
Zeros(k) == [i \in 1..k |-> 0] \o <<>>
Ones(k) == [i \in 1..k |-> 1] \o <<>>
MinI(x,y) == IF x <= y THEN x ELSE y
BNot(a) == [i \in 1..Len(a) |-> 1 - a[i]] \o <<>>
BAnd(a,b) == [i \in 1..Len(a) |-> a[i]*b[i]] \o <<>>
BOr(a,b) == [i \in 1..Len(a) |-> IF a[i]+b[i] > 0 THEN 1 ELSE 0] \o <<>>
BXor(a,b) == [i \in 1..Len(a) |-> (a[i]+b[i]) % 2] \o <<>>
AddC(a,b,c0) == FoldLeft(LAMBDA s, i : LET t == a[i]+b[i]+s[1] IN <<t \div 2, Append(s[2], t % 2)>>, <<c0, <<>>>>, Idx(Len(a)))[2]
BAdd(a,b) == AddC(a,b,0)
BSub(a,b) == AddC(a,BNot(b),1)
BNeg(a) == AddC(Zeros(Len(a)),BNot(a),1)
IsZero(a) == \A i \in 1..Len(a) : a[i] = 0
\* unsigned compare: -1, 0, 1
UCmp(a,b) == FoldLeft(LAMBDA c, i : IF c # 0 THEN c ELSE IF a[i] = b[i] THEN 0 ELSE IF a[i] < b[i] THEN -1 ELSE 1, 0, RIdx(Len(a)))
Msb(a) == a[Len(a)]
SCmp(a,b) == IF Msb(a) # Msb(b) THEN (IF Msb(a) = 1 THEN -1 ELSE 1) ELSE UCmp(a,b)
ShlK(a,k) == IF k >= Len(a) THEN Zeros(Len(a)) ELSE Zeros(k) \o SubSeq(a,1,Len(a)-k)
LShrK(a,k) == IF k >= Len(a) THEN Zeros(Len(a)) ELSE SubSeq(a,k+1,Len(a)) \o Zeros(k)
AShrK(a,k) == LET w == Len(a) s == Msb(a) kk == MinI(k,w) IN SubSeq(a,kk+1,w) \o [i \in 1..kk |-> s]
\* numeric value of a shift amount, saturated at Len(a)+1 (never builds an integer >= 2^31)
Amt(b) == LET w == Len(b) IN
   FoldLeft(LAMBDA acc, i : IF acc > w THEN acc ELSE IF b[i] = 0 THEN acc ELSE IF i > 20 THEN w + 1 ELSE MinI(acc + 2^(i-1), w + 1), 0, Idx(w))
BShl(a,b) == ShlK(a, Amt(b))
BLShr(a,b) == LShrK(a, Amt(b))
BAShr(a,b) == AShrK(a, Amt(b))
\* amount modulo w for rotates: fold Horner modulo w
AmtMod(b) == LET w == Len(b) IN FoldLeft(LAMBDA acc, i : (2*acc + b[i]) % w, 0, RIdx(w))
RotLK(a,k) == LET w == Len(a) IN IF k = 0 THEN a ELSE SubSeq(a,w-k+1,w) \o SubSeq(a,1,w-k)
BRotL(a,b) == RotLK(a, AmtMod(b))
BRotR(a,b) == LET w == Len(a) k == AmtMod(b) IN RotLK(a, (w - k) % w)
BMul(a,b) == FoldLeft(LAMBDA acc, i : IF b[i] = 1 THEN BAdd(acc, ShlK(a,i-1)) ELSE acc, Zeros(Len(a)), Idx(Len(b)))
\* restoring division; r is kept at width w+1 to avoid overflow on the shift
DivStep(a, b1, st, i) ==
   LET r2 == <<a[i]>> \o SubSeq(st[2],1,Len(st[2])-1)
       ge == UCmp(r2, b1) >= 0
   IN <<IF ge THEN [st[1] EXCEPT ![i] = 1] ELSE st[1], IF ge THEN BSub(r2,b1) ELSE r2>>
UDivMod(a,b) == LET w == Len(a) b1 == b \o <<0>>
                    st == FoldLeft(LAMBDA s, i : DivStep(a,b1,s,i), <<Zeros(w), Zeros(w+1)>>, RIdx(w))
                IN <<st[1], SubSeq(st[2],1,w)>>
BUDiv(a,b) == IF IsZero(b) THEN Ones(Len(a)) ELSE UDivMod(a,b)[1]
BURem(a,b) == IF IsZero(b) THEN a ELSE UDivMod(a,b)[2]
Abs(a) == IF Msb(a) = 1 THEN BNeg(a) ELSE a
BSDiv(a,b) == LET q == BUDiv(Abs(a),Abs(b)) IN
   IF IsZero(b) THEN (IF Msb(a) = 1 THEN <<1>> \o Zeros(Len(a)-1) ELSE Ones(Len(a)))      \* SMT-LIB: bvsdiv by 0 = 1 if a<0 else -1
   ELSE IF Msb(a) # Msb(b) THEN BNeg(q) ELSE q
BSRem(a,b) == LET r == BURem(Abs(a),Abs(b)) IN IF IsZero(b) THEN a ELSE IF Msb(a) = 1 THEN BNeg(r) ELSE r
BConcat(hi,lo) == lo \o hi
BExtract(h,l,a) == SubSeq(a,l+1,h+1)
BZExt(n,a) == a \o Zeros(n)
BSExt(n,a) == a \o [i \in 1..n |-> Msb(a)]
BReverse(a) == LET nb == Len(a) \div 8 IN FoldLeft(LAMBDA acc, k : SubSeq(a, 8*(k-1)+1, 8*k) \o acc, <<>>, Idx(nb))   \* byte swap
=============================================================================
