------------------------------ MODULE Knowledge ------------------------------
(***************************************************************************)
(* What a caller can KNOW about a solver from the solver's own answers,    *)
(* and the rule that later answers never contradict it.                    *)
(*                                                                         *)
(* No term semantics is used: expressions are opaque keys (claripy's       *)
(* structural hash), values are texts (plus LSB-first bits for bit-vector  *)
(* values, compared with BVBits.UCmp / SCmp).  The monitor therefore works *)
(* at any width and for every operator, on executions this framework did   *)
(* not generate: the repository's own test-suite and wide-width drivers    *)
(* (harness/recorder.py wraps the public frontend classes, one event per   *)
(* outermost public call).                                                 *)
(*                                                                         *)
(* Facts, per solver id (k):                                               *)
(*   ep      number of successful add() calls (constraints only grow)      *)
(*   unsat   an answer without extra constraints said "unsatisfiable"      *)
(*   satep   epoch at which an answer implied "satisfiable" (-1: none)     *)
(*   feas    <<e, text, bits>> : value text was returned for e at epoch ep *)
(*   exh     <<e, texts, ep>>  : eval(e, n) returned fewer than n values   *)
(*                               at that epoch -- all of them, for ever an *)
(*                               upper bound of the values of e            *)
(*   bnd     <<kind, e, bits, ep>> : min / max answers; for ever bounds    *)
(* Rules (Failing): growth of the constraint set can only remove models,   *)
(* so "unsat" is permanent, exhaustive sets and optima stay bounds, and    *)
(* within one epoch every answer is consistent with every other answer.    *)
(* branch() copies the facts; merge / combine / split / blank_copy give    *)
(* solvers nothing is known about; replacement operations and failed adds  *)
(* end the judgement of that solver (taint); approximate answers           *)
(* (SolverVSA, exact=False, approximate_first) are not judged.             *)
(***************************************************************************)
EXTENDS BVBits, Naturals, Sequences, FiniteSets, TLC

Fresh == [ep |-> 0, unsat |-> FALSE, satep |-> -1, taint |-> FALSE, feas |-> {}, exh |-> {}, bnd |-> {}]
InitK(maxId) == [i \in 0..maxId |-> Fresh]

Texts(vals) == {vals[i][2] : i \in 1..Len(vals)}
IsBV(v) == v[1] = "bv"
Concrete(v) == v[1] \in {"bv", "bool"}
MinN(a, b) == IF a <= b THEN a ELSE b
Queries == {"satisfiable", "eval", "min", "max", "solution"}
Tainting == {"add_replacement", "remove_replacements", "clear_replacements"}
Judged(k, ev) == /\ ev.s >= 0 /\ ~k.taint /\ ~ev.approx /\ ev.cls # "SolverVSA"

BoundOK(k, e, b) ==
  \A t \in k.bnd : t[2] = e /\ Len(t[3]) = Len(b) =>
     CASE t[1] = "lo" -> UCmp(b, t[3]) >= 0
       [] t[1] = "hi" -> UCmp(b, t[3]) <= 0
       [] t[1] = "slo" -> SCmp(b, t[3]) >= 0
       [] t[1] = "shi" -> SCmp(b, t[3]) <= 0
ExhOK(k, e, text) == \A t \in k.exh : t[1] = e => text \in t[2]
Kind(ev) == IF ev.call = "min" THEN (IF ev.signed THEN "slo" ELSE "lo") ELSE (IF ev.signed THEN "shi" ELSE "hi")
NoDup(vals) == \A i, j \in 1..Len(vals) : i # j => vals[i][2] # vals[j][2]

Failing(k, ev) ==
  IF ~Judged(k, ev) \/ ev.call \notin Queries THEN {} ELSE
  LET cur == k.ep
      unsatAns == ev.exc = "UnsatError" \/ (ev.call = "satisfiable" /\ ev.exc = "" /\ ev.vals[1][2] = "False")
      ok == ev.exc = ""
  IN
  \* "unsatisfiable" although the same constraint set gave an answer that needs a model
  (IF unsatAns /\ ~ev.extra /\ k.satep = cur THEN {"unsat-after-sat"} ELSE {})
  \cup
  \* an answer that needs a model although the solver said unsatisfiable before (constraints only grow)
  (IF ok /\ k.unsat /\ (ev.call \in {"eval", "min", "max"} \/ ev.vals[1][2] = "True") /\ (ev.call # "eval" \/ Len(ev.vals) > 0)
     THEN {"answer-after-unsat"} ELSE {})
  \cup
  (IF ev.call = "eval" /\ ok THEN
       (IF ~NoDup(ev.vals) THEN {"eval-duplicates"} ELSE {})
       \cup (IF Len(ev.vals) > ev.n THEN {"eval-too-many"} ELSE {})
       \cup (IF \E i \in 1..Len(ev.vals) : ~ExhOK(k, ev.e, ev.vals[i][2]) THEN {"eval-outside-exhaustive"} ELSE {})
       \cup (IF \E i \in 1..Len(ev.vals) : IsBV(ev.vals[i]) /\ ~BoundOK(k, ev.e, ev.vals[i][3]) THEN {"eval-outside-bounds"} ELSE {})
       \cup (IF ~ev.extra /\ \E t \in k.exh : t[1] = ev.e /\ t[3] = cur /\ Len(ev.vals) # MinN(ev.n, Cardinality(t[2]))
               THEN {"eval-count"} ELSE {})
   ELSE {})
  \cup
  (IF ev.call \in {"min", "max"} /\ ok THEN
       LET m == ev.vals[1] IN
       (IF ~ExhOK(k, ev.e, m[2]) THEN {"optimum-outside-exhaustive"} ELSE {})
       \cup (IF IsBV(m) /\ ~BoundOK(k, ev.e, m[3]) THEN {"optimum-outside-bounds"} ELSE {})
       \cup (IF ~ev.extra /\ IsBV(m) /\ \E f \in k.feas : f[1] = ev.e /\ Len(f[3]) = Len(m[3]) /\
                  (CASE Kind(ev) = "lo" -> UCmp(m[3], f[3]) > 0 [] Kind(ev) = "hi" -> UCmp(m[3], f[3]) < 0
                     [] Kind(ev) = "slo" -> SCmp(m[3], f[3]) > 0 [] Kind(ev) = "shi" -> SCmp(m[3], f[3]) < 0)
               THEN {"optimum-beaten-by-witness"} ELSE {})
       \cup (IF ~ev.extra /\ \E t \in k.bnd : t[1] = Kind(ev) /\ t[2] = ev.e /\ t[4] = cur /\ t[3] # m[3]
               THEN {"optimum-changed"} ELSE {})
   ELSE {})
  \cup
  (IF ev.call = "solution" /\ ok /\ Concrete(ev.v) THEN
       IF ev.vals[1][2] = "True"
       THEN (IF ~ExhOK(k, ev.e, ev.v[2]) THEN {"solution-true-outside-exhaustive"} ELSE {})
            \cup (IF IsBV(ev.v) /\ ~BoundOK(k, ev.e, ev.v[3]) THEN {"solution-true-outside-bounds"} ELSE {})
       ELSE (IF ~ev.extra /\ \E f \in k.feas : f[1] = ev.e /\ f[2] = ev.v[2] THEN {"solution-false-for-witness"} ELSE {})
   ELSE {})

\* what the caller learns from the call (own id)
Learn(k, ev) ==
  LET cur == k.ep  ok == ev.exc = "" IN
  IF ev.call = "add" THEN (IF ok THEN [k EXCEPT !.ep = @ + 1, !.feas = {}] ELSE [k EXCEPT !.taint = TRUE])
  ELSE IF ev.call \in Tainting THEN [k EXCEPT !.taint = TRUE]
  ELSE IF ev.call \notin Queries \/ ~Judged(k, ev) THEN k
  ELSE IF ev.exc = "UnsatError" THEN (IF ev.extra THEN k ELSE [k EXCEPT !.unsat = TRUE])
  ELSE IF ~ok THEN k
  ELSE CASE ev.call = "satisfiable" ->
              IF ev.vals[1][2] = "True" THEN [k EXCEPT !.satep = cur]
              ELSE (IF ev.extra THEN k ELSE [k EXCEPT !.unsat = TRUE])
         [] ev.call = "eval" ->
              IF Len(ev.vals) = 0 THEN k
              ELSE IF ev.extra THEN [k EXCEPT !.satep = cur]
              ELSE [k EXCEPT !.satep = cur,
                             !.feas = @ \cup {<<ev.e, ev.vals[i][2], ev.vals[i][3]>> : i \in 1..Len(ev.vals)},
                             !.exh = IF Len(ev.vals) < ev.n THEN @ \cup {<<ev.e, Texts(ev.vals), cur>>} ELSE @]
         [] ev.call \in {"min", "max"} ->
              IF ev.extra THEN [k EXCEPT !.satep = cur]
              ELSE [k EXCEPT !.satep = cur, !.feas = @ \cup {<<ev.e, ev.vals[1][2], ev.vals[1][3]>>},
                             !.bnd = IF IsBV(ev.vals[1]) THEN @ \cup {<<Kind(ev), ev.e, ev.vals[1][3], cur>>} ELSE @]
         [] ev.call = "solution" ->
              IF ev.vals[1][2] = "True"
              THEN (IF ev.extra \/ ~Concrete(ev.v) THEN [k EXCEPT !.satep = cur]
                    ELSE [k EXCEPT !.satep = cur, !.feas = @ \cup {<<ev.e, ev.v[2], ev.v[3]>>}])
              ELSE k
         [] OTHER -> k

\* effect on the whole table: own id, then the solvers the call produced
Effect(K, ev) ==
  LET K1 == IF ev.s >= 0 THEN [K EXCEPT ![ev.s] = Learn(K[ev.s], ev)] ELSE K
  IN IF ev.call = "branch" /\ ev.exc = "" /\ Len(ev.res) = 1 /\ ev.s >= 0
       THEN [K1 EXCEPT ![ev.res[1]] = K1[ev.s]]
       ELSE K1
=============================================================================
