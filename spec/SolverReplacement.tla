--------------------------- MODULE SolverReplacement ---------------------------
(***************************************************************************)
(* Refined model of claripy.SolverReplacement (frontend/replacement_       *)
(* frontend.py with the default options auto_replace = True,               *)
(* complex_auto_replace = False, replace_constraints = False,              *)
(* unsafe_replacement = False) over the reference term semantics Term.tla. *)
(*                                                                         *)
(* State: the replacement dictionary (repl: old term -> new term), its     *)
(* cache (cache: repl plus memoised results of _replacement), the          *)
(* constraints held by the actual frontend (actual: the added constraints  *)
(* with the replacements applied, except the defining ones) and the set of *)
(* constraints the caller added.                                           *)
(*                                                                         *)
(*   Add(c)    _add: a constraint Not(b) installs b -> false, a constraint  *)
(*             "symbolic == constant" installs symbolic -> constant (only   *)
(*             if that key has no replacement yet: replace = False); both   *)
(*             reset the cache to the dictionary; defining constraints go   *)
(*             to the actual frontend as they are, all others with the      *)
(*             replacements applied                                         *)
(*   EvalQ(q)   the expression with the replacements applied; if it is       *)
(*             variable-free the constant is returned (_concrete_value, the *)
(*             shortcut of ConcreteHandlerMixin) WITHOUT looking at the     *)
(*             constraints; otherwise all its values over the models of the *)
(*             actual frontend, UnsatError if there is none                 *)
(*   Sat       satisfiability of the actual frontend                        *)
(*                                                                         *)
(* Checked by TLC:                                                         *)
(*   ReplImplied   every replacement is implied by the added constraints    *)
(*   ActualEquiv   the actual frontend's models are the models of the added *)
(*                 constraints                                              *)
(*   OnlyKnown     (action property) every answer is the answer of the      *)
(*                 conjunction of the added constraints, EXCEPT the one     *)
(*                 deviation the code is known to have: a shortcut answer   *)
(*                 when the constraints are unsatisfiable (known finding    *)
(*                 <Cxx>-replacement-concrete-on-unsat)                     *)
(*   Strict        (negative control, expected to be refuted) the same      *)
(*                 without the exception: TLC's counterexample IS the known *)
(*                 finding, derived from the model alone                    *)
(***************************************************************************)
EXTENDS Term, Naturals, Sequences, TLC, SequencesExt

CONSTANTS Cs,      \* sequence of constraint terms (as claripy builds them)
          Qs,        \* sequence of query expression terms
          VarsL,     \* sequence of <<name, width>>
          MaxDepth

VARIABLES repl, cache, actual, added, hist, ret
vars == <<repl, cache, actual, added, hist, ret>>
view == <<repl, cache, actual, added>>

Asg == AllAsg(VarsL)
FalseT == <<"BoolV", "", <<0>>, <<>>>>
Symbolic(t) == FreeVars(t) # {}
Lookup(D, t) == IF \E p \in D : p[1] = t THEN {(CHOOSE p \in D : p[1] = t)[2]} ELSE {}

\* claripy.replace_dict: a node that is a key is replaced (and not entered); otherwise its children are
RECURSIVE RepD(_, _)
RepD(t, D) == IF Lookup(D, t) # {} THEN CHOOSE n \in Lookup(D, t) : TRUE
              ELSE <<t[1], t[2], t[3], [i \in 1..Len(t[4]) |-> RepD(t[4][i], D)] \o <<>> >>

DenT(ts) == {a \in Asg : \A t \in ts : Holds(t, a)}
AbsDen == DenT({Cs[c] : c \in added})

Init == repl = {} /\ cache = {} /\ actual = {} /\ added = {} /\ hist = <<>> /\ ret = <<"init">>

\* the replacement a constraint defines, if any: <<old, new>>
Defines(c) ==
  IF c[1] = "Not" THEN {<<c[4][1], FalseT>>}
  ELSE IF c[1] = "__eq__" /\ Symbolic(c[4][1]) # Symbolic(c[4][2])
       THEN (IF Symbolic(c[4][1]) THEN {<<c[4][1], c[4][2]>>} ELSE {<<c[4][2], c[4][1]>>})
  ELSE {}

Add(i) ==
  LET c == Cs[i]
      d == IF Symbolic(c) THEN Defines(c) ELSE {}
      install == d # {} /\ \A p \in d : Lookup(repl, p[1]) = {}          \* replace = False
      r1 == IF install THEN repl \cup d ELSE repl
      c1 == IF install THEN r1 ELSE cache                                \* invalidate_cache: cache := dictionary
      held == IF d # {} THEN c ELSE RepD(c, c1)
  IN /\ repl' = r1
     /\ cache' = c1
     /\ actual' = actual \cup {held}
     /\ added' = added \cup {i}
     /\ hist' = Append(hist, <<1, i>>)
     /\ ret' = <<"ok">>

Sat ==
  /\ ret' = <<"sat", DenT(actual) # {}>>
  /\ hist' = Append(hist, <<2, 0>>)
  /\ UNCHANGED <<repl, cache, actual, added>>

EvalQ(q) ==
  LET e == Qs[q]
      er == RepD(e, cache)
      shortcut == Symbolic(e) /\ ~Symbolic(er)
      M == DenT(actual)
  IN /\ hist' = Append(hist, <<3, q>>)
     /\ cache' = IF er # e THEN cache \cup {<<e, er>>} ELSE cache        \* _replacement memoises
     /\ UNCHANGED <<repl, actual, added>>
     /\ ret' = IF shortcut THEN <<"vals", {EvalV(er, CHOOSE a \in Asg : TRUE)}, TRUE>>
               ELSE IF M = {} THEN <<"unsat">>
               ELSE <<"vals", {EvalV(er, a) : a \in M}, FALSE>>

Next == (\E i \in 1..Len(Cs) : Add(i)) \/ Sat \/ (\E q \in 1..Len(Qs) : EvalQ(q))
Spec == Init /\ [][Next]_vars
DepthOK == Len(hist) <= MaxDepth

LastQ == IF Len(hist') > 0 /\ hist'[Len(hist')][1] = 3 THEN hist'[Len(hist')][2] ELSE 1
AnswerOK(r, q) ==
  CASE r[1] = "sat" -> r[2] = (AbsDen # {})
    [] r[1] = "unsat" -> AbsDen = {}
    [] r[1] = "vals" -> AbsDen # {} /\ r[2] = {EvalV(Qs[q], a) : a \in AbsDen}
    [] OTHER -> TRUE
\* the deviation the code is known to have
KnownDeviation(r) == r[1] = "vals" /\ r[3] /\ AbsDen = {}
OnlyKnown == [][AnswerOK(ret', LastQ) \/ KnownDeviation(ret')]_vars
Strict == [][AnswerOK(ret', LastQ)]_vars

ReplImplied == \A p \in repl : \A a \in AbsDen : EvalV(p[1], a) = EvalV(p[2], a)
CacheImplied == \A p \in cache : \A a \in AbsDen : EvalV(p[1], a) = EvalV(p[2], a)
ActualEquiv == DenT(actual) = AbsDen
=============================================================================
