------------------------------- MODULE TracePickle -------------------------------
(***************************************************************************)
(* C18, expressions: unpickling a pickled expression yields the same       *)
(* object within the process (same = TRUE), and in a fresh process (any    *)
(* hash seed) or after the original was collected an expression that is    *)
(* structurally equal including annotations (w = r; terms carry the        *)
(* annotation list in a fifth slot) — hence equivalent — and that BEHAVES  *)
(* the same: every probe operation applied to the original and to the      *)
(* round-tripped expression gives structurally equal results (probes[i] =  *)
(* <<result on original, result on copy>>).  Metadata of the copy is       *)
(* checked against Term.tla like any other node (C05 clauses).             *)
(***************************************************************************)
EXTENDS Term, Json, IOUtils, TLC

Failing(e) ==
  (IF e.inproc /\ ~e.same THEN {"identity"} ELSE {})
  \cup (IF e.out # "ok" THEN {"outcome"} ELSE {})
  \cup (IF e.out = "ok" /\ e.w # e.r THEN {"structure"} ELSE {})
  \cup (IF e.out = "ok" /\ \E i \in 1..Len(e.probes) : e.probes[i][1] # e.probes[i][2] THEN {"behaviour"} ELSE {})
  \cup (IF e.out = "ok" /\ ~e.rebuilt THEN {"rebuild-identity"} ELSE {})   \* C06 after unpickling: equal leaf = same object
  \cup (IF e.out = "ok" /\ e.len # Width(e.r) THEN {"width"} ELSE {})
  \cup (IF e.out = "ok" /\ e.depth # Depth(e.r) THEN {"depth"} ELSE {})
  \cup (IF e.out = "ok" /\ ~(FreeVars(e.r) \subseteq {e.vars[i] : i \in 1..Len(e.vars)}) THEN {"variables"} ELSE {})

ASSUME LET Trace == ndJsonDeserialize(IOEnv.TRACE_FILE) IN
       /\ \A i \in 1..Len(Trace) : \A c \in Failing(Trace[i]) : PrintT(<<"BAD", i, c>>)
       /\ PrintT(<<"DONE", Len(Trace)>>)
=============================================================================
