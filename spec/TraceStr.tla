------------------------------- MODULE TraceStr -------------------------------
(***************************************************************************)
(* Trace specification for string events (C03).  One ndjson line = one     *)
(* operation on constant strings (code-point lists s = <<s1,s2,s3>>) and   *)
(* 64-bit integer arguments (i = <<i1,i2>>, LSB-first bit lists) with what *)
(* claripy produced on three routes:                                       *)
(*   fold / out     eager folding through the public constructors         *)
(*   solved / sout  operands as StringS/BVS pinned by equalities, value    *)
(*                  obtained through a claripy solver (sv = 1 if present)  *)
(*   z3lit          (op = "lit") the code points Z3 holds for the constant *)
(*                  after claripy's translation of StringV(s1) (lv = 1)    *)
(* Depth-2 events: an inner operation iop on (is, ii) whose reference      *)
(* result replaces s1 (ipos = "s") or i1 (ipos = "i").                     *)
(* Results are integer sequences (code points / <<0>>,<<1>> / 64 bits).    *)
(* zs: self-test marker (value recorded in `fold` comes from Z3 directly). *)
(***************************************************************************)
EXTENDS Str, Json, IOUtils

Inner(e) == StrSem(e.iop, e.is, e.ii)
S(e) == IF e.iop # "" /\ e.ipos = "s" THEN <<Inner(e), e.s[2], e.s[3]>> ELSE e.s
I(e) == IF e.iop # "" /\ e.ipos = "i" THEN <<Inner(e), e.i[2]>> ELSE e.i
Ref(e) == StrSem(e.op, S(e), I(e))

Failing(e) ==
  LET ref == Ref(e)
  IN {c \in {"outcome", "fold", "solved-outcome", "solved", "z3lit"} :
        CASE c = "outcome" -> e.out # "ok"
          [] c = "fold" -> e.out = "ok" /\ e.fold # ref
          [] c = "solved-outcome" -> e.sv = 1 /\ e.sout # "ok"
          [] c = "solved" -> e.sv = 1 /\ e.sout = "ok" /\ e.solved # ref
          [] c = "z3lit" -> e.lv = 1 /\ e.z3lit # ref }

\* Trace is bound inside the ASSUME (a top-level definition would be re-parsed at every reference)
ASSUME LET Trace == ndJsonDeserialize(IOEnv.TRACE_FILE) IN
         /\ \A i \in 1..Len(Trace) : \A c \in Failing(Trace[i]) : PrintT(<<"BAD", i, c>>)
         /\ PrintT(<<"DONE", Len(Trace)>>)
=============================================================================
