------------------------------- MODULE TraceValues -------------------------------
(***************************************************************************)
(* C26: every value returned by eval / batch_eval / min / max is a value   *)
(* the expression takes in some model of the constraints.                  *)
(*                                                                         *)
(* k = "bv":  cons (constraint terms), es (queried expression terms), vals *)
(*   (the returned tuple of values, one bit sequence per expression),      *)
(*   wit = <<status, assignment>>: a model claimed to realise the tuple    *)
(*   (obtained from an independent cache-less solver asked for cons /\     *)
(*   es = vals).  TLC does not trust the witness: it evaluates every       *)
(*   constraint and every expression under it with Term.tla, at any width. *)
(*   No witness (status "unsat") means the value cannot be substituted     *)
(*   back, which is exactly the violation the property describes.          *)
(* k = "pin": a variable of sort fp / string pinned to a value by the      *)
(*   constraints; got must be that value (bit identity; NaN as a class).   *)
(***************************************************************************)
EXTENDS Term, Json, IOUtils, TLC

IsNaNBits(b, eb, sb) ==      \* exponent all ones, fraction non-zero (LSB-first: fraction = bits 1..sb-1)
  /\ \A i \in sb..(sb + eb - 1) : b[i] = 1
  /\ \E i \in 1..(sb - 1) : b[i] = 1

FailingBV(e) ==
  IF e.wit[1] = "unsat" THEN {"value-not-real"}
  ELSE IF e.wit[1] # "ok" THEN {"witness-machinery"}
  ELSE LET a == AsgOf(e.wit[2]) IN
       (IF \A i \in 1..Len(e.cons) : Holds(e.cons[i], a) THEN {} ELSE {"witness-violates-constraints"})
       \cup (IF \A i \in 1..Len(e.es) : EvalV(e.es[i], a) = e.vals[i] THEN {} ELSE {"witness-wrong-value"})

FailingPin(e) ==
  IF e.out # "ok" THEN {"outcome"}
  ELSE IF e.sort = "fp" /\ IsNaNBits(e.pinned, e.eb, e.sb)
       THEN (IF IsNaNBits(e.got, e.eb, e.sb) THEN {} ELSE {"pinned-value"})
  ELSE IF e.got = e.pinned THEN {} ELSE {"pinned-value"}

Failing(e) == CASE e.k = "bv" -> FailingBV(e) [] e.k = "pin" -> FailingPin(e)

ASSUME LET Trace == ndJsonDeserialize(IOEnv.TRACE_FILE) IN
       /\ \A i \in 1..Len(Trace) : \A c \in Failing(Trace[i]) : PrintT(<<"BAD", i, c>>)
       /\ PrintT(<<"DONE", Len(Trace)>>)
=============================================================================
