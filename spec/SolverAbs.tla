------------------------------- MODULE SolverAbs -------------------------------
(***************************************************************************)
(* The abstract solver algebra (C10-C18, C26).                             *)
(*                                                                         *)
(* A solver *is* its set of models: models[s] \subseteq Asg where Asg is   *)
(* the set of all assignments to the (small) variables of the trace.       *)
(* Every public frontend call is an event; for each event this module      *)
(* defines                                                                 *)
(*    Effect(st, ev)   the next abstract state, computed from the logged   *)
(*                     INPUTS only (a wrong answer never corrupts it), and *)
(*    Failing(st, ev)  the set of clauses of the allowed-outcome relation  *)
(*                     that the logged OUTPUT violates.                    *)
(* The relation encodes the exemptions and freedoms literally (DESIGN 4.2):*)
(* any n distinct feasible values for eval; UnsatError or an empty result  *)
(* for an infeasible eval; values are n-bit patterns (already reduced      *)
(* modulo 2^n by the recorder); queries on a variable-free built AST       *)
(* bypass the solver, so on an unsatisfiable state either the constant or  *)
(* UnsatError is accepted; after a mutating call raises, that solver id is *)
(* "unknown" for the rest of the trace.                                    *)
(*                                                                         *)
(* Event record (all fields always present):                               *)
(*  call, s, new (ids created), e, es, n, v, signed, extra, cs, others,    *)
(*  anc (-1: none), ret (sequence of tuples of bit sequences), rets        *)
(*  (sequence of terms), groups (sequence of sequences of terms), scons    *)
(*  (constraints held before the call), exc, excClaripy, mode              *)
(*  ("exact"/"approx"), fault, fired, conc                                 *)
(***************************************************************************)
EXTENDS Term, TLC

Min2(a, b) == IF a <= b THEN a ELSE b

\* ---------- denotations ----------
Den(Asg, t) == {a \in Asg : Holds(t, a)}
DenAll(Asg, ts) == {a \in Asg : \A i \in 1..Len(ts) : Holds(ts[i], a)}
Vals(F, e) == {EvalV(e, a) : a \in F}
ValsTuple(F, es) == {[i \in 1..Len(es) |-> EvalV(es[i], a)] \o <<>> : a \in F}

\* ---------- ordering of bit patterns ----------
ULeq(a, b) == UCmp(a, b) <= 0
SLeq(a, b) == SCmp(a, b) <= 0
Least(V, signed) == CHOOSE v \in V : \A u \in V : IF signed THEN SLeq(v, u) ELSE ULeq(v, u)
Greatest(V, signed) == CHOOSE v \in V : \A u \in V : IF signed THEN SLeq(u, v) ELSE ULeq(u, v)

NoDup(s) == \A i, j \in 1..Len(s) : i # j => s[i] # s[j]
SeqRange(s) == {s[i] : i \in 1..Len(s)}

\* ---------- abstract state ----------
\* st = [models |-> [sid -> SUBSET Asg], unk |-> set of sids, added |-> [sid -> set of terms]]
\*       opaque |-> sids whose answers are not judged for correctness any more (add_replacement was used: the caller
\*                  asserted a replacement the constraints do not imply) but still for isolation,
\*       last |-> [sid -> set of <<query key, answer>>] since the last operation ON that sid (C14 isolation)]
\*       twin |-> [sid -> sid or -1]: the solver it was pickled from / to (C18); trail |-> [sid -> sequence of
\*                <<operation key, answer>>] since that pickle: two twins that received the same operations must have
\*                given the same answers
InitState(maxId) == [models |-> [i \in 0..maxId |-> {}], unk |-> {}, added |-> [i \in 0..maxId |-> {}], live |-> {},
                     opaque |-> {}, last |-> [i \in 0..maxId |-> {}],
                     twin |-> [i \in 0..maxId |-> -1], trail |-> [i \in 0..maxId |-> <<>>]]

Mutating == {"add", "simplify", "downsize", "merge", "combine", "split", "branch", "pickle", "new", "add_replacement",
             "remove_replacements"}
\* operations after which the answers of the solver they are called ON may legitimately change
SelfChanging == {"add", "simplify", "downsize", "add_replacement", "remove_replacements"}
Queries == {"satisfiable", "eval", "batch_eval", "min", "max", "solution", "is_true", "is_false"}
QKey(ev) == <<ev.call, ev.e, ev.es, ev.n, ev.v, ev.signed, ev.extra>>
\* answers that are functions of the solver's state (eval only when it listed everything it found)
Determinate(ev) == ev.exc = "" /\ (ev.call \in {"satisfiable", "min", "max", "solution", "is_true", "is_false"}
                                   \/ (ev.call \in {"eval", "batch_eval"} /\ Len(ev.ret) < ev.n))
Answer(ev) == IF ev.call \in {"eval", "batch_eval"} THEN {ev.ret[i] : i \in 1..Len(ev.ret)} ELSE {ev.ret[1]}

\* conjuncts of a constraint list, And-split one level recursively
RECURSIVE Conjuncts(_)
Conjuncts(t) == IF t[1] = "And" THEN UNION {Conjuncts(t[4][i]) : i \in 1..Len(t[4])} ELSE {t}
ConjunctsAll(ts) == UNION {Conjuncts(ts[i]) : i \in 1..Len(ts)}
TrueT == <<"BoolV", "", <<1>>, <<>>>>

Effect0(Asg, st, ev) ==
  LET s == ev.s  M == st.models[s] IN
  IF ev.exc # "" /\ ev.call \in Mutating
    THEN [st EXCEPT !.unk = @ \cup {s} \cup SeqRange(ev.new)]      \* may or may not have been applied
  ELSE
  CASE ev.call = "new" -> [st EXCEPT !.models[ev.new[1]] = Asg, !.live = @ \cup {ev.new[1]}]
    [] ev.call = "add" -> [st EXCEPT !.models[s] = M \cap DenAll(Asg, ev.cs),
                                      !.added[s] = @ \cup SeqRange(ev.cs) \cup SeqRange(ev.csb)]
    [] ev.call \in {"branch", "pickle"} ->
          [st EXCEPT !.models[ev.new[1]] = M, !.added[ev.new[1]] = st.added[s], !.live = @ \cup {ev.new[1]},
                     !.unk = IF s \in st.unk THEN @ \cup {ev.new[1]} ELSE @]
    [] ev.call = "merge" ->
          LET ids == <<s>> \o ev.others
              m == IF ev.anc >= 0
                   THEN st.models[ev.anc] \cap UNION {Den(Asg, ev.cs[i]) : i \in 1..Len(ev.cs)}
                   ELSE UNION {st.models[ids[i]] \cap Den(Asg, ev.cs[i]) : i \in 1..Min2(Len(ids), Len(ev.cs))}
              u == \E i \in 1..Len(ids) : ids[i] \in st.unk
          IN [st EXCEPT !.models[ev.new[1]] = m, !.live = @ \cup {ev.new[1]},
                        !.added[ev.new[1]] = UNION {st.added[ids[i]] : i \in 1..Len(ids)},
                        !.unk = IF u \/ (ev.anc >= 0 /\ ev.anc \in st.unk) THEN @ \cup {ev.new[1]} ELSE @]
    [] ev.call = "combine" ->
          LET ids == <<s>> \o ev.others
              m == {a \in Asg : \A i \in 1..Len(ids) : a \in st.models[ids[i]]}
              u == \E i \in 1..Len(ids) : ids[i] \in st.unk
          IN [st EXCEPT !.models[ev.new[1]] = m, !.live = @ \cup {ev.new[1]},
                        !.added[ev.new[1]] = UNION {st.added[ids[i]] : i \in 1..Len(ids)},
                        !.unk = IF u THEN @ \cup {ev.new[1]} ELSE @]
    [] ev.call = "split" ->
          \* the reference for each part is M projected by its own group (checked in Failing); the state
          \* of each part is the denotation of the group it was GIVEN
          [st EXCEPT !.models = [i \in DOMAIN st.models |->
                                   IF \E k \in 1..Len(ev.new) : ev.new[k] = i
                                   THEN DenAll(Asg, ev.groups[CHOOSE k \in 1..Len(ev.new) : ev.new[k] = i])
                                   ELSE st.models[i]],
                     !.live = @ \cup SeqRange(ev.new),
                     !.unk = IF s \in st.unk THEN @ \cup SeqRange(ev.new) ELSE @]
    [] ev.call \in {"add_replacement", "remove_replacements"} -> [st EXCEPT !.opaque = @ \cup {s}]
    [] OTHER -> st

OpKey(ev) == <<ev.call, ev.e, ev.es, ev.n, ev.v, ev.signed, ev.extra, ev.cs>>
TrailItem(ev) == <<OpKey(ev), IF ev.call \in Queries /\ Determinate(ev) THEN Answer(ev) ELSE {}>>
Trailed == Queries \cup SelfChanging

EffectTwin(st, ev) ==
  LET s == ev.s IN
  IF ev.call = "pickle" /\ ev.exc = ""
    THEN [st EXCEPT !.twin = [@ EXCEPT ![s] = ev.new[1], ![ev.new[1]] = s],
                    !.trail = [@ EXCEPT ![s] = <<>>, ![ev.new[1]] = <<>>]]
  ELSE IF st.twin[s] >= 0 /\ ev.call \in Trailed
    THEN [st EXCEPT !.trail[s] = Append(@, TrailItem(ev))]
  ELSE IF st.twin[s] >= 0 /\ ev.call \notin Trailed
    THEN [st EXCEPT !.twin = [@ EXCEPT ![s] = -1, ![st.twin[s]] = -1]]     \* branch/merge/...: stop comparing
  ELSE st

\* C18: the unpickled solver gives the same answers as the original from then on
FailTwin(st, ev) ==
  LET s == ev.s  t == st.twin[s]  i == Len(st.trail[s]) + 1 IN
  IF t >= 0 /\ ev.call \in Queries /\ Determinate(ev) /\ Len(st.trail[t]) >= i
     /\ (\A j \in 1..(i-1) : st.trail[t][j][1] = st.trail[s][j][1])
     /\ st.trail[t][i][1] = OpKey(ev) /\ st.trail[t][i][2] # {} /\ st.trail[t][i][2] # Answer(ev)
  THEN {"pickle-divergence"} ELSE {}

Effect(Asg, st, ev) ==
  LET st1 == EffectTwin(Effect0(Asg, st, ev), ev)
      s == ev.s
      \* ids created from an opaque solver are opaque too
      st2 == IF s \in st.opaque /\ Len(ev.new) > 0 THEN [st1 EXCEPT !.opaque = @ \cup SeqRange(ev.new)] ELSE st1
  IN IF ev.call \in SelfChanging THEN [st2 EXCEPT !.last[s] = {}]
     ELSE IF ev.call \in Queries /\ Determinate(ev) THEN [st2 EXCEPT !.last[s] = @ \cup {<<QKey(ev), Answer(ev)>>}]
     ELSE st2

\* C14: between two identical queries on one solver nothing was done TO that solver (whatever happened to its
\* branches, parents, merge partners): the answers must be the same
FailIsolation(st, ev) ==
  IF ev.call \in Queries /\ Determinate(ev)
     /\ \E p \in st.last[ev.s] : p[1] = QKey(ev) /\ p[2] # Answer(ev)
  THEN {"isolation"} ELSE {}

\* ---------- allowed outcomes ----------
ExcOK(ev) == ev.exc \in {"", "UnsatError"}

\* exact frontends
FailExact(Asg, st, ev) ==
  LET M == st.models[ev.s]
      F == M \cap DenAll(Asg, ev.extra)
      a0 == CHOOSE a \in Asg : TRUE
      B(x) == IF x THEN <<1>> ELSE <<0>>
  IN
  CASE ev.call = "satisfiable" ->
         IF ev.exc # "" THEN {"exc"} ELSE IF ev.ret[1][1] = B(F # {}) THEN {} ELSE {"satisfiable"}
    [] ev.call = "eval" ->
         LET V == Vals(F, ev.e)  R == [i \in 1..Len(ev.ret) |-> ev.ret[i][1]] \o <<>> IN
         IF ev.exc = "UnsatError" THEN (IF V = {} THEN {} ELSE {"unsat-on-sat"})
         ELSE IF ev.exc # "" THEN {"exc"}
         ELSE IF ev.conc /\ V = {} THEN (IF R = <<EvalV(ev.e, a0)>> \/ R = <<>> THEN {} ELSE {"eval-infeasible"})
         ELSE IF V = {} /\ Len(R) > 0 THEN {"eval-on-unsat"}
         ELSE (IF SeqRange(R) \subseteq V THEN {} ELSE {"eval-infeasible"})
              \cup (IF NoDup(R) THEN {} ELSE {"eval-duplicates"})
              \cup (IF Len(R) = Min2(ev.n, Cardinality(V)) THEN {} ELSE {"eval-count"})
    [] ev.call = "batch_eval" ->
         LET V == ValsTuple(F, ev.es) IN
         IF ev.exc = "UnsatError" THEN (IF V = {} THEN {} ELSE {"unsat-on-sat"})
         ELSE IF ev.exc # "" THEN {"exc"}
         ELSE IF ev.conc /\ V = {} THEN {}
         ELSE IF V = {} /\ Len(ev.ret) > 0 THEN {"eval-on-unsat"}
         ELSE (IF SeqRange(ev.ret) \subseteq V THEN {} ELSE {"eval-infeasible"})
              \cup (IF NoDup(ev.ret) THEN {} ELSE {"eval-duplicates"})
              \cup (IF Len(ev.ret) = Min2(ev.n, Cardinality(V)) THEN {} ELSE {"eval-count"})
    [] ev.call \in {"min", "max"} ->
         LET V == Vals(F, ev.e) IN
         IF ev.exc = "UnsatError" THEN (IF V = {} THEN {} ELSE {"unsat-on-sat"})
         ELSE IF ev.exc # "" THEN {"exc"}
         ELSE IF V = {} THEN (IF ev.conc /\ ev.ret[1][1] = EvalV(ev.e, a0) THEN {} ELSE {"answer-on-unsat"})
         ELSE IF ev.ret[1][1] = (IF ev.call = "min" THEN Least(V, ev.signed) ELSE Greatest(V, ev.signed))
              THEN {} ELSE {ev.call}
    [] ev.call = "solution" ->
         LET truth == \E a \in F : EvalV(ev.e, a) = EvalV(ev.v, a) IN
         IF ev.exc = "UnsatError" THEN (IF F = {} THEN {} ELSE {"unsat-on-sat"})
         ELSE IF ev.exc # "" THEN {"exc"}
         ELSE IF ev.conc /\ F = {} THEN {}
         ELSE IF F = {} /\ ev.ret[1][1] = <<1>> THEN {"solution-on-unsat"}
         ELSE IF ev.ret[1][1] = B(truth) THEN {} ELSE {"solution"}
    [] ev.call \in {"is_true", "is_false"} ->
         IF ev.exc = "UnsatError" THEN (IF F = {} THEN {} ELSE {"unsat-on-sat"})
         ELSE IF ev.exc # "" THEN {"exc"}
         ELSE IF ev.ret[1][1] # <<1>> THEN {}
         ELSE IF ev.call = "is_true" THEN (IF \A a \in F : Holds(ev.e, a) THEN {} ELSE {"is_true-overclaims"})
         ELSE (IF \A a \in F : ~Holds(ev.e, a) THEN {} ELSE {"is_false-overclaims"})
    [] ev.call = "unsat_core" ->
         \* relative to extra constraints: F = models that also satisfy them; the core may contain them
         IF ev.exc # "" THEN {"exc"}
         ELSE IF F # {} THEN (IF Len(ev.rets) = 0 THEN {} ELSE {"core-on-sat"})
         ELSE (IF \A i \in 1..Len(ev.rets) : ev.rets[i] \in st.added[ev.s] \cup SeqRange(ev.scons) \cup SeqRange(ev.extra)
                  THEN {} ELSE {"core-not-subset"})
              \cup (IF DenAll(Asg, ev.rets) \cap DenAll(Asg, ev.extra) = {} THEN {} ELSE {"core-satisfiable"})
    [] ev.call = "split" ->
         IF ev.exc # "" THEN {"exc"} ELSE
         LET G == ev.groups
             gv(k) == UNION {FreeVars(G[k][i]) : i \in 1..Len(G[k])}
             gd(k) == DenAll(Asg, G[k])
             want == ConjunctsAll(ev.scons)
         IN \* parts share no variables
            (IF \A j, k \in 1..Len(G) : j # k => gv(j) \cap gv(k) = {} THEN {} ELSE {"split-shared-vars"})
            \* every conjunct of s is carried by one part (semantically: claripy may have simplified it there);
            \* because parts share no variables a non-trivial conjunct cannot be carried by two of them
            \cup (IF \A c \in want : Den(Asg, c) = Asg \/ \E k \in 1..Len(G) : gd(k) \subseteq Den(Asg, c)
                  THEN {} ELSE {"split-conjuncts"})
            \* together the parts are equivalent to s
            \cup (IF {a \in Asg : \A k \in 1..Len(G) : a \in gd(k)} = M THEN {} ELSE {"split-models"})
    [] ev.call \in Mutating -> IF ev.exc # "" THEN {"exc"} ELSE {}
    [] OTHER -> {}

\* over-approximating frontends (SolverVSA, SolverHybrid in approximate mode): never exclude what exists
FailApprox(Asg, st, ev) ==
  LET M == st.models[ev.s]
      F == M \cap DenAll(Asg, ev.extra)
  IN
  CASE ev.call = "satisfiable" ->
         IF ev.exc # "" THEN {"exc"} ELSE IF ev.ret[1][1] = <<0>> /\ F # {} THEN {"approx-unsat-on-sat"} ELSE {}
    [] ev.call = "eval" ->
         LET V == Vals(F, ev.e)  R == {ev.ret[i][1] : i \in 1..Len(ev.ret)} IN
         IF ev.exc = "UnsatError" THEN (IF V = {} THEN {} ELSE {"approx-unsat-on-sat"})
         ELSE IF ev.exc # "" THEN {"exc"}
         ELSE IF Len(ev.ret) < ev.n /\ ~(V \subseteq R) THEN {"approx-excludes-value"} ELSE {}
    [] ev.call \in {"min", "max"} ->
         LET V == Vals(F, ev.e) IN
         IF ev.exc = "UnsatError" THEN (IF V = {} THEN {} ELSE {"approx-unsat-on-sat"})
         ELSE IF ev.exc = "NoneAnswer" THEN (IF V = {} THEN {} ELSE {"approx-none-on-sat"})
         ELSE IF ev.exc # "" THEN {"exc"}
         ELSE IF V = {} THEN {}
         ELSE IF ev.call = "min"
              THEN (IF (IF ev.signed THEN SLeq(ev.ret[1][1], Least(V, TRUE)) ELSE ULeq(ev.ret[1][1], Least(V, FALSE)))
                    THEN {} ELSE {"approx-min-too-high"})
              ELSE (IF (IF ev.signed THEN SLeq(Greatest(V, TRUE), ev.ret[1][1]) ELSE ULeq(Greatest(V, FALSE), ev.ret[1][1]))
                    THEN {} ELSE {"approx-max-too-low"})
    [] ev.call = "solution" ->
         IF ev.exc = "UnsatError" THEN (IF F = {} THEN {} ELSE {"approx-unsat-on-sat"})
         ELSE IF ev.exc # "" THEN {"exc"}
         ELSE IF ev.ret[1][1] = <<0>> /\ (\E a \in F : EvalV(ev.e, a) = EvalV(ev.v, a)) THEN {"approx-excludes-value"}
         ELSE {}
    [] ev.call \in {"is_true", "is_false"} ->
         IF ev.exc # "" /\ ev.exc # "UnsatError" THEN {"exc"}
         ELSE IF ev.exc # "" THEN {}
         ELSE IF ev.ret[1][1] # <<1>> THEN {}
         ELSE IF ev.call = "is_true" THEN (IF \A a \in F : Holds(ev.e, a) THEN {} ELSE {"is_true-overclaims"})
         ELSE (IF \A a \in F : ~Holds(ev.e, a) THEN {} ELSE {"is_false-overclaims"})
    [] ev.call \in Mutating -> IF ev.exc # "" THEN {"exc"} ELSE {}
    [] OTHER -> {}

\* an armed backend fault that fired: the operation must raise a claripy error, never return an answer
FailFault(Asg, st, ev) ==
  IF ev.exc = "" THEN {"fault-answered"}
  ELSE IF ~ev.excClaripy THEN {"fault-foreign-exception"}
  ELSE IF ev.exc = "UnsatError" /\ st.models[ev.s] \cap DenAll(Asg, ev.extra) # {} THEN {"fault-unsat-on-sat"}
  ELSE {}

Failing(Asg, st, ev) ==
  IF ev.s \in st.unk THEN {}
  ELSE IF ev.fired THEN FailFault(Asg, st, ev)
  ELSE FailIsolation(st, ev) \cup FailTwin(st, ev) \cup
       (IF ev.s \in st.opaque THEN (IF ev.exc \in {"", "UnsatError", "NoneAnswer"} THEN {} ELSE {"exc"})
        ELSE IF ev.mode = "approx" THEN FailApprox(Asg, st, ev)
        ELSE FailExact(Asg, st, ev))
=============================================================================
