--------------------------- MODULE TraceKnowledge ---------------------------
(***************************************************************************)
(* Trace validation against Knowledge.tla: every line of the ndjson file is *)
(* one recorded program run (a test function of the repository's suite, or  *)
(* one wide-width history): its events are folded through Failing / Effect. *)
(***************************************************************************)
EXTENDS Knowledge, Json, IOUtils, SequencesExt

CheckTrace(tr) ==
  FoldLeft(LAMBDA acc, i :
              LET ev == tr.ev[i]
                  f == IF ev.s >= 0 THEN Failing(acc[1][ev.s], ev) ELSE {}
              IN << Effect(acc[1], ev), acc[2] \cup {<<i, c>> : c \in f} >>,
           << InitK(tr.maxid), {} >>, [i \in 1..Len(tr.ev) |-> i] \o <<>>)[2]

ASSUME LET Trace == ndJsonDeserialize(IOEnv.TRACE_FILE) IN
       /\ \A i \in 1..Len(Trace) : \A p \in CheckTrace(Trace[i]) : PrintT(<<"BAD", i, p[2], p[1]>>)
       /\ PrintT(<<"DONE", Len(Trace)>>)
=============================================================================
