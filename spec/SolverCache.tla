------------------------------- MODULE SolverCache -------------------------------
(***************************************************************************)
(* Refined, implementation-shaped model of claripy.Solver's caches over    *)
(* one bit-vector variable x of width W (K1 exploration, DESIGN 1.1/A.2).  *)
(*                                                                         *)
(* One action per public call, written from the mixin chain as coded:      *)
(*   SatCacheMixin      satc  in {"N","T","F"}                             *)
(*   ModelCacheMixin    cm (cached models = values of x), evalExh, and the *)
(*                      four min/max "exhausted" flags                     *)
(*   FullFrontend       the backend answers from the true model set M      *)
(*   branch()           copies every cache to a fresh solver id            *)
(* Nondeterminism = Z3's freedom (which models it returns, which models    *)
(* the binary search of min/max happens to visit).                         *)
(*                                                                         *)
(* TLC checks that every answer the refined machine can give is allowed by *)
(* the abstract solver (AnswerOK = SolverAbs restricted to one variable)   *)
(* and that the caches are sound.  The behaviours are exported (hist) and  *)
(* replayed on the real claripy.Solver; the recorded runs are validated    *)
(* against SolverAbs by TraceSolver.tla, which is what produces verdicts.  *)
(***************************************************************************)
EXTENDS Integers, FiniteSets, Sequences, TLC

CONSTANTS W,        \* width of x
          CDen,     \* sequence of constraint denotations (subsets of 0..2^W-1)
          EDen,     \* sequence of extra-constraint denotations; EDen[1] = all values = "no extra constraints"
          NVals,    \* set of n values for eval
          NS,       \* number of solver ids (branching creates ids 2..NS)
          MaxDepth

V == 0..(2^W - 1)
ToS(v) == IF v >= 2^(W-1) THEN v - 2^W ELSE v
UMin(S) == CHOOSE v \in S : \A u \in S : v <= u
UMax(S) == CHOOSE v \in S : \A u \in S : v >= u
SMin(S) == CHOOSE v \in S : \A u \in S : ToS(v) <= ToS(u)
SMax(S) == CHOOSE v \in S : \A u \in S : ToS(v) >= ToS(u)
Opt(S, isMax, signed) == IF isMax THEN (IF signed THEN SMax(S) ELSE UMax(S)) ELSE (IF signed THEN SMin(S) ELSE UMin(S))
NoExtra(e) == e = 1

VARIABLES live,     \* set of solver ids in use
          M,        \* M[s]: abstract model set (values of x)
          cm,       \* cm[s]: cached models
          evalExh,  \* evalExh[s]: every value of x is cached
          optExh,   \* optExh[s]: subset of {<<isMax, signed>>} whose optimum is known to be cached
          satc,     \* satc[s] in {"N","T","F"}
          ret,      \* last observable outcome <<call, s, args..., result>>
          hist      \* exported history: sequence of <<opcode, s, a, b>> (hidden from the fingerprint by VIEW)

vars == <<live, M, cm, evalExh, optExh, satc, ret, hist>>
\* states are identified by the solver/cache state only: neither the last answer nor the history is part of the
\* fingerprint, so TLC keeps ONE (shortest, BFS) history per reachable refined state.  The answer is checked on
\* every transition by the action property AnswerStep (TLC evaluates implied actions for every generated
\* successor, also when the successor state has been seen before).
view == <<live, M, cm, evalExh, optExh, satc>>

Init == /\ live = {1}
        /\ M = [s \in 1..NS |-> V] /\ cm = [s \in 1..NS |-> {}]
        /\ evalExh = [s \in 1..NS |-> FALSE] /\ optExh = [s \in 1..NS |-> {}]
        /\ satc = [s \in 1..NS |-> "N"]
        /\ ret = <<"init">> /\ hist = <<>>

H(op, s, a, b) == hist' = Append(hist, <<op, s, a, b>>)
B2N(b) == IF b THEN 1 ELSE 0

\* ---- add: ModelCacheMixin._add / SatCacheMixin._add
Add(s, c) ==
  LET D == CDen[c]  still == cm[s] \cap D IN
  /\ M' = [M EXCEPT ![s] = @ \cap D]
  /\ IF still # cm[s]
       THEN cm' = [cm EXCEPT ![s] = still] /\ evalExh' = [evalExh EXCEPT ![s] = FALSE]
            /\ optExh' = [optExh EXCEPT ![s] = {}]
       ELSE UNCHANGED <<cm, evalExh, optExh>>
  /\ satc' = [satc EXCEPT ![s] = IF D = {} THEN "F" ELSE IF @ = "T" THEN "N" ELSE @]
  /\ ret' = <<"add", s, c>> /\ H(1, s, c, 0) /\ UNCHANGED live

\* ---- satisfiable
Satisfiable(s, e) ==
  LET X == EDen[e]  F == M[s] \cap X IN
  /\ UNCHANGED <<M, evalExh, optExh, live>> /\ H(2, s, e, 0)
  /\ IF satc[s] = "F" THEN ret' = <<"sat", s, e, FALSE>> /\ UNCHANGED <<cm, satc>>
     ELSE IF satc[s] = "T" /\ NoExtra(e) THEN ret' = <<"sat", s, e, TRUE>> /\ UNCHANGED <<cm, satc>>
     ELSE IF cm[s] \cap X # {} THEN ret' = <<"sat", s, e, TRUE>> /\ UNCHANGED cm
                                   /\ satc' = [satc EXCEPT ![s] = IF NoExtra(e) THEN "T" ELSE @]
     ELSE IF F = {} THEN ret' = <<"sat", s, e, FALSE>> /\ UNCHANGED cm
                         /\ satc' = [satc EXCEPT ![s] = IF NoExtra(e) THEN "F" ELSE @]
     ELSE \E m \in F : /\ cm' = [cm EXCEPT ![s] = @ \cup {m}] /\ ret' = <<"sat", s, e, TRUE>>
                       /\ satc' = [satc EXCEPT ![s] = IF NoExtra(e) THEN "T" ELSE @]

\* ---- eval(x, n, extra): ModelCacheMixin.batch_eval
Eval(s, n, e) ==
  LET X == EDen[e]  F == M[s] \cap X  have == cm[s] \cap X IN
  /\ UNCHANGED <<M, optExh, live>> /\ H(3, s, n, e)
  /\ IF satc[s] = "F" THEN ret' = <<"eval", s, n, e, "unsat", {}>> /\ UNCHANGED <<cm, satc, evalExh>>
     ELSE IF Cardinality(have) >= n
       THEN \E R \in SUBSET have : Cardinality(R) = n /\ ret' = <<"eval", s, n, e, "ok", R>>
                                   /\ satc' = [satc EXCEPT ![s] = "T"] /\ UNCHANGED <<cm, evalExh>>
     ELSE IF evalExh[s] /\ NoExtra(e) /\ have # {}      \* exhausted shortcut: only without extra constraints
       THEN ret' = <<"eval", s, n, e, "ok", have>> /\ satc' = [satc EXCEPT ![s] = "T"] /\ UNCHANGED <<cm, evalExh>>
     ELSE LET pool == F \ have  need == n - Cardinality(have) IN
          \E R \in SUBSET pool :
            /\ Cardinality(R) = (IF Cardinality(pool) < need THEN Cardinality(pool) ELSE need)
            /\ cm' = [cm EXCEPT ![s] = @ \cup R]
            /\ IF have \cup R = {}
                 THEN /\ ret' = <<"eval", s, n, e, "unsat", {}>> /\ UNCHANGED evalExh
                      /\ satc' = [satc EXCEPT ![s] = IF NoExtra(e) THEN "F" ELSE @]
                 ELSE /\ ret' = <<"eval", s, n, e, "ok", have \cup R>> /\ satc' = [satc EXCEPT ![s] = "T"]
                      /\ evalExh' = [evalExh EXCEPT ![s] = IF NoExtra(e) /\ Cardinality(have \cup R) < n THEN TRUE ELSE @]

\* ---- min / max (x, signed, extra): ModelCacheMixin.min/max over FullFrontend.min/max
Optimum(s, isMax, signed, e) ==
  LET X == EDen[e]  F == M[s] \cap X  key == <<isMax, signed>> IN
  /\ UNCHANGED <<M, evalExh, live>> /\ H(IF isMax THEN 5 ELSE 4, s, B2N(signed), e)
  /\ IF satc[s] = "F" THEN ret' = <<"opt", s, isMax, signed, e, "unsat", 0>> /\ UNCHANGED <<cm, satc, optExh>>
     ELSE IF NoExtra(e) /\ (evalExh[s] \/ key \in optExh[s]) /\ cm[s] # {}
       THEN /\ ret' = <<"opt", s, isMax, signed, e, "ok", Opt(cm[s], isMax, signed)>>
            /\ satc' = [satc EXCEPT ![s] = "T"] /\ UNCHANGED <<cm, optExh>>
     ELSE IF F = {} THEN /\ ret' = <<"opt", s, isMax, signed, e, "unsat", 0>> /\ UNCHANGED <<cm, optExh>>
                         /\ satc' = [satc EXCEPT ![s] = IF NoExtra(e) THEN "F" ELSE @]
     ELSE LET m == Opt(F, isMax, signed) IN
          \* the binary search caches the models it happens to see; the optimum's own model only sometimes
          \E seen \in SUBSET F :
            /\ seen # {}
            /\ cm' = [cm EXCEPT ![s] = @ \cup seen]
            /\ ret' = <<"opt", s, isMax, signed, e, "ok", m>> /\ satc' = [satc EXCEPT ![s] = "T"]
            /\ optExh' = [optExh EXCEPT ![s] = IF NoExtra(e) /\ m \in (cm[s] \cup seen) THEN @ \cup {key} ELSE @]

\* ---- solution(x, v, extra)
Solution(s, v, e) ==
  LET X == EDen[e]  F == M[s] \cap X IN
  /\ UNCHANGED <<M, evalExh, optExh, live>> /\ H(6, s, v, e)
  /\ IF satc[s] = "F" THEN ret' = <<"solution", s, v, e, "unsat", FALSE>> /\ UNCHANGED <<cm, satc>>
     ELSE IF v \in cm[s] \cap X THEN ret' = <<"solution", s, v, e, "ok", TRUE>> /\ UNCHANGED cm
                                     /\ satc' = [satc EXCEPT ![s] = "T"]
     ELSE /\ ret' = <<"solution", s, v, e, "ok", v \in F>>
          /\ cm' = [cm EXCEPT ![s] = IF v \in F THEN @ \cup {v} ELSE @]
          /\ satc' = [satc EXCEPT ![s] = IF v \in F THEN "T" ELSE @]

\* ---- branch: _copy chain (every cache copied)
Branch(s) ==
  /\ Cardinality(live) < NS
  /\ LET t == CHOOSE i \in 1..NS : i \notin live IN
       /\ live' = live \cup {t}
       /\ M' = [M EXCEPT ![t] = M[s]] /\ cm' = [cm EXCEPT ![t] = cm[s]]
       /\ evalExh' = [evalExh EXCEPT ![t] = evalExh[s]] /\ optExh' = [optExh EXCEPT ![t] = optExh[s]]
       /\ satc' = [satc EXCEPT ![t] = satc[s]]
       /\ ret' = <<"branch", s, t>> /\ H(7, s, t, 0)

Next == \E s \in live :
          \/ \E c \in 1..Len(CDen) : Add(s, c)
          \/ \E e \in 1..Len(EDen) : Satisfiable(s, e)
          \/ \E n \in NVals, e \in 1..Len(EDen) : Eval(s, n, e)
          \/ \E mx \in BOOLEAN, sg \in BOOLEAN, e \in 1..Len(EDen) : Optimum(s, mx, sg, e)
          \/ \E v \in V, e \in 1..Len(EDen) : Solution(s, v, e)
          \/ Branch(s)

Spec == Init /\ [][Next]_vars

\* ---------------- refinement: every answer is one SolverAbs allows ----------------
\* (queries do not change M, so the answer in ret' is judged against the model set of the state it was given in)
AnswerOK(r, MM) ==
  CASE r[1] = "sat" -> r[4] = (MM[r[2]] \cap EDen[r[3]] # {})
    [] r[1] = "eval" -> LET F == MM[r[2]] \cap EDen[r[4]] IN
          IF r[5] = "unsat" THEN F = {}
          ELSE r[6] \subseteq F /\ Cardinality(r[6]) = (IF Cardinality(F) < r[3] THEN Cardinality(F) ELSE r[3])
    [] r[1] = "opt" -> LET F == MM[r[2]] \cap EDen[r[5]] IN
          IF r[6] = "unsat" THEN F = {} ELSE F # {} /\ r[7] = Opt(F, r[3], r[4])
    [] r[1] = "solution" -> LET F == MM[r[2]] \cap EDen[r[4]] IN
          IF r[5] = "unsat" THEN F = {} ELSE r[6] = (r[3] \in F)
    [] OTHER -> TRUE
AnswerStep == [][AnswerOK(ret', M')]_vars

\* ---------------- cache invariants ----------------
CacheSound == \A s \in live : cm[s] \subseteq M[s]
SatcSound == \A s \in live : (satc[s] = "T" => M[s] # {}) /\ (satc[s] = "F" => M[s] = {})
EvalExhSound == \A s \in live : evalExh[s] => cm[s] = M[s]
OptExhSound == \A s \in live : \A k \in optExh[s] : M[s] # {} => Opt(M[s], k[1], k[2]) \in cm[s]

Depth == TLCGet("level") <= MaxDepth
=============================================================================
