\* C06: ExprStore.tla, alphabet 'si', pinned implementation as coded (prediction only: Faithful is NOT claimed)
SPECIFICATION Spec
CONSTANT KeySeq <- Keys_si
CONSTANT AnnSeq <- Anns_si
CONSTANT BVVSeq <- None
CONSTANT MaxAnn = 1
CONSTANT MaxLive = 6
CONSTANT MaxSteps = 5
CONSTANT Coded = TRUE
INVARIANT Inj
INVARIANT RefLive
INVARIANT Closed
INVARIANT Canon
CONSTRAINT Bound
VIEW View
INVARIANT Export
CHECK_DEADLOCK FALSE
