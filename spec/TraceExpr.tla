------------------------------- MODULE TraceExpr -------------------------------
(***************************************************************************)
(* Trace specification for expression-construction events (C01 C04 C05 C07 *)
(* C08 C09 C10).  Events are stateless w.r.t. the reference semantics, so  *)
(* they are checked at constant level: each ndjson line is one event,      *)
(* Failing(e) is the set of property clauses the event violates.           *)
(*                                                                         *)
(* k = "op"    a construction:  w = term the caller wrote, r = serialised  *)
(*             result, out = outcome symbol, vars = <<name,width>> list,   *)
(*             asgs = explicit assignments (empty: enumerate all),         *)
(*             z3 = <<assignment, value>> pairs obtained through claripy's *)
(*             Z3 translation of the result, nodes = per-node metadata.    *)
(* k = "equiv" a utility whose output r must be equivalent to spec term w. *)
(* k = "truth" is_true / is_false answer on term w.                        *)
(* k = "alpha"  ans = TRUE only if w and r are alpha-equivalent.           *)
(* k = "subst" "canon" "cases" "dict" "revcases" "chop" "bytes" "z3abs"    *)
(*     "outcome": utility events, clauses specified in UtilSem.tla.        *)
(***************************************************************************)
EXTENDS Term, UtilSem, Json, IOUtils, TLC


Asgs(e) == IF Len(e.asgs) = 0 THEN AllAsg(e.vars) ELSE {AsgOf(e.asgs[i]) : i \in 1..Len(e.asgs)}

\* a division/remainder whose divisor is zero under every assignment (claripy folds such a divisor to the
\* constant 0 before dividing): the only case in which claripy may answer with ClaripyZeroDivisionError
\* instead of an expression.  (Deliberately lenient about the dividend: the property exempts division
\* by zero, it does not demand the error.)
ConcDivZero(t, A) ==
  LET f == Flat(t)
      nd == Cardinality({i \in 1..Len(f) : f[i][1] \in DivOps})
  IN \E j \in 1..nd : \A a \in A : IsZero(Divisors(f, a)[j])

\* byte-reversal of a bit-vector whose width is not a multiple of 8: the documented condition under which
\* claripy may answer with a claripy error (e.cerr: the exception is a ClaripyError) instead of an expression
RECURSIVE NonByteReverse(_)
NonByteReverse(t) == (t[1] = "Reverse" /\ Width(t[4][1]) % 8 # 0) \/ \E i \in 1..Len(t[4]) : NonByteReverse(t[4][i])

SameMeaning(e) == e.w = e.r \/ LET fw == Flat(e.w) fr == Flat(e.r) IN \A a \in Asgs(e) : EvalF(fw, a) = EvalF(fr, a)

Z3Agrees(e) == \A i \in 1..Len(e.z3) : EvalV(e.w, AsgOf(e.z3[i][1])) = e.z3[i][2]

\* ---- C05: metadata of every node of the result ----
NodeBad(n) ==
  LET t == n.t fv == FreeVars(t) IN
  {c \in {"width","variables","concrete","depth","cvalue"} :
     CASE c = "width" -> n.len # Width(t)
       [] c = "variables" -> ~(fv \subseteq {n.vars[i] : i \in 1..Len(n.vars)})
       [] c = "concrete" -> (~n.sym) /\ fv # {}
       [] c = "depth" -> n.depth # Depth(t)
       [] c = "cvalue" -> Len(n.cv) > 0 /\ fv = {} /\ n.cv # EvalV(t, <<>>) }

MetaBad(e) == UNION {NodeBad(e.nodes[i]) : i \in 1..Len(e.nodes)}

FailingOp(e) ==
  IF e.out = "ZeroDiv" THEN (IF ConcDivZero(e.w, Asgs(e)) THEN {} ELSE {"zerodiv-unjustified"})
  ELSE IF e.out # "ok" THEN (IF e.cerr /\ NonByteReverse(e.w) THEN {} ELSE {"outcome"})
  ELSE IF NonByteReverse(e.w) THEN {}       \* no SMT-LIB meaning to compare with
  ELSE IF Width(e.w) # Width(e.r) THEN {"result-width"} \cup MetaBad(e)   \* the result has another sort than the written operation
  ELSE (IF SameMeaning(e) THEN {} ELSE {"meaning"})
       \cup (IF Z3Agrees(e) THEN {} ELSE {"z3-translation"})
       \cup MetaBad(e)

\* ---- utilities (C08), Z3 round trip (C09), truth checks (C10): the clauses are specified in UtilSem.tla ----
FailingEquiv(e) == UEquiv(e, Asgs(e))
FailingTruth(e) == UTruth(e, Asgs(e))
FailingAlpha(e) == UAlpha(e)

Failing(e) ==
  CASE e.k = "op" -> FailingOp(e)
    [] e.k = "equiv" -> FailingEquiv(e)
    [] e.k = "truth" -> FailingTruth(e)
    [] e.k = "truths" -> UTruths(e, Asgs(e))
    [] e.k = "alpha" -> FailingAlpha(e)
    [] e.k = "subst" -> USubst(e)
    [] e.k = "canon" -> UCanon(e)
    [] e.k = "canonchain" -> UCanonChain(e)
    [] e.k = "fprt" -> UFpRoundTrip(e)
    [] e.k = "cases" -> UCases(e, Asgs(e))
    [] e.k = "dict" -> UDict(e, Asgs(e))
    [] e.k = "revcases" -> URev(e, Asgs(e))
    [] e.k = "chop" -> UChop(e, Asgs(e))
    [] e.k = "bytes" -> UBytes(e, Asgs(e))
    [] e.k = "z3abs" -> UZ3Abs(e, Asgs(e))
    [] e.k = "outcome" -> UOutcome(e)
    \* integer-valued string operations (StrLen, StrIndexOf, StrToInt) folded on constants: the folded constant has the
    \* width the operation declares for its symbolic form (lend), whatever the width of the index operand (C05)
    [] e.k = "strw" -> IF e.out = "ok" /\ e.lenf # e.lend THEN {"result-width"} ELSE {}

\* NB: the trace is bound by LET inside the ASSUME: a top-level definition would be re-evaluated (the whole
\* file re-parsed) at every reference Trace[i], making validation quadratic in the shard size.
ASSUME LET Trace == ndJsonDeserialize(IOEnv.TRACE_FILE) IN
       /\ \A i \in 1..Len(Trace) : \A c \in Failing(Trace[i]) : PrintT(<<"BAD", i, c>>)
       /\ PrintT(<<"DONE", Len(Trace)>>)
=============================================================================
