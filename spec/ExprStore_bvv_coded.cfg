\* C06: ExprStore.tla, alphabet 'bvv', pinned implementation as coded (prediction only: Faithful is NOT claimed)
SPECIFICATION Spec
CONSTANT KeySeq <- Keys_bvv
CONSTANT AnnSeq <- Anns_bvv
CONSTANT BVVSeq <- Reqs_bvv
CONSTANT MaxAnn = 1
CONSTANT MaxLive = 6
CONSTANT MaxSteps = 4
CONSTANT Coded = TRUE
INVARIANT Inj
INVARIANT RefLive
INVARIANT Closed
INVARIANT Canon
CONSTRAINT Bound
VIEW View
INVARIANT Export
CHECK_DEADLOCK FALSE
