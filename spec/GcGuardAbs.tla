----------------------------- MODULE GcGuardAbs -----------------------------
(***************************************************************************)
(* C19 - abstract, observable level of the BackendZ3 GC guard.             *)
(*                                                                         *)
(* This module is constant-level on purpose: the same operators are used   *)
(*  - by GcGuard.tla (line-level PlusCal model): Obs is the observable     *)
(*    projection of the model state, INVARIANT AbsOK, PROPERTY AbsSpec;    *)
(*  - by TraceGc.tla: every recorded line-level run of the REAL            *)
(*    _enter_z3/_exit_z3/condom is a sequence of observable states that    *)
(*    must satisfy AbsInit, AbsStep between neighbours, and Clauses = {}.  *)
(* Only this module produces verdicts (DESIGN 1.1 / 4.2 rule 1).           *)
(*                                                                         *)
(* cfg = [scripts |-> tuple of tuples over {"E","X"}, gc0 |-> BOOLEAN]     *)
(* observable state                                                        *)
(*   s = [gc   : BOOLEAN   the collector's enabled flag                    *)
(*        act  : Int       the in-progress counter (_active_z3_calls)      *)
(*        ufl  : Nat       number of "GC guard underflow" reports          *)
(*        fl   : tuple Nat per thread: calls in flight = enter has         *)
(*                         RETURNED and the matching exit has not yet been *)
(*                         CALLED                                          *)
(*        ins  : tuple BOOLEAN  thread is inside _enter_z3/_exit_z3        *)
(*        pos  : tuple Nat      operations of the script completed         *)
(*        fin  : tuple BOOLEAN  thread has terminated                      *)
(*        base : BOOLEAN   the value the APPLICATION last gave the flag    *)
(*                         (initially gc0; changed by environment steps,   *)
(*                         which happen only while the guard is idle) =    *)
(*                         "what it was before the first call started" of  *)
(*                         the next busy period                            *)
(*        flips: Nat       number of environment steps so far              *)
(*        bgc  : BOOLEAN   the collector was seen enabled from inside the  *)
(*                         body of a condom'd call (sticky)                *)
(*        crash: BOOLEAN   a thread died with an unexpected exception      *)
(*        dead : BOOLEAN   no thread can move and not all have terminated] *)
(***************************************************************************)
EXTENDS Integers, Sequences, FiniteSets, SequencesExt

N(cfg) == Len(cfg.scripts)

\* nesting depth (= in-flight calls of the thread) after k operations; an exit at depth 0 leaves it at 0
DepthStep(d, o) == IF o = "E" THEN d + 1 ELSE IF d > 0 THEN d - 1 ELSE 0
DepthAt(sc, k) == FoldLeft(DepthStep, 0, SubSeq(sc, 1, k))

\* a script is balanced iff no prefix has more exits than enters and the totals agree (-1 is absorbing)
BalStep(a, o) == IF a < 0 THEN a ELSE IF o = "E" THEN a + 1 ELSE a - 1
BalancedScript(sc) == FoldLeft(BalStep, 0, sc) = 0

\* number of exits of a (single-threaded) script that have no matching enter
UnmStep(p, o) == IF o = "E" THEN <<p[1] + 1, p[2]>> ELSE IF p[1] = 0 THEN <<0, p[2] + 1>> ELSE <<p[1] - 1, p[2]>>
Unmatched(sc) == FoldLeft(UnmStep, <<0, 0>>, sc)[2]

Balanced(cfg) == \A t \in 1..N(cfg) : BalancedScript(cfg.scripts[t])
Single(cfg) == N(cfg) = 1
\* the guarantee of the property is given to balanced clients; a single unbalanced thread still gets it
\* (its surplus exits take the underflow branch), an unbalanced thread next to others steals their count
Prot(cfg) == Balanced(cfg) \/ Single(cfg)

Sum(f) == FoldLeft(LAMBDA a, x : a + x, 0, f)
\* a thread that has terminated has no call in progress any more, whatever the guard still believes: an enter whose
\* exit never came (e.g. a wrapper that forgets the exit on some path) must not keep the collector disabled
Fl(s, t) == IF s.fin[t] THEN 0 ELSE s.fl[t]
InFlight(cfg, s) == Sum([t \in 1..N(cfg) |-> Fl(s, t)])
Quiescent(cfg, s) == \A t \in 1..N(cfg) : ~s.ins[t]
AllFin(cfg, s) == \A t \in 1..N(cfg) : s.fin[t]
\* idle = between busy periods: nobody inside the guard, nothing in flight
Idle(cfg, s) == Quiescent(cfg, s) /\ \A t \in 1..N(cfg) : Fl(s, t) = 0

\* in-flight bookkeeping is a function of (script, pos, ins): a call of exit leaves "in flight" at the call
ExpectFl(cfg, s, t) ==
  LET sc == cfg.scripts[t] IN
  IF s.ins[t] /\ s.pos[t] < Len(sc) /\ sc[s.pos[t] + 1] = "X" THEN DepthAt(sc, s.pos[t] + 1) ELSE DepthAt(sc, s.pos[t])

(***************************************************************************)
(* The property, clause by clause                                          *)
(***************************************************************************)
CountNonNeg(cfg, s) == s.act >= 0
GcOffWhileInFlight(cfg, s) == Prot(cfg) => (~s.bgc /\ ((\E t \in 1..N(cfg) : Fl(s, t) > 0) => ~s.gc))
NoUnderflow(cfg, s) == Balanced(cfg) => s.ufl = 0
CountMatches(cfg, s) == (Prot(cfg) /\ Quiescent(cfg, s)) => s.act = InFlight(cfg, s)
\* "once all calls have returned the enabled state is what it was before the first of them started" - for EVERY
\* busy period: whenever the guard is idle the flag is what the application last made it (s.base), so the value
\* sampled at an idle->busy transition is s.base and it must be back at the busy->idle transition
Restored(cfg, s) == (Prot(cfg) /\ Idle(cfg, s)) => s.gc = s.base
UnderflowCount(cfg, s) == (Single(cfg) /\ AllFin(cfg, s) /\ ~s.crash) => s.ufl = Unmatched(cfg.scripts[1])
FlOK(cfg, s) == ~s.crash => \A t \in 1..N(cfg) : s.fl[t] = ExpectFl(cfg, s, t)

ClauseNames == {"neg", "gc-on", "ufl", "count", "restore", "uflcount", "fl", "crash", "dead"}
Clauses(cfg, s) ==
  {c \in ClauseNames :
     CASE c = "neg" -> ~CountNonNeg(cfg, s)
       [] c = "gc-on" -> ~GcOffWhileInFlight(cfg, s)
       [] c = "ufl" -> ~NoUnderflow(cfg, s)
       [] c = "count" -> ~CountMatches(cfg, s)
       [] c = "restore" -> ~Restored(cfg, s)
       [] c = "uflcount" -> ~UnderflowCount(cfg, s)
       [] c = "fl" -> ~FlOK(cfg, s)
       [] c = "crash" -> s.crash
       [] c = "dead" -> s.dead}

AbsInit(cfg, s) ==
  /\ s.gc = cfg.gc0 /\ s.base = cfg.gc0 /\ s.flips = 0 /\ s.act = 0 /\ s.ufl = 0 /\ ~s.crash /\ ~s.bgc
  /\ Len(s.fl) = N(cfg) /\ Len(s.ins) = N(cfg) /\ Len(s.pos) = N(cfg) /\ Len(s.fin) = N(cfg)
  /\ \A t \in 1..N(cfg) : s.fl[t] = 0 /\ ~s.ins[t] /\ s.pos[t] = 0 /\ ~s.fin[t]

\* one observable step (or a stutter): the environment moves, or a single thread moves, completes at most one operation, threads never
\* resurrect, underflow reports are never retracted.  gc and act are unconstrained here - that is what the
\* clauses above are for.
AbsStep(cfg, s, u) ==
  \/ u = s
  \/ \* environment: the application flips the flag while the guard is idle; nothing else changes
     /\ u.flips = s.flips + 1 /\ Idle(cfg, s)
     /\ u.gc = ~s.gc /\ u.base = u.gc
     /\ u.act = s.act /\ u.ufl = s.ufl /\ u.fl = s.fl /\ u.ins = s.ins /\ u.pos = s.pos /\ u.fin = s.fin
     /\ u.crash = s.crash /\ u.bgc = s.bgc
  \/ \E t \in 1..N(cfg) :
       /\ u.flips = s.flips /\ u.base = s.base
       /\ ~s.fin[t]
       /\ \A o \in (1..N(cfg)) \ {t} : u.pos[o] = s.pos[o] /\ u.ins[o] = s.ins[o] /\ u.fin[o] = s.fin[o] /\ u.fl[o] = s.fl[o]
       /\ u.pos[t] \in {s.pos[t], s.pos[t] + 1}
       /\ u.pos[t] <= Len(cfg.scripts[t])
       /\ u.ufl >= s.ufl
       /\ (s.crash => u.crash) /\ (s.bgc => u.bgc)
=============================================================================
