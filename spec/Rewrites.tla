------------------------------- MODULE Rewrites -------------------------------
(***************************************************************************)
(* Catalogue of construction-time rewrite rules of claripy (23 rules)      *)
(* (simplifications.py, ast/bool.py:If) stated as identities over the      *)
(* reference semantics (BVBits).  Each rule R is the SET OF ITS            *)
(* COUNTEREXAMPLES  CE_R(w) = { operands : guard /\ lhs # rhs }, expected  *)
(* empty for every width w <= MaxW (TLC enumerates all operand values).    *)
(*                                                                         *)
(* The rules are written as the code states them AFTER the fix: commits;   *)
(* the three rules as they were on the pinned tree are kept as negative    *)
(* controls (Old_...): TLC must find counterexamples for them, which shows   *)
(* that the catalogue check is not vacuous and reproduces, from the design *)
(* alone, the defects C01 names.                                           *)
(* The catalogue is a diagnosis and generation aid (harness/gen_expr.py    *)
(* rule_instances builds the left-hand shapes); the binding to the code is *)
(* the C01 trace validation, which checks what claripy actually built.     *)
(***************************************************************************)
EXTENDS BVBits, FiniteSets, TLC

CONSTANT MaxW

BV(w) == {f \o <<>> : f \in [1..w -> {0, 1}]}
Nat2B(n, w) == [i \in 1..w |-> (n \div 2^(i-1)) % 2] \o <<>>
B2Nat(b) == FoldLeft(LAMBDA acc, i : 2*acc + b[i], 0, RIdx(Len(b)))
One(w) == Nat2B(1, w)
Zero(w) == Zeros(w)
PopCount(b) == FoldLeft(LAMBDA acc, i : acc + b[i], 0, Idx(Len(b)))
Widths == 1..MaxW
B1(c) == IF c THEN <<1>> ELSE <<0>>

\* ---------------- shifts ----------------
\* (x << a) << b  ->  x << min(a + b, w)           [lshift_simplifier, concrete amounts]
CE_ShlShl(w) == {t \in BV(w) \X BV(w) \X BV(w) :
   LET tot == B2Nat(t[2]) + B2Nat(t[3])  amt == IF tot > w THEN w ELSE tot
   IN BShl(BShl(t[1], t[2]), t[3]) # ShlK(t[1], amt)}
\* pinned tree: (x << a) << b -> x << (a + b) with the bit-vector sum
Old_ShlShl(w) == {t \in BV(w) \X BV(w) \X BV(w) : BShl(BShl(t[1], t[2]), t[3]) # BShl(t[1], BAdd(t[2], t[3]))}
\* x >> 0, x << 0, LShR(x, 0)  ->  x
CE_ShiftZero(w) == {x \in BV(w) : BShl(x, Zero(w)) # x \/ BLShr(x, Zero(w)) # x \/ BAShr(x, Zero(w)) # x}

\* ---------------- equality with masks ----------------
\* ((e & m) ^ m) == 0  ->  (e & m) != 0     only for single-bit m      [eq_simplifier]
CE_MaskXorEq(w) == {t \in BV(w) \X BV(w) : PopCount(t[2]) = 1 /\
   (BXor(BAnd(t[1], t[2]), t[2]) = Zero(w)) # (BAnd(t[1], t[2]) # Zero(w))}
Old_MaskXorEq(w) == {t \in BV(w) \X BV(w) :
   (BXor(BAnd(t[1], t[2]), t[2]) = Zero(w)) # (BAnd(t[1], t[2]) # Zero(w))}
\* (e ^ 1) == 0 -> e == 1
CE_XorOneEq(w) == {e \in BV(w) : (BXor(e, One(w)) = Zero(w)) # (e = One(w))}
\* e - c1 == c2  ->  e == c1 + c2
CE_SubEq(w) == {t \in BV(w) \X BV(w) \X BV(w) : (BSub(t[1], t[2]) = t[3]) # (t[1] = BAdd(t[2], t[3]))}

\* ---------------- If ----------------
\* ~If(c, 1, 0) -> If(!c, 1, 0)      only at width 1                   [invert_simplifier]
CE_InvertIf(w) == IF w # 1 THEN {} ELSE {c \in BOOLEAN :
   BNot(IF c THEN One(w) ELSE Zero(w)) # (IF ~c THEN One(w) ELSE Zero(w))}
Old_InvertIf(w) == {c \in BOOLEAN : BNot(IF c THEN One(w) ELSE Zero(w)) # (IF ~c THEN One(w) ELSE Zero(w))}
\* If(c, If(c, a, b), d) -> If(c, a, d);  If(c, If(!c, a, b), d) -> If(c, b, d);  symmetric in the else branch
CE_NestedIf(w) == {t \in BOOLEAN \X BV(w) \X BV(w) \X BV(w) :
   LET c == t[1] a == t[2] b == t[3] d == t[4] IN
   \/ (IF c THEN (IF c THEN a ELSE b) ELSE d) # (IF c THEN a ELSE d)
   \/ (IF c THEN (IF ~c THEN a ELSE b) ELSE d) # (IF c THEN b ELSE d)
   \/ (IF c THEN d ELSE (IF c THEN a ELSE b)) # (IF c THEN d ELSE b)
   \/ (IF c THEN d ELSE (IF ~c THEN a ELSE b)) # (IF c THEN d ELSE a)}
\* If(c, x, y) == x (x # y constants) -> c ;  == y -> !c
CE_IfEq(w) == {t \in BOOLEAN \X BV(w) \X BV(w) : t[2] # t[3] /\
   (((IF t[1] THEN t[2] ELSE t[3]) = t[2]) # t[1] \/ ((IF t[1] THEN t[2] ELSE t[3]) = t[3]) # (~t[1]))}

\* ---------------- arithmetic flattening ----------------
\* (x - y) - z -> x - (y + z) ; (x + y) - z -> x + (y - z) ; x - x -> 0      [bitwise_sub_simplifier]
CE_SubFlatten(w) == {t \in BV(w) \X BV(w) \X BV(w) :
   \/ BSub(BSub(t[1], t[2]), t[3]) # BSub(t[1], BAdd(t[2], t[3]))
   \/ BSub(BAdd(t[1], t[2]), t[3]) # BAdd(t[1], BSub(t[2], t[3]))
   \/ BSub(t[1], t[1]) # Zero(w)}
\* identities used by the flattening simplifiers
CE_Units(w) == {x \in BV(w) :
   \/ BAdd(x, Zero(w)) # x \/ BMul(x, One(w)) # x \/ BOr(x, Zero(w)) # x \/ BXor(x, Zero(w)) # x
   \/ BAnd(x, Ones(w)) # x \/ BAnd(x, Zero(w)) # Zero(w) \/ BOr(x, Ones(w)) # Ones(w)
   \/ BXor(x, x) # Zero(w) \/ BOr(x, x) # x \/ BAnd(x, x) # x \/ BMul(x, Zero(w)) # Zero(w)}

\* ---------------- comparisons ----------------
\* Not(a OP b) -> a OP' b  with the inverse table of operations.py
CE_NotCmp(w) == {t \in BV(w) \X BV(w) :
   LET a == t[1] b == t[2] IN
   \/ (~(UCmp(a,b) < 0)) # (UCmp(a,b) >= 0) \/ (~(UCmp(a,b) <= 0)) # (UCmp(a,b) > 0)
   \/ (~(SCmp(a,b) < 0)) # (SCmp(a,b) >= 0) \/ (~(SCmp(a,b) <= 0)) # (SCmp(a,b) > 0)}
\* ZeroExt(n, x) compared with a constant whose high n bits are not zero: == is false, != is true
CE_ZeroExtEq(w) == {t \in BV(w) \X BV(2*w) : ~IsZero(SubSeq(t[2], w+1, 2*w)) /\ BZExt(w, t[1]) = t[2]}
\* ZeroExt(n, x) == c with zero high bits  ->  x == c[w-1:0]
CE_ZeroExtEq2(w) == {t \in BV(w) \X BV(2*w) : IsZero(SubSeq(t[2], w+1, 2*w)) /\
   (BZExt(w, t[1]) = t[2]) # (t[1] = SubSeq(t[2], 1, w))}

\* ---------------- extract / concat ----------------
\* Extract over Concat picks the operand; adjacent extracts of one value concatenate to one extract
CE_ExtractConcat(w) == {t \in BV(w) \X BV(w) :
   \/ BExtract(2*w - 1, w, BConcat(t[1], t[2])) # t[1]
   \/ BExtract(w - 1, 0, BConcat(t[1], t[2])) # t[2]
   \/ \E k \in 1..(w-1) : BConcat(BExtract(w-1, k, t[1]), BExtract(k-1, 0, t[1])) # t[1]}
\* Extract(hi, lo, ZeroExt / SignExt) inside the original width is an extract of the operand
CE_ExtractExt(w) == {x \in BV(w) : \E hi \in 0..(w-1) : \E lo \in 0..hi :
   BExtract(hi, lo, BZExt(2, x)) # BExtract(hi, lo, x) \/ BExtract(hi, lo, BSExt(2, x)) # BExtract(hi, lo, x)}
\* rotate idiom: (x << n) | LShR(x, w - n) = RotateLeft(x, n)                 [rotate_shift_mask_simplifier]
CE_RotateIdiom(w) == {t \in BV(w) \X (1..(w-1)) :
   BOr(ShlK(t[1], t[2]), LShrK(t[1], w - t[2])) # RotLK(t[1], t[2])}

\* ---------------- second batch ----------------
\* branch-free signed max / min                                        [bitwise_xor_simplifier_minmax]
\*   q ^ (((((q-r) ^ q) & (q^r)) ^ (q-r)) >> (w-1)) & (q^r))  ->  If(q <=s r, r, q)       (max)
\*   q ^ (((((r-q) ^ r) & (q^r)) ^ (r-q)) >> (w-1)) & (q^r))  ->  If(q <=s r, q, r)       (min)
CE_MinMaxIdiom(w) == {t \in BV(w) \X BV(w) :
   LET q == t[1]  r == t[2]  tt == BXor(q, r)
       s1 == BSub(q, r)  m1 == BAnd(AShrK(BXor(BAnd(BXor(s1, q), tt), s1), w - 1), tt)
       s2 == BSub(r, q)  m2 == BAnd(AShrK(BXor(BAnd(BXor(s2, r), tt), s2), w - 1), tt)
   IN \/ BXor(q, m1) # (IF SCmp(q, r) <= 0 THEN r ELSE q)
      \/ BXor(q, m2) # (IF SCmp(q, r) <= 0 THEN q ELSE r)}
\* a == c1 && a == c2 (c1 # c2) -> False ;  a >= c && a != c -> a > c ;  a == c1 && a != c2 -> a == c1 or False
CE_AndOneVar(w) == {t \in BV(w) \X BV(w) \X BV(w) :
   LET a == t[1]  c1 == t[2]  c2 == t[3] IN
   \/ (c1 # c2 /\ (a = c1 /\ a = c2))
   \/ ((UCmp(a, c1) >= 0 /\ a # c1) # (UCmp(a, c1) > 0))
   \/ ((a = c1 /\ a # c2) # (IF c1 = c2 THEN FALSE ELSE a = c1))}
\* (e ^ 1) != 0 -> e != 1 ;  ((e & m) ^ m) != 0 -> (e & m) == 0 for single-bit m                  [ne_simplifier]
CE_XorNe(w) == {t \in BV(w) \X BV(w) :
   \/ (BXor(t[1], One(w)) # Zero(w)) # (t[1] # One(w))
   \/ (PopCount(t[2]) = 1 /\ (BXor(BAnd(t[1], t[2]), t[2]) # Zero(w)) # (BAnd(t[1], t[2]) = Zero(w)))}
\* LShR / >> of ZeroExt(k, x) (or Concat(0_k, x)) by more than the width of x -> 0         [rshift_/lshr_simplifier]
CE_ShrZext(w) == {t \in BV(w) \X (1..2) \X (0..(w + 3)) :
   t[3] > w /\ (LShrK(BZExt(t[2], t[1]), t[3]) # Zeros(w + t[2]) \/ AShrK(BZExt(t[2], t[1]), t[3]) # Zeros(w + t[2]))}
\* (A & m) == b where the high zb bits of the constant mask m are zero          [and_mask_comparing_against_constant]
\*   high zb bits of b not all zero -> False ;  otherwise compare the low w - zb bits only
HighZeros(m) == LET w == Len(m) IN FoldLeft(LAMBDA acc, i : IF acc[2] /\ m[i] = 0 THEN <<acc[1] + 1, TRUE>> ELSE <<acc[1], FALSE>>,
                                            <<0, TRUE>>, RIdx(w))[1]
CE_MaskCmp(w) == {t \in BV(w) \X BV(w) \X BV(w) :
   LET A == t[1]  m == t[2]  b == t[3]  zb == HighZeros(m)  lhs == (BAnd(A, m) = b) IN
   zb > 0 /\
   (IF ~IsZero(SubSeq(b, w - zb + 1, w)) THEN lhs # FALSE
    ELSE IF zb = w THEN lhs # (Zero(w) = b)
    ELSE lhs # (BAnd(SubSeq(A, 1, w - zb), SubSeq(m, 1, w - zb)) = SubSeq(b, 1, w - zb)))}
\* Extract(hi, 0, ZeroExt(k, A)) == b with hi >= |A|  ->  ZeroExt(hi + 1 - |A|, A) == b   [zeroext_extract_comparing]
CE_ExtZextCmp(w) == {t \in BV(w) \X (1..2) \X (0..(w + 1)) :
   LET A == t[1]  k == t[2]  hi == t[3] IN
   hi >= w /\ hi <= w + k - 1 /\ BExtract(hi, 0, BZExt(k, A)) # BZExt(hi + 1 - w, A)}
\* byte reversal (evaluated once, at width 16):  Reverse(Reverse(x)) = x ;                     [bv_reverse_simplifier]
\*   Reverse(Extract(hi, lo, Reverse(x))) = Extract(n-lo-1, n-hi-1, x) at byte boundaries ; Reverse(Concat(bytes)) = Concat(reversed)
CE_Reverse(w) == IF w # 1 THEN {} ELSE {x \in BV(16) :
   \/ BReverse(BReverse(x)) # x
   \/ \E p \in {<<7, 0>>, <<15, 8>>, <<15, 0>>} :
         BReverse(BExtract(p[1], p[2], BReverse(x))) # BExtract(16 - p[2] - 1, 16 - p[1] - 1, x)
   \/ BReverse(x) # BConcat(BExtract(7, 0, x), BExtract(15, 8, x))}

Rules == <<"MinMaxIdiom", "AndOneVar", "XorNe", "ShrZext", "MaskCmp", "ExtZextCmp", "Reverse", "ShlShl", "ShiftZero", "MaskXorEq", "XorOneEq", "SubEq", "InvertIf", "NestedIf", "IfEq", "SubFlatten",
           "Units", "NotCmp", "ZeroExtEq", "ZeroExtEq2", "ExtractConcat", "ExtractExt", "RotateIdiom">>
CE(r, w) ==
  CASE r = "ShlShl" -> CE_ShlShl(w) [] r = "ShiftZero" -> CE_ShiftZero(w) [] r = "MaskXorEq" -> CE_MaskXorEq(w)
    [] r = "XorOneEq" -> CE_XorOneEq(w) [] r = "SubEq" -> CE_SubEq(w) [] r = "InvertIf" -> CE_InvertIf(w)
    [] r = "NestedIf" -> CE_NestedIf(w) [] r = "IfEq" -> CE_IfEq(w) [] r = "SubFlatten" -> CE_SubFlatten(w)
    [] r = "Units" -> CE_Units(w) [] r = "NotCmp" -> CE_NotCmp(w) [] r = "ZeroExtEq" -> CE_ZeroExtEq(w)
    [] r = "ZeroExtEq2" -> CE_ZeroExtEq2(w) [] r = "ExtractConcat" -> CE_ExtractConcat(w)
    [] r = "ExtractExt" -> CE_ExtractExt(w) [] r = "RotateIdiom" -> CE_RotateIdiom(w)
    [] r = "MinMaxIdiom" -> CE_MinMaxIdiom(w) [] r = "AndOneVar" -> CE_AndOneVar(w) [] r = "XorNe" -> CE_XorNe(w)
    [] r = "ShrZext" -> CE_ShrZext(w) [] r = "MaskCmp" -> CE_MaskCmp(w) [] r = "ExtZextCmp" -> CE_ExtZextCmp(w)
    [] r = "Reverse" -> CE_Reverse(w)

\* every rule holds at every width; every negative control is refuted at some width
ASSUME \A i \in 1..Len(Rules) : \A w \in Widths :
         LET n == Cardinality(CE(Rules[i], w)) IN PrintT(<<"RULE", Rules[i], w, n>>) /\ n = 0
\* negative controls of the second batch: max and min exchanged; the mask dropped although b has high bits set
Ctl_MinMaxSwapped(w) == {t \in BV(w) \X BV(w) :
   LET q == t[1]  r == t[2]  tt == BXor(q, r)  s1 == BSub(q, r)
       m1 == BAnd(AShrK(BXor(BAnd(BXor(s1, q), tt), s1), w - 1), tt)
   IN BXor(q, m1) # (IF SCmp(q, r) <= 0 THEN q ELSE r)}
Ctl_MaskCmpNoHighCheck(w) == {t \in BV(w) \X BV(w) \X BV(w) :
   LET A == t[1]  m == t[2]  b == t[3]  zb == HighZeros(m) IN
   zb > 0 /\ zb < w /\ (BAnd(A, m) = b) # (BAnd(SubSeq(A, 1, w - zb), SubSeq(m, 1, w - zb)) = SubSeq(b, 1, w - zb))}
ASSUME LET a == Cardinality(UNION {Ctl_MinMaxSwapped(w) : w \in Widths})
           b == Cardinality(UNION {Ctl_MaskCmpNoHighCheck(w) : w \in Widths})
       IN PrintT(<<"CONTROL2", a, b>>) /\ a > 0 /\ b > 0
ASSUME LET a == Cardinality(UNION {Old_ShlShl(w) : w \in Widths})
           b == Cardinality(UNION {Old_MaskXorEq(w) : w \in Widths})
           c == Cardinality(UNION {Old_InvertIf(w) : w \in Widths})
       IN PrintT(<<"CONTROL", a, b, c>>) /\ a > 0 /\ b > 0 /\ c > 0
ASSUME PrintT(<<"DONE", Len(Rules)>>)
=============================================================================
