------------------------------- MODULE TraceThreads -------------------------------
(***************************************************************************)
(* Validation of per-thread traces recorded while several threads ran      *)
(* solver histories concurrently (C20).  Each line is the trace of ONE     *)
(* thread; its answers must be those SolverAbs allows for that thread's    *)
(* own history (schedule-independent by construction), the thread must not *)
(* have crashed or hung, and the Z3 context it used must be its own: the   *)
(* same at the start and the end of its run, and different from the        *)
(* context of every other thread of the group and of the main thread.      *)
(***************************************************************************)
EXTENDS SolverAbs, Json, IOUtils

CheckTrace(tr) ==
  LET Asg == AllAsg(tr.vars)
      res == FoldLeft(LAMBDA acc, k :
                 LET ev == tr.ev[k]
                     f == Failing(Asg, acc[1], ev)
                 IN << Effect(Asg, acc[1], ev), acc[2] \cup {<<k, c>> : c \in f} >>,
              << InitState(tr.maxid), {} >>, Idx(Len(tr.ev)))
      ctxBad == \/ tr.ctx # tr.ctx_end
                \/ tr.ctx = tr.main_ctx
                \/ \E i \in 1..Len(tr.all_ctx) : i # tr.thread + 1 /\ tr.all_ctx[i] = tr.ctx
  IN res[2] \cup (IF tr.crash # "" THEN {<<0, "thread-crashed">>} ELSE {})
            \cup (IF tr.crash = "" /\ ctxBad THEN {<<0, "context-shared">>} ELSE {})

ASSUME LET Trace == ndJsonDeserialize(IOEnv.TRACE_FILE) IN
       /\ \A i \in 1..Len(Trace) : \A p \in CheckTrace(Trace[i]) : PrintT(<<"BAD", i, p[2], p[1]>>)
       /\ PrintT(<<"DONE", Len(Trace)>>)
=============================================================================
