------------------------------- MODULE TraceThreads -------------------------------
(***************************************************************************)
(* Validation of per-thread traces recorded while several threads ran      *)
(* solver histories concurrently (C20).  Each line is the trace of ONE     *)
(* thread; its answers must be those SolverAbs allows for that thread's    *)
(* own history (schedule-independent by construction), the thread must not *)
(* have crashed or hung, and the Z3 context it used must be its own: the   *)
(* same at the start and the end of its run, and different from the        *)
(* context of every other thread of the group and of the main thread.      *)
(* Two further clauses bind "as if used alone" directly: every answer that *)
(* is a function of the history (no model choice) equals the answer the    *)
(* same history gave when run ALONE in a fresh process (tr.solo), and the   *)
(* variables the library named for this thread are not the variables it    *)
(* named for another thread.                                               *)
(***************************************************************************)
EXTENDS SolverAbs, Json, IOUtils

CheckTrace(tr) ==
  LET Asg == AllAsg(tr.vars)
      res == FoldLeft(LAMBDA acc, k :
                 LET ev == tr.ev[k]
                     f == Failing(Asg, acc[1], ev)
                 IN << Effect(Asg, acc[1], ev), acc[2] \cup {<<k, c>> : c \in f} >>,
              << InitState(tr.maxid), {} >>, Idx(Len(tr.ev)))
      ctxBad == \/ tr.ctx # tr.ctx_end
                \/ tr.ctx = tr.main_ctx
                \/ \E i \in 1..Len(tr.all_ctx) : i # tr.thread + 1 /\ tr.all_ctx[i] = tr.ctx
      \* calls whose answer is a function of the history alone (no choice among models is involved)
      DetCalls == {"satisfiable", "is_true", "is_false", "min", "max", "solution"}
      soloBad == IF tr.crash # "" THEN {} ELSE
                 IF Len(tr.solo) # Len(tr.ev) THEN {<<0, "differs-from-alone">>} ELSE
                 {<<k, "differs-from-alone">> : k \in {j \in 1..Len(tr.ev) :
                      \/ /\ tr.ev[j].call \in DetCalls
                         /\ (tr.ev[j].ret # tr.solo[j].ret \/ (tr.ev[j].exc # "") # tr.solo[j].failed)
                      }}
      \* annotations are the caller's own: a thread that never stated a constraint over an annotated variable finds no
      \* annotation on its solver's constraints after simplify() (Z3-side simplification re-attaches the annotations
      \* recorded for a variable NAME; that record is per thread).  Not compared with the alone run: claripy's
      \* process-wide simplification cache makes the tags of ANNOTATED users depend on what ran before.
      usesAnn == \E j \in 1..Len(tr.ev) : tr.ev[j].call = "add" /\ tr.ev[j].annotvar
      annBad == IF tr.crash # "" \/ usesAnn THEN {} ELSE
                {<<j, "foreign-annotation">> : j \in {i \in 1..Len(tr.ev) :
                     tr.ev[i].call = "simplify" /\ tr.ev[i].exc = "" /\ Len(tr.ev[i].anntags) > 0}}
      freshBad == \E a \in 1..Len(tr.fresh) : \E b \in 1..Len(tr.other_fresh) : tr.fresh[a] = tr.other_fresh[b]
  IN res[2] \cup soloBad \cup annBad
            \cup (IF tr.crash = "" /\ freshBad THEN {<<0, "fresh-name-collision">>} ELSE {})
            \cup (IF tr.crash # "" THEN {<<0, "thread-crashed">>} ELSE {})
            \cup (IF tr.crash = "" /\ ctxBad THEN {<<0, "context-shared">>} ELSE {})

ASSUME LET Trace == ndJsonDeserialize(IOEnv.TRACE_FILE) IN
       /\ \A i \in 1..Len(Trace) : \A p \in CheckTrace(Trace[i]) : PrintT(<<"BAD", i, p[2], p[1]>>)
       /\ PrintT(<<"DONE", Len(Trace)>>)
=============================================================================
