------------------------------- MODULE UtilSem -------------------------------
(***************************************************************************)
(* Specifications of claripy's expression utilities (C08), of the Z3 round *)
(* trip (C09) and of the cheap truth checks (C10), over the term language  *)
(* of module Term.  Every operator  U<Kind>(e, A)  takes one recorded      *)
(* event e (a record) and the set A of assignments to check it on, and     *)
(* returns the set of violated clause names.  TraceExpr.tla dispatches on  *)
(* e.k.  Nothing here is RECURSIVE over data: loops are folds, recursion   *)
(* is on term structure only.                                              *)
(***************************************************************************)
EXTENDS Term

\* ---------------------------------------------------------------------------------------------
\* Sorts.  TypeOf(t) > 0: bit-vector of that width; 0: Boolean; -1: not a well-sorted term of the
\* language (unknown operator, wrong arity, operand widths that do not fit).  Eval is only applied to
\* well-sorted terms, so an output outside the language is a *clause* ("illtyped"), not a TLC crash.
\* ---------------------------------------------------------------------------------------------
NAryBV == {"__add__","__mul__","__and__","__or__","__xor__","__sub__"}
BinBV  == {"__floordiv__","__mod__","SDiv","SMod","__lshift__","__rshift__","LShR","RotateLeft","RotateRight"}
CmpBV  == {"ULT","ULE","UGT","UGE","SLT","SLE","SGT","SGE"}

TypeApply(op, ints, A) ==
  LET n == Len(A) IN
  IF \E i \in 1..n : A[i] < 0 THEN -1
  ELSE CASE op = "BVS"   -> IF n = 0 /\ Len(ints) = 1 /\ ints[1] > 0 THEN ints[1] ELSE -1
         [] op = "BVV"   -> IF n = 0 /\ Len(ints) > 0 THEN Len(ints) ELSE -1
         [] op = "BoolS" -> IF n = 0 THEN 0 ELSE -1
         [] op = "BoolV" -> IF n = 0 /\ Len(ints) = 1 THEN 0 ELSE -1
         [] op \in NAryBV -> IF n >= 1 /\ A[1] > 0 /\ \A i \in 1..n : A[i] = A[1] THEN A[1] ELSE -1
         [] op \in BinBV  -> IF n = 2 /\ A[1] > 0 /\ A[2] = A[1] THEN A[1] ELSE -1
         [] op \in {"__neg__","__invert__"} -> IF n = 1 /\ A[1] > 0 THEN A[1] ELSE -1
         [] op = "Reverse" -> IF n = 1 /\ A[1] > 0 /\ A[1] % 8 = 0 THEN A[1] ELSE -1
         [] op = "Concat" -> IF n >= 1 /\ \A i \in 1..n : A[i] > 0 THEN FoldLeft(LAMBDA s, x : s + x, 0, A) ELSE -1
         [] op = "Extract" -> IF n = 1 /\ Len(ints) = 2 /\ 0 <= ints[2] /\ ints[2] <= ints[1] /\ ints[1] < A[1]
                              THEN ints[1] - ints[2] + 1 ELSE -1
         [] op \in {"ZeroExt","SignExt"} -> IF n = 1 /\ Len(ints) = 1 /\ ints[1] >= 0 /\ A[1] > 0 THEN ints[1] + A[1] ELSE -1
         [] op = "If" -> IF n = 3 /\ A[1] = 0 /\ A[2] = A[3] THEN A[2] ELSE -1
         [] op \in {"__eq__","__ne__"} -> IF n = 2 /\ A[1] = A[2] THEN 0 ELSE -1
         [] op \in CmpBV -> IF n = 2 /\ A[1] > 0 /\ A[1] = A[2] THEN 0 ELSE -1
         [] op \in {"And","Or"} -> IF n >= 1 /\ \A i \in 1..n : A[i] = 0 THEN 0 ELSE -1
         [] op = "Not" -> IF n = 1 /\ A[1] = 0 THEN 0 ELSE -1
         [] OTHER -> -1

TypeF(flat) ==
  FoldLeft(LAMBDA S, nd : LET k == nd[4] m == Len(S) IN
                          Append(SubSeq(S, 1, m-k), TypeApply(nd[1], nd[3], SubSeq(S, m-k+1, m))),
           <<>>, flat)[1]
TypeOf(t) == TypeF(Flat(t))

\* shared prelude of every clause set: outcome, then sorts
\* (the semantic clause is evaluated only when this set is empty: never pass it as an operator argument)
PreBad(out, tin, tout) ==
  IF out # "ok" THEN {"outcome"}
  ELSE IF tin < 0 THEN {"input-outside-language"}
  ELSE IF tout < 0 THEN {"illtyped"}
  ELSE IF tin # tout THEN {"sort"}
  ELSE {}

EquivOn(w, r, A) == w = r \/ LET fw == Flat(w) fr == Flat(r) IN \A a \in A : EvalF(fw, a) = EvalF(fr, a)

\* ---- k = "equiv": utility output r must denote what the specification term w denotes (C08 excavate/burrow,
\*      C09 simplify) ----
\* A ClaripyZeroDivisionError is the documented exemption when some division of the input has a divisor that is zero
\* under some assignment (the utility met the concrete division while rearranging the expression).
CanDivZero(t, A) ==
  LET f == Flat(t)
      nd == Cardinality({i \in 1..Len(f) : f[i][1] \in DivOps})
  IN \E a \in A : LET D == Divisors(f, a) IN \E j \in 1..nd : IsZero(D[j])

UEquiv(e, A) ==
  LET p == PreBad(e.out, TypeOf(e.w), TypeOf(e.r)) IN
  IF e.out = "ZeroDiv" THEN (IF TypeOf(e.w) >= 0 /\ CanDivZero(e.w, A) THEN {} ELSE {"zerodiv-unjustified"})
  ELSE IF p # {} THEN p ELSE IF EquivOn(e.w, e.r, A) THEN {} ELSE {"meaning"}

\* ---- k = "subst": replace / replace_dict.  e.e = the AST claripy holds, e.os / e.ns = the nodes to replace
\*      and their replacements, e.r = the result, e.same = "the result is the very object passed in".
\*      Simultaneous top-down substitution: the first (outermost) matching node is replaced, the replacement
\*      is not searched again. ----
RECURSIVE SubstMap(_,_,_)
SubstMap(t, os, ns) ==
  IF \E i \in 1..Len(os) : os[i] = t THEN ns[CHOOSE i \in 1..Len(os) : os[i] = t]
  ELSE <<t[1], t[2], t[3], [i \in 1..Len(t[4]) |-> SubstMap(t[4][i], os, ns)] \o <<>> >>

\* claripy evaluates a node eagerly when all its operands are concrete (that is how every constructor behaves, see
\* C01), so "substitutes exactly" is stated up to the evaluation of variable-free sub-terms: Fold replaces every
\* maximal variable-free sub-term by its value.  Nothing else may differ.
Leaves == {"BVS","BoolS","BVV","BoolV"}
RECURSIVE Fold(_)
Fold(t) ==
  IF t[1] \in Leaves THEN t
  ELSE IF FreeVars(t) = {} THEN (IF IsBoolT(t) THEN <<"BoolV", "", EvalV(t, <<>>), <<>> >> ELSE <<"BVV", "", EvalV(t, <<>>), <<>> >>)
  ELSE <<t[1], t[2], t[3], [i \in 1..Len(t[4]) |-> Fold(t[4][i])] \o <<>> >>

\* a variable-free division / remainder node whose divisor evaluates to zero: the documented reason for a
\* ClaripyZeroDivisionError instead of an expression
RECURSIVE HasConcDivZero(_)
HasConcDivZero(t) ==
  \/ t[1] \in DivOps /\ Len(t[4]) = 2 /\ FreeVars(t) = {} /\ IsZero(EvalV(t[4][2], <<>>))
  \/ \E i \in 1..Len(t[4]) : HasConcDivZero(t[4][i])

USubst(e) ==
  LET s == SubstMap(e.e, e.os, e.ns) IN
  IF e.out = "ZeroDiv" THEN (IF TypeOf(s) >= 0 /\ HasConcDivZero(s) THEN {} ELSE {"zerodiv-unjustified"})
  ELSE IF e.out # "ok" THEN {"outcome"}
  ELSE IF TypeOf(s) < 0 THEN {"input-outside-language"}
  ELSE (IF Fold(s) = Fold(e.r) THEN {} ELSE {"subst"}) \cup (IF s = e.e /\ ~e.same THEN {"untouched"} ELSE {})

\* ---- k = "canon": canonicalize.  e.map = <<old name, new name>> pairs taken from the returned var_map ----
MapFn(pairs) == [n \in {pairs[i][1] : i \in 1..Len(pairs)} |-> pairs[CHOOSE i \in 1..Len(pairs) : pairs[i][1] = n][2]]
UCanon(e) ==
  IF e.out # "ok" THEN {"outcome"}
  ELSE LET f == MapFn(e.map) V == FreeVars(e.w) IN
       (IF AlphaEq(e.w, e.r) THEN {} ELSE {"canon-alpha"})
       \cup (IF /\ V \subseteq DOMAIN f
                /\ \A x, y \in V : f[x] = f[y] => x = y
                /\ Rename(e.w, f) = e.r THEN {} ELSE {"canon-map"})

\* ---- k = "canonchain": canonicalize called on several expressions in turn, threading the returned (var_map, counter)
\*      into the next call.  e.ws / e.rs = inputs / results, e.map = <<old name, new name>> pairs of the FINAL var_map.
\*      One consistent renaming must explain every result: injective on all variables of the chain, and
\*      Rename(ws[i], map) = rs[i] for every i (so a later call may neither reuse a name nor disturb earlier entries). ----
UCanonChain(e) ==
  IF e.out # "ok" THEN {"outcome"}
  ELSE LET f == MapFn(e.map)
           n == Len(e.ws)
           V == UNION {FreeVars(e.ws[i]) : i \in 1..n}
       IN IF /\ Len(e.rs) = n
             /\ V \subseteq DOMAIN f
             /\ \A x, y \in V : f[x] = f[y] => x = y
             /\ \A i \in 1..n : Rename(e.ws[i], f) = e.rs[i]
          THEN {} ELSE {"canon-chain"}

\* ---- k = "alpha": identical(a, b) may answer TRUE only for alpha-equivalent arguments ----
UAlpha(e) ==
  IF e.out # "ok" THEN {"outcome"}
  ELSE IF e.ans /\ ~AlphaEq(e.w, e.r) THEN {"identical-overclaims"} ELSE {}

\* ---- k = "cases": ite_cases(cases, default) denotes the value of the FIRST case whose condition holds ----
FirstMatch(cs, d, a) ==
  LET H == {i \in 1..Len(cs) : Holds(cs[i][1], a)} IN
  IF H = {} THEN EvalV(d, a) ELSE EvalV(cs[CHOOSE i \in H : \A j \in H : i <= j][2], a)

UCases(e, A) ==
  LET td == TypeOf(e.dflt)
      okIn == /\ td >= 0
              /\ \A i \in 1..Len(e.cases) : TypeOf(e.cases[i][1]) = 0 /\ TypeOf(e.cases[i][2]) = td
      p == PreBad(e.out, IF okIn THEN td ELSE -1, TypeOf(e.r))
  IN IF p # {} THEN p
     ELSE IF \A a \in A : EvalV(e.r, a) = FirstMatch(e.cases, e.dflt, a) THEN {} ELSE {"cases"}

\* ---- k = "dict": ite_dict(i, d, default) denotes d[value of i] if that key exists, else default.
\*      e.kv = << <<key bits, value term>>, ... >> with distinct keys ----
Lookup(i, kv, d, a) ==
  LET iv == EvalV(i, a) H == {k \in 1..Len(kv) : kv[k][1] = iv} IN
  IF H = {} THEN EvalV(d, a) ELSE EvalV(kv[CHOOSE k \in H : TRUE][2], a)

UDict(e, A) ==
  LET td == TypeOf(e.dflt) ti == TypeOf(e.i)
      okIn == /\ td >= 0 /\ ti > 0
              /\ \A k \in 1..Len(e.kv) : Len(e.kv[k][1]) = ti /\ TypeOf(e.kv[k][2]) = td
              /\ \A k, l \in 1..Len(e.kv) : e.kv[k][1] = e.kv[l][1] => k = l
      p == PreBad(e.out, IF okIn THEN td ELSE -1, TypeOf(e.r))
  IN IF p # {} THEN p
     ELSE IF \A a \in A : EvalV(e.r, a) = Lookup(e.i, e.kv, e.dflt, a) THEN {} ELSE {"dict"}

\* ---- k = "revcases": reverse_ite_cases(w) yields <<condition, value>> pairs: the conditions are pairwise
\*      exclusive, exhaustive, and under each condition the value is the value of w ----
URev(e, A) ==
  LET n == Len(e.pairs) tw == TypeOf(e.w)
      okOut == \A i \in 1..n : TypeOf(e.pairs[i][1]) = 0 /\ TypeOf(e.pairs[i][2]) = tw
      H(a) == {i \in 1..n : Holds(e.pairs[i][1], a)}
      p == PreBad(e.out, tw, IF tw < 0 \/ okOut THEN tw ELSE -1)
  IN IF p # {} THEN p
     ELSE {c \in {"rev-exclusive","rev-cover","rev-value"} :
            CASE c = "rev-exclusive" -> \E a \in A : Cardinality(H(a)) > 1
              [] c = "rev-cover" -> \E a \in A : H(a) = {}
              [] c = "rev-value" -> \E a \in A : LET v == EvalV(e.w, a) IN \E i \in H(a) : EvalV(e.pairs[i][2], a) # v}

\* ---- k = "chop": e.chop(bits) is the list of the s/bits consecutive slices, most significant first ----
UChop(e, A) ==
  LET s == TypeOf(e.w) n == Len(e.rs) IN
  IF e.out # "ok" THEN {"outcome"}
  ELSE IF s <= 0 THEN {"input-outside-language"}
  ELSE IF n * e.bits # s THEN {"chop-count"}
  ELSE IF \E j \in 1..n : TypeOf(e.rs[j]) # e.bits THEN {"chop-width"}
  ELSE IF \A a \in A : LET v == EvalV(e.w, a) IN
                       \A j \in 1..n : EvalV(e.rs[j], a) = BExtract(s - 1 - (j-1)*e.bits, s - j*e.bits, v)
       THEN {} ELSE {"chop"}

\* ---- k = "bytes": e.get_bytes(index, size) (get_byte(index) = get_bytes(index, 1)): bytes index .. index+size-1
\*      in big-endian order of the value zero-extended to a whole number of bytes ----
UBytes(e, A) ==
  LET s == TypeOf(e.w) S == 8 * ((s + 7) \div 8) IN
  IF e.out # "ok" THEN {"outcome"}
  ELSE IF s <= 0 \/ e.size < 1 \/ e.index < 0 \/ 8 * (e.index + e.size) > S THEN {"input-outside-language"}
  ELSE IF TypeOf(e.r) # 8 * e.size THEN {"bytes-width"}
  ELSE IF \A a \in A : EvalV(e.r, a) = BExtract(S - 1 - 8*e.index, S - 8*(e.index + e.size), BZExt(S - s, EvalV(e.w, a)))
       THEN {} ELSE {"bytes"}

\* ---- k = "truth" (C10): a TRUE answer of is_true / is_false must be justified on every assignment ----
UTruth(e, A) ==
  IF e.out # "ok" THEN {"outcome"}
  ELSE IF ~e.ans THEN {}
  ELSE IF TypeOf(e.w) # 0 THEN {"input-outside-language"}
  ELSE LET fw == Flat(e.w) IN
       IF e.f = "is_true" THEN (IF \A a \in A : EvalF(fw, a) = T1 THEN {} ELSE {"is_true-overclaims"})
       ELSE (IF \A a \in A : EvalF(fw, a) # T1 THEN {} ELSE {"is_false-overclaims"})

\* ---- k = "truths" (C10): all truth checks asked about one term at one point of a history.
\*      e.qs = sequence of records [f |-> "is_true" | "is_false", via, out, ans, cached] ----
UTruths(e, A) ==
  LET n == Len(e.qs)
      Claims(f) == \E i \in 1..n : e.qs[i].out = "ok" /\ e.qs[i].ans /\ e.qs[i].f = f
  IN (IF \E i \in 1..n : e.qs[i].out # "ok" THEN {"outcome"} ELSE {})
     \cup (IF ~(Claims("is_true") \/ Claims("is_false")) THEN {}
           ELSE IF TypeOf(e.w) # 0 THEN {"input-outside-language"}
           ELSE LET fw == Flat(e.w) IN
                (IF Claims("is_true") /\ ~(\A a \in A : EvalF(fw, a) = T1) THEN {"is_true-overclaims"} ELSE {})
                \cup (IF Claims("is_false") /\ ~(\A a \in A : EvalF(fw, a) # T1) THEN {"is_false-overclaims"} ELSE {}))

\* ---- k = "z3abs" (C09): meaning of the Z3 declaration kinds that BackendZ3.op_map maps (SMT-LIB semantics).
\*      e.zop = Z3 operator, e.ints = its integer parameters, e.args = operand terms, e.r = what
\*      claripy.backends.z3._abstract returned for the application. ----
BSModZ(a, b) ==      \* bvsmod: the sign of a non-zero result follows the DIVISOR
  LET u == BURem(Abs(a), Abs(b)) IN
  IF IsZero(b) THEN a
  ELSE IF IsZero(u) THEN u
  ELSE IF Msb(a) = 0 /\ Msb(b) = 0 THEN u
  ELSE IF Msb(a) = 1 /\ Msb(b) = 0 THEN BAdd(BNeg(u), b)
  ELSE IF Msb(a) = 0 /\ Msb(b) = 1 THEN BAdd(u, b)
  ELSE BNeg(u)

PairwiseDistinct(V) == \A i, j \in 1..Len(V) : i < j => V[i] # V[j]
XorB(V) == B2b(FoldLeft(LAMBDA s, x : (s + x[1]) % 2, 0, V) = 1)
RepeatB(n, v) == FoldLeft(LAMBDA acc, i : acc \o v, <<>>, Idx(n))

Z3Ops == {"bvadd","bvsub","bvmul","bvudiv","bvurem","bvsdiv","bvsrem","bvsmod","bvneg","bvnot","bvand","bvor","bvxor",
          "bvshl","bvlshr","bvashr","ext_rotate_left","ext_rotate_right","rotate_left","rotate_right","concat","extract",
          "zero_extend","sign_extend","repeat","ite","=","distinct","bvult","bvule","bvugt","bvuge","bvslt","bvsle",
          "bvsgt","bvsge","and","or","not","xor","=>","bvnand","bvnor","bvxnor","bvcomp","bvredor","bvredand"}

Z3Apply(zop, ints, V) ==
  CASE zop = "bvadd" -> NAry(BAdd, V)
    [] zop = "bvsub" -> NAry(BSub, V)
    [] zop = "bvmul" -> NAry(BMul, V)
    [] zop = "bvudiv" -> BUDiv(V[1], V[2])
    [] zop = "bvurem" -> BURem(V[1], V[2])
    [] zop = "bvsdiv" -> BSDiv(V[1], V[2])
    [] zop = "bvsrem" -> BSRem(V[1], V[2])
    [] zop = "bvsmod" -> BSModZ(V[1], V[2])
    [] zop = "bvneg" -> BNeg(V[1])
    [] zop = "bvnot" -> BNot(V[1])
    [] zop = "bvand" -> NAry(BAnd, V)
    [] zop = "bvor" -> NAry(BOr, V)
    [] zop = "bvxor" -> NAry(BXor, V)
    [] zop = "bvnand" -> BNot(BAnd(V[1], V[2]))
    [] zop = "bvnor" -> BNot(BOr(V[1], V[2]))
    [] zop = "bvxnor" -> BNot(BXor(V[1], V[2]))
    [] zop = "bvshl" -> BShl(V[1], V[2])
    [] zop = "bvlshr" -> BLShr(V[1], V[2])
    [] zop = "bvashr" -> BAShr(V[1], V[2])
    [] zop = "ext_rotate_left" -> BRotL(V[1], V[2])
    [] zop = "ext_rotate_right" -> BRotR(V[1], V[2])
    [] zop = "rotate_left" -> RotLK(V[1], ints[1] % Len(V[1]))
    [] zop = "rotate_right" -> RotLK(V[1], (Len(V[1]) - (ints[1] % Len(V[1]))) % Len(V[1]))
    [] zop = "concat" -> NAry(BConcat, V)
    [] zop = "extract" -> BExtract(ints[1], ints[2], V[1])
    [] zop = "zero_extend" -> BZExt(ints[1], V[1])
    [] zop = "sign_extend" -> BSExt(ints[1], V[1])
    [] zop = "repeat" -> RepeatB(ints[1], V[1])
    [] zop = "ite" -> IF V[1] = T1 THEN V[2] ELSE V[3]
    [] zop = "=" -> B2b(V[1] = V[2])
    [] zop = "distinct" -> B2b(PairwiseDistinct(V))
    [] zop = "bvcomp" -> B2b(V[1] = V[2])
    [] zop = "bvredor" -> B2b(~IsZero(V[1]))
    [] zop = "bvredand" -> B2b(\A i \in 1..Len(V[1]) : V[1][i] = 1)
    [] zop = "bvult" -> B2b(UCmp(V[1], V[2]) < 0)
    [] zop = "bvule" -> B2b(UCmp(V[1], V[2]) <= 0)
    [] zop = "bvugt" -> B2b(UCmp(V[1], V[2]) > 0)
    [] zop = "bvuge" -> B2b(UCmp(V[1], V[2]) >= 0)
    [] zop = "bvslt" -> B2b(SCmp(V[1], V[2]) < 0)
    [] zop = "bvsle" -> B2b(SCmp(V[1], V[2]) <= 0)
    [] zop = "bvsgt" -> B2b(SCmp(V[1], V[2]) > 0)
    [] zop = "bvsge" -> B2b(SCmp(V[1], V[2]) >= 0)
    [] zop = "and" -> B2b(\A i \in 1..Len(V) : V[i] = T1)
    [] zop = "or" -> B2b(\E i \in 1..Len(V) : V[i] = T1)
    [] zop = "not" -> B2b(V[1] # T1)
    [] zop = "xor" -> XorB(V)
    [] zop = "=>" -> B2b(V[1] # T1 \/ V[2] = T1)

\* sort of the application (bvcomp/bvredor/bvredand yield 1-bit vectors in SMT-LIB; their value above is <<b>>,
\* which is also how a 1-bit vector is represented)
Z3Type(zop, ints, T) ==
  CASE zop \in {"=","distinct","bvult","bvule","bvugt","bvuge","bvslt","bvsle","bvsgt","bvsge","and","or","not","xor","=>"} -> 0
    [] zop \in {"bvcomp","bvredor","bvredand"} -> 1
    [] zop = "concat" -> FoldLeft(LAMBDA s, x : s + x, 0, T)
    [] zop = "extract" -> ints[1] - ints[2] + 1
    [] zop \in {"zero_extend","sign_extend"} -> ints[1] + T[1]
    [] zop = "repeat" -> ints[1] * T[1]
    [] zop = "ite" -> T[2]
    [] OTHER -> T[1]

UZ3Abs(e, A) ==
  LET n == Len(e.args)
      T == [i \in 1..n |-> TypeOf(e.args[i])] \o <<>>
      okIn == e.zop \in Z3Ops /\ \A i \in 1..n : T[i] >= 0
      p == PreBad(e.out, IF okIn THEN Z3Type(e.zop, e.ints, T) ELSE -1, TypeOf(e.r))
  IN IF e.out = "ZeroDiv"      \* exemption: a division whose divisor is zero under every assignment (claripy folds it)
     THEN (IF okIn /\ e.zop \in {"bvudiv","bvurem","bvsdiv","bvsrem","bvsmod"} /\ \A a \in A : IsZero(EvalV(e.args[2], a))
           THEN {} ELSE {"zerodiv-unjustified"})
     ELSE IF p # {} THEN p
     ELSE LET fa == [i \in 1..n |-> Flat(e.args[i])] \o <<>>
              fr == Flat(e.r)
          IN IF \A a \in A : EvalF(fr, a) = Z3Apply(e.zop, e.ints, [i \in 1..n |-> EvalF(fa[i], a)] \o <<>>)
             THEN {} ELSE {"z3-meaning"}

\* ---- k = "fprt" (C09): Z3 round trip of a floating-point (or Boolean-over-FP) expression.  FP arithmetic is outside
\*      Term.tla, but the round trip must not change WHICH rounding modes / target sorts the expression uses: the bag of
\*      non-empty name slots of the operator nodes (rounding-mode and sort names; variables excluded) is preserved. ----
VarLeaves == {"BVS","BoolS","FPS","StringS"}
NameBag(t) ==
  LET f == Flat(t)
      I == {i \in 1..Len(f) : f[i][1] \notin VarLeaves /\ f[i][2] # ""}
      S == {f[i][2] : i \in I}
  IN [nm \in S |-> Cardinality({i \in I : f[i][2] = nm})]
UFpRoundTrip(e) ==
  IF e.out # "ok" THEN {"outcome"}
  ELSE IF NameBag(e.w) = NameBag(e.r) THEN {} ELSE {"rounding-mode-changed"}

\* ---- k = "outcome": a call that must not fail (C09: simplify on an expression the Z3 backend translates) ----
UOutcome(e) == IF e.out # "ok" THEN {"outcome"} ELSE {}
=============================================================================
