------------------------------- MODULE TraceFP -------------------------------
(***************************************************************************)
(* Trace specification for floating-point events (C02).  One ndjson line   *)
(* is one event: an operator applied to concrete operand bit patterns,     *)
(* together with what claripy produced for it on two routes:               *)
(*   fold / out      eager folding through the public constructors         *)
(*                   (out = "ok" or an outcome symbol when claripy raised; *)
(*                   fold = <<>> then)                                     *)
(*   solved / sout   operands symbolic and pinned by constraints, value    *)
(*                   obtained from a claripy solver (sv = 1 when present)  *)
(* All bit patterns are LSB-first 0/1 sequences.  The reference value is   *)
(* FP!FpSem on the operand patterns; Failing(e) is the set of violated     *)
(* clauses.  Python never decides anything.                                *)
(*                                                                         *)
(* Fields: op rm eb sb (operand format) eb2 sb2 (result format) size       *)
(* (fp->int width) a b (operands, b = <<>> for unary) fold out sv solved   *)
(* sout; depth-2 events carry an inner operation iop irm ia ib whose       *)
(* reference result replaces operand ipos (1 = a, 2 = b; iop = "" none).   *)
(* so / mix (not used by the verdict): which FSort object built the        *)
(* constants; which operand stayed a constant inside the symbolic          *)
(* expression on the solved route.                                         *)
(* zs: self-test only (reference obtained from Z3 directly): 1 = Z3 gave a *)
(* numeral, 0 = Z3 left the term unevaluated (unspecified), 2 = n/a.       *)
(***************************************************************************)
EXTENDS FP, Json, IOUtils

\* inner "fpv": a numeral written as a double (64-bit pattern ia) constructed at the operand format
Inner(e) == IF e.iop = "fpv" THEN FpSem("fpv", "RNE", e.ia, <<>>, 11, 53, e.eb, e.sb, 0)
            ELSE FpSem(e.iop, e.irm, e.ia, e.ib, e.eb, e.sb, e.eb, e.sb, 0)
OpA(e) == IF e.iop # "" /\ e.ipos = 1 THEN Inner(e) ELSE e.a
OpB(e) == IF e.iop # "" /\ e.ipos = 2 THEN Inner(e) ELSE e.b
Ref(e) == FpSem(e.op, e.rm, OpA(e), OpB(e), e.eb, e.sb, e.eb2, e.sb2, e.size)

Failing(e) ==
  LET ref == Ref(e)
      ok(got) == Agree(e.op, ref, got, e.eb2, e.sb2)
  IN {c \in {"outcome", "fold", "solved-outcome", "solved", "z3-specified"} :
        CASE c = "outcome" -> e.out # "ok"
          [] c = "fold" -> e.out = "ok" /\ ~ok(e.fold)
          [] c = "solved-outcome" -> e.sv = 1 /\ e.sout # "ok"
          [] c = "solved" -> e.sv = 1 /\ e.sout = "ok" /\ ~ok(e.solved)
          [] c = "z3-specified" -> e.zs \in {0, 1} /\ ((e.zs = 1) # (ref # Unspec)) }

\* Trace is bound inside the ASSUME: a top-level definition would be re-parsed at every reference Trace[i]
ASSUME LET Trace == ndJsonDeserialize(IOEnv.TRACE_FILE) IN
         /\ \A i \in 1..Len(Trace) : \A c \in Failing(Trace[i]) : PrintT(<<"BAD", i, c>>)
         /\ PrintT(<<"DONE", Len(Trace)>>)
=============================================================================
