------------------------------- MODULE GcGuard -------------------------------
(***************************************************************************)
(* C19 - line-level model of claripy/backends/backend_z3.py                *)
(*        _gc_lock, _active_z3_calls, _gc_was_enabled, _enter_z3, _exit_z3 *)
(*                                                                         *)
(* One PlusCal label per line event that CPython 3.12 reports for the two  *)
(* functions under sys.settrace (label = e<line> / x<line> of the pinned   *)
(* tree; the harness compares line numbers relative to the `def` line, so  *)
(* moving the functions does not count as drift):                          *)
(*   start  the thread exists and has not called anything yet              *)
(*   e70    `call` event of _enter_z3   (nothing has happened yet)         *)
(*   e73    with _gc_lock:              acquire - disabled while held      *)
(*   e74    if _active_z3_calls == 0:                                      *)
(*   e75        _gc_was_enabled = gc.isenabled()                           *)
(*   e76        if _gc_was_enabled:                                        *)
(*   e77            gc.disable()                                           *)
(*   e78    _active_z3_calls += 1                                          *)
(*   e73x   the `with` line is reported a second time when the block is    *)
(*          left: release, return; the call is now IN FLIGHT; the driver   *)
(*          (plain script or the real `condom` wrapper) runs on to the     *)
(*          `call` event of the thread's next operation                    *)
(*   x81    `call` event of _exit_z3: the call stops being in flight       *)
(*   x84    with _gc_lock:              acquire                            *)
(*   x85    if _active_z3_calls == 0:                                      *)
(*   x86        log.error("BackendZ3 GC guard underflow")                  *)
(*   x87        return                    (then x84x: release)             *)
(*   x89    _active_z3_calls -= 1                                          *)
(*   x90    if _active_z3_calls == 0:                                      *)
(*   x91        if _gc_was_enabled:                                        *)
(*   x92            gc.enable()                                            *)
(*   x93        _gc_was_enabled = False                                    *)
(*   x84x   second report of the `with` line: release, return, next op     *)
(*                                                                         *)
(*   ev     ENVIRONMENT: the application itself flips the collector flag   *)
(*          (gc.enable()/gc.disable()) while the guard is idle: no thread  *)
(*          inside _enter_z3/_exit_z3 and no call in flight.  Exactly      *)
(*          MaxFlips such steps per behaviour; `base` is the value the     *)
(*          application last chose = the value the guard must restore at   *)
(*          the end of the next busy period.                               *)
(*                                                                         *)
(* Scripts[t] is the sequence of operations of thread t ("E" = enter,      *)
(* "X" = exit).  A condom'd call whose body nests/raises is the flattened  *)
(* script of the enters/exits it must perform (finally => exit).           *)
(* The verdict-bearing properties live in GcGuardAbs (observable level);   *)
(* this module is explored by TLC, exported with -dump dot,actionlabels,   *)
(* and replayed edge by edge on the real functions (harness/eng_gc.py).    *)
(***************************************************************************)
EXTENDS Integers, Sequences, FiniteSets, TLC, GcGuardAbs

CONSTANTS Scripts,   \* tuple of scripts
          GC0S,      \* set of initial values of the collector flag
          MaxFlips   \* number of environment flips of the collector flag per behaviour (>= 1)

\* named script sets (the .cfg files substitute one of them for Scripts)
S_EX == <<<<"E", "X">>>>
S_EEXX == <<<<"E", "E", "X", "X">>>>
S_EX_EX == <<<<"E", "X">>, <<"E", "X">>>>
S_EEXX_EX == <<<<"E", "E", "X", "X">>, <<"E", "X">>>>
S_EX_EX_EX == <<<<"E", "X">>, <<"E", "X">>, <<"E", "X">>>>
S_EEXX_EX_EX == <<<<"E", "E", "X", "X">>, <<"E", "X">>, <<"E", "X">>>>
S_EXEX == <<<<"E", "X", "E", "X">>>>
S_EEXXEX == <<<<"E", "E", "X", "X", "E", "X">>>>
S_EXEX_EX == <<<<"E", "X", "E", "X">>, <<"E", "X">>>>
S_EXEX_EXEX == <<<<"E", "X", "E", "X">>, <<"E", "X", "E", "X">>>>
S_EEXXEX_EX == <<<<"E", "E", "X", "X", "E", "X">>, <<"E", "X">>>>
S_XEXX == <<<<"X", "E", "X", "X">>>>
S_XEX_X == <<<<"X", "E", "X">>, <<"X">>>>

Threads == 1..Len(Scripts)
EnvId == Len(Scripts) + 1

ASSUME MaxFlips \in Nat \ {0}
ASSUME PrintT(<<"SCRIPTS", Scripts, MaxFlips>>)

\* pc of a thread that has completed k operations: the `call` event of the next one, or termination
NextPc(t, k) == IF k >= Len(Scripts[t]) THEN "Done" ELSE IF Scripts[t][k + 1] = "E" THEN "e70" ELSE "x81"

(* --algorithm GcGuard {
  variables gc0 \in GC0S,                 \* the collector flag before anything started (never changes)
            gc = gc0,                     \* model of gc.isenabled()/enable()/disable()
            lock = 0,                     \* holder of _gc_lock, 0 = free
            active = 0,                   \* _active_z3_calls
            saved = FALSE,                \* _gc_was_enabled
            ufl = 0,                      \* number of log.error("... underflow") calls
            base = gc0,                   \* what the application last set the flag to (while idle)
            flips = 0,                    \* environment steps taken
            inflight = [t \in Threads |-> 0],
            ins = [t \in Threads |-> FALSE],
            pos = [t \in Threads |-> 0];

  macro Return() {
    \* leaving the `with` block: release; the function returns; the driver reaches the next `call` event
    lock := 0;
    ins[self] := FALSE;
    pos[self] := pos[self] + 1;
  }

  process (thr \in Threads)
  {
    start: if (NextPc(self, 0) = "e70") { goto e70 } else if (NextPc(self, 0) = "x81") { goto x81 } else { goto Done };

    e70:  ins[self] := TRUE;
    e73:  await lock = 0; lock := self;
    e74:  if (active = 0) {
    e75:     saved := gc;
    e76:     if (saved) {
    e77:        gc := FALSE;
             };
          };
    e78:  active := active + 1;
    e73x: Return();
          inflight[self] := inflight[self] + 1;
          if (NextPc(self, pos[self]) = "e70") { goto e70 } else if (NextPc(self, pos[self]) = "x81") { goto x81 } else { goto Done };

    x81:  ins[self] := TRUE;
          inflight[self] := IF inflight[self] > 0 THEN inflight[self] - 1 ELSE 0;
    x84:  await lock = 0; lock := self;
    x85:  if (active = 0) {
    x86:     ufl := ufl + 1;
    x87:     goto x84x;
          };
    x89:  active := active - 1;
    x90:  if (active = 0) {
    x91:     if (saved) {
    x92:        gc := TRUE;
             };
    x93:     saved := FALSE;
          };
    x84x: Return();
          if (NextPc(self, pos[self]) = "e70") { goto e70 } else if (NextPc(self, pos[self]) = "x81") { goto x81 } else { goto Done };
  }

  process (env = EnvId)
  {
    ev: await flips < MaxFlips /\ \A t \in Threads : ~ins[t] /\ inflight[t] = 0;
        with (v = ~gc) { gc := v; base := v; };
        flips := flips + 1;
        if (flips < MaxFlips) { goto ev } else { goto Done };
  }
} *)
\* BEGIN TRANSLATION
VARIABLES pc, gc0, gc, lock, active, saved, ufl, base, flips, inflight, ins, 
          pos

vars == << pc, gc0, gc, lock, active, saved, ufl, base, flips, inflight, ins, 
           pos >>

ProcSet == (Threads) \cup {EnvId}

Init == (* Global variables *)
        /\ gc0 \in GC0S
        /\ gc = gc0
        /\ lock = 0
        /\ active = 0
        /\ saved = FALSE
        /\ ufl = 0
        /\ base = gc0
        /\ flips = 0
        /\ inflight = [t \in Threads |-> 0]
        /\ ins = [t \in Threads |-> FALSE]
        /\ pos = [t \in Threads |-> 0]
        /\ pc = [self \in ProcSet |-> CASE self \in Threads -> "start"
                                        [] self = EnvId -> "ev"]

start(self) == /\ pc[self] = "start"
               /\ IF NextPc(self, 0) = "e70"
                     THEN /\ pc' = [pc EXCEPT ![self] = "e70"]
                     ELSE /\ IF NextPc(self, 0) = "x81"
                                THEN /\ pc' = [pc EXCEPT ![self] = "x81"]
                                ELSE /\ pc' = [pc EXCEPT ![self] = "Done"]
               /\ UNCHANGED << gc0, gc, lock, active, saved, ufl, base, flips, 
                               inflight, ins, pos >>

e70(self) == /\ pc[self] = "e70"
             /\ ins' = [ins EXCEPT ![self] = TRUE]
             /\ pc' = [pc EXCEPT ![self] = "e73"]
             /\ UNCHANGED << gc0, gc, lock, active, saved, ufl, base, flips, 
                             inflight, pos >>

e73(self) == /\ pc[self] = "e73"
             /\ lock = 0
             /\ lock' = self
             /\ pc' = [pc EXCEPT ![self] = "e74"]
             /\ UNCHANGED << gc0, gc, active, saved, ufl, base, flips, 
                             inflight, ins, pos >>

e74(self) == /\ pc[self] = "e74"
             /\ IF active = 0
                   THEN /\ pc' = [pc EXCEPT ![self] = "e75"]
                   ELSE /\ pc' = [pc EXCEPT ![self] = "e78"]
             /\ UNCHANGED << gc0, gc, lock, active, saved, ufl, base, flips, 
                             inflight, ins, pos >>

e75(self) == /\ pc[self] = "e75"
             /\ saved' = gc
             /\ pc' = [pc EXCEPT ![self] = "e76"]
             /\ UNCHANGED << gc0, gc, lock, active, ufl, base, flips, inflight, 
                             ins, pos >>

e76(self) == /\ pc[self] = "e76"
             /\ IF saved
                   THEN /\ pc' = [pc EXCEPT ![self] = "e77"]
                   ELSE /\ pc' = [pc EXCEPT ![self] = "e78"]
             /\ UNCHANGED << gc0, gc, lock, active, saved, ufl, base, flips, 
                             inflight, ins, pos >>

e77(self) == /\ pc[self] = "e77"
             /\ gc' = FALSE
             /\ pc' = [pc EXCEPT ![self] = "e78"]
             /\ UNCHANGED << gc0, lock, active, saved, ufl, base, flips, 
                             inflight, ins, pos >>

e78(self) == /\ pc[self] = "e78"
             /\ active' = active + 1
             /\ pc' = [pc EXCEPT ![self] = "e73x"]
             /\ UNCHANGED << gc0, gc, lock, saved, ufl, base, flips, inflight, 
                             ins, pos >>

e73x(self) == /\ pc[self] = "e73x"
              /\ lock' = 0
              /\ ins' = [ins EXCEPT ![self] = FALSE]
              /\ pos' = [pos EXCEPT ![self] = pos[self] + 1]
              /\ inflight' = [inflight EXCEPT ![self] = inflight[self] + 1]
              /\ IF NextPc(self, pos'[self]) = "e70"
                    THEN /\ pc' = [pc EXCEPT ![self] = "e70"]
                    ELSE /\ IF NextPc(self, pos'[self]) = "x81"
                               THEN /\ pc' = [pc EXCEPT ![self] = "x81"]
                               ELSE /\ pc' = [pc EXCEPT ![self] = "Done"]
              /\ UNCHANGED << gc0, gc, active, saved, ufl, base, flips >>

x81(self) == /\ pc[self] = "x81"
             /\ ins' = [ins EXCEPT ![self] = TRUE]
             /\ inflight' = [inflight EXCEPT ![self] = IF inflight[self] > 0 THEN inflight[self] - 1 ELSE 0]
             /\ pc' = [pc EXCEPT ![self] = "x84"]
             /\ UNCHANGED << gc0, gc, lock, active, saved, ufl, base, flips, 
                             pos >>

x84(self) == /\ pc[self] = "x84"
             /\ lock = 0
             /\ lock' = self
             /\ pc' = [pc EXCEPT ![self] = "x85"]
             /\ UNCHANGED << gc0, gc, active, saved, ufl, base, flips, 
                             inflight, ins, pos >>

x85(self) == /\ pc[self] = "x85"
             /\ IF active = 0
                   THEN /\ pc' = [pc EXCEPT ![self] = "x86"]
                   ELSE /\ pc' = [pc EXCEPT ![self] = "x89"]
             /\ UNCHANGED << gc0, gc, lock, active, saved, ufl, base, flips, 
                             inflight, ins, pos >>

x86(self) == /\ pc[self] = "x86"
             /\ ufl' = ufl + 1
             /\ pc' = [pc EXCEPT ![self] = "x87"]
             /\ UNCHANGED << gc0, gc, lock, active, saved, base, flips, 
                             inflight, ins, pos >>

x87(self) == /\ pc[self] = "x87"
             /\ pc' = [pc EXCEPT ![self] = "x84x"]
             /\ UNCHANGED << gc0, gc, lock, active, saved, ufl, base, flips, 
                             inflight, ins, pos >>

x89(self) == /\ pc[self] = "x89"
             /\ active' = active - 1
             /\ pc' = [pc EXCEPT ![self] = "x90"]
             /\ UNCHANGED << gc0, gc, lock, saved, ufl, base, flips, inflight, 
                             ins, pos >>

x90(self) == /\ pc[self] = "x90"
             /\ IF active = 0
                   THEN /\ pc' = [pc EXCEPT ![self] = "x91"]
                   ELSE /\ pc' = [pc EXCEPT ![self] = "x84x"]
             /\ UNCHANGED << gc0, gc, lock, active, saved, ufl, base, flips, 
                             inflight, ins, pos >>

x91(self) == /\ pc[self] = "x91"
             /\ IF saved
                   THEN /\ pc' = [pc EXCEPT ![self] = "x92"]
                   ELSE /\ pc' = [pc EXCEPT ![self] = "x93"]
             /\ UNCHANGED << gc0, gc, lock, active, saved, ufl, base, flips, 
                             inflight, ins, pos >>

x92(self) == /\ pc[self] = "x92"
             /\ gc' = TRUE
             /\ pc' = [pc EXCEPT ![self] = "x93"]
             /\ UNCHANGED << gc0, lock, active, saved, ufl, base, flips, 
                             inflight, ins, pos >>

x93(self) == /\ pc[self] = "x93"
             /\ saved' = FALSE
             /\ pc' = [pc EXCEPT ![self] = "x84x"]
             /\ UNCHANGED << gc0, gc, lock, active, ufl, base, flips, inflight, 
                             ins, pos >>

x84x(self) == /\ pc[self] = "x84x"
              /\ lock' = 0
              /\ ins' = [ins EXCEPT ![self] = FALSE]
              /\ pos' = [pos EXCEPT ![self] = pos[self] + 1]
              /\ IF NextPc(self, pos'[self]) = "e70"
                    THEN /\ pc' = [pc EXCEPT ![self] = "e70"]
                    ELSE /\ IF NextPc(self, pos'[self]) = "x81"
                               THEN /\ pc' = [pc EXCEPT ![self] = "x81"]
                               ELSE /\ pc' = [pc EXCEPT ![self] = "Done"]
              /\ UNCHANGED << gc0, gc, active, saved, ufl, base, flips, 
                              inflight >>

thr(self) == start(self) \/ e70(self) \/ e73(self) \/ e74(self)
                \/ e75(self) \/ e76(self) \/ e77(self) \/ e78(self)
                \/ e73x(self) \/ x81(self) \/ x84(self) \/ x85(self)
                \/ x86(self) \/ x87(self) \/ x89(self) \/ x90(self)
                \/ x91(self) \/ x92(self) \/ x93(self) \/ x84x(self)

ev == /\ pc[EnvId] = "ev"
      /\ flips < MaxFlips /\ \A t \in Threads : ~ins[t] /\ inflight[t] = 0
      /\ LET v == ~gc IN
           /\ gc' = v
           /\ base' = v
      /\ flips' = flips + 1
      /\ IF flips' < MaxFlips
            THEN /\ pc' = [pc EXCEPT ![EnvId] = "ev"]
            ELSE /\ pc' = [pc EXCEPT ![EnvId] = "Done"]
      /\ UNCHANGED << gc0, lock, active, saved, ufl, inflight, ins, pos >>

env == ev

(* Allow infinite stuttering to prevent deadlock on termination. *)
Terminating == /\ \A self \in ProcSet: pc[self] = "Done"
               /\ UNCHANGED vars

Next == env
           \/ (\E self \in Threads: thr(self))
           \/ Terminating

Spec == Init /\ [][Next]_vars

Termination == <>(\A self \in ProcSet: pc[self] = "Done")

\* END TRANSLATION 

(***************************************************************************)
(* Observable projection and the properties TLC checks                     *)
(***************************************************************************)
Cfg == [scripts |-> Scripts, gc0 |-> gc0]
Obs == [gc |-> gc, act |-> active, ufl |-> ufl, fl |-> inflight, ins |-> ins, pos |-> pos,
        fin |-> [t \in Threads |-> pc[t] = "Done"], base |-> base, flips |-> flips,
        bgc |-> FALSE, crash |-> FALSE, dead |-> FALSE]

\* INVARIANTS (abstract level, one per clause of the property + all of them)
InvCountNonNeg == CountNonNeg(Cfg, Obs)
InvGcOffWhileInFlight == GcOffWhileInFlight(Cfg, Obs)
InvNoUnderflow == NoUnderflow(Cfg, Obs)
InvCountMatches == CountMatches(Cfg, Obs)
InvRestored == Restored(Cfg, Obs)
InvUnderflowCount == UnderflowCount(Cfg, Obs)
InvFlOK == FlOK(Cfg, Obs)
AbsOK == Clauses(Cfg, Obs) = {}

\* PROPERTY: the model's observable behaviour is a behaviour of the abstract step relation
AbsSpec == AbsInit(Cfg, Obs) /\ [][AbsStep(Cfg, Obs, Obs')]_Obs

\* refined-level sanity: the lock is held exactly inside the critical sections, the flags have their types
Critical == {"e74", "e75", "e76", "e77", "e78", "e73x", "x85", "x86", "x87", "x89", "x90", "x91", "x92", "x93", "x84x"}
LockOK == /\ lock \in Threads \cup {0}
          /\ \A t \in Threads : (pc[t] \in Critical) <=> (lock = t)
          /\ gc \in BOOLEAN /\ saved \in BOOLEAN /\ active \in Int
\* every balanced configuration terminates (no deadlock is checked by TLC itself)
=============================================================================
