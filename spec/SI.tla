--------------------------------- MODULE SI ---------------------------------
(***************************************************************************)
(* The strided-interval abstract domain of claripy's VSA backend           *)
(* (claripy/backends/backend_vsa) as a specification: concretisation,      *)
(* well-formedness, and the soundness obligations of every transfer        *)
(* function, join/meet/widening and query (properties C21..C25).           *)
(*                                                                         *)
(* A strided interval is the tuple  t = <<w, s, lb, ub, bot, ev>>          *)
(*    w   width in bits (1..12 here: all arithmetic is on TLC integers)    *)
(*    s   stride, lb/ub  lower/upper bound (unsigned patterns)             *)
(*    bot 1 for the empty interval (BOTTOM)                                *)
(*    ev  for intervals that are NOT well-formed: the member enumeration   *)
(*        claripy's own eval() gives (such intervals have no agreed        *)
(*        meaning; they only occur as results of operations and are fed    *)
(*        back as operands "as claripy itself reads them"); <<>> otherwise *)
(* An abstract value V is a sequence of such tuples: one element for a     *)
(* plain StridedInterval, several for a DiscreteStridedIntervalSet.        *)
(* All loops are folds / bounded quantifiers (CONVENTIONS.md).             *)
(***************************************************************************)
EXTENDS Integers, Sequences, FiniteSets, SequencesExt, TLC

P2(n) == 2^n
Mod(x, m) == ((x % m) + m) % m
MinN(a, b) == IF a <= b THEN a ELSE b
SeqTo(n) == [i \in 1..n |-> i] \o <<>>

\* ------------------------------------------------------------------------
\* concretisation
\* ------------------------------------------------------------------------
InRange(t) == /\ t[1] >= 1 /\ t[2] >= 0
              /\ t[3] >= 0 /\ t[3] < P2(t[1])
              /\ t[4] >= 0 /\ t[4] < P2(t[1])
Span(t) == Mod(t[4] - t[3], P2(t[1]))

\* well-formed: the upper bound is reachable from the lower bound in whole strides; stride 0 iff singleton
WF(t) == \/ t[5] = 1
         \/ /\ InRange(t)
            /\ \/ (t[2] = 0 /\ t[3] = t[4])
               \/ (t[2] > 0 /\ t[3] # t[4] /\ Span(t) % t[2] = 0)

\* the arithmetic progression lb, lb+s, ... ub  modulo 2^w
Gamma(t) == IF t[5] = 1 THEN {}
            ELSE LET M == P2(t[1]) IN
                 IF t[2] = 0 THEN {Mod(t[3], M)}
                 ELSE {Mod(t[3] + k * t[2], M) : k \in 0..(Span(t) \div t[2])}

\* member set used for verdicts: Gamma for well-formed intervals, claripy's own enumeration otherwise
Mem(t) == IF t[5] = 1 THEN {}
          ELSE IF WF(t) THEN Gamma(t)
          ELSE {Mod(t[6][i], P2(t[1])) : i \in 1..Len(t[6])}

MemV(V) == UNION {Mem(V[i]) : i \in 1..Len(V)}
WidthV(V) == V[1][1]
SameWidth(V, w) == \A i \in 1..Len(V) : V[i][1] = w

\* membership without building the set (used by the predicates on large progressions)
InGamma(x, t) == /\ t[5] = 0
                 /\ LET M == P2(t[1]) d == Mod(x - t[3], M) IN
                    IF t[2] = 0 THEN x = Mod(t[3], M)
                    ELSE d <= Span(t) /\ d % t[2] = 0

\* normal form produced by the constructor: bounds masked, TOP written 1[0, 2^w-1]
Normal(t) == InRange(t) /\ ~(t[2] = 1 /\ t[3] = Mod(t[4] + 1, P2(t[1])) /\ t[3] # 0)
Bot(w) == <<w, 1, 0, P2(w) - 1, 1, <<>> >>
Top(w) == <<w, 1, 0, P2(w) - 1, 0, <<>> >>

\* every well-formed, normal, non-empty interval of width w (129 at w = 3, 721 at w = 4)
WFSet(w) == LET R == 0..(P2(w) - 1) IN
            {t \in {<<w, s, lb, ub, 0, <<>> >> : s \in R, lb \in R, ub \in R} : WF(t) /\ Normal(t)}
WFSetB(w) == WFSet(w) \cup {Bot(w)}

\* ------------------------------------------------------------------------
\* SMT-LIB QF_BV on naturals < 2^w  (w <= 12, every intermediate < 2^31)
\* ------------------------------------------------------------------------
ToS(w, x) == IF x >= P2(w - 1) THEN x - P2(w) ELSE x
FromS(w, v) == Mod(v, P2(w))
AbsI(v) == IF v < 0 THEN 0 - v ELSE v
BitAt(x, i) == (x \div P2(i)) % 2
BitFold(F(_, _), w, x, y) ==
  FoldLeft(LAMBDA acc, i : acc + P2(i - 1) * F(BitAt(x, i - 1), BitAt(y, i - 1)), 0, SeqTo(w))

NAdd(w, x, y) == (x + y) % P2(w)
NSub(w, x, y) == Mod(x - y, P2(w))
NMul(w, x, y) == (x * y) % P2(w)
NUDiv(w, x, y) == IF y = 0 THEN P2(w) - 1 ELSE x \div y
NURem(w, x, y) == IF y = 0 THEN x ELSE x % y
NSDiv(w, x, y) == IF y = 0 THEN (IF x >= P2(w - 1) THEN 1 ELSE P2(w) - 1)
                  ELSE LET sx == ToS(w, x) sy == ToS(w, y) q == AbsI(sx) \div AbsI(sy)
                       IN FromS(w, IF (sx < 0) # (sy < 0) THEN 0 - q ELSE q)
NSRem(w, x, y) == IF y = 0 THEN x
                  ELSE LET sx == ToS(w, x) sy == ToS(w, y) r == AbsI(sx) % AbsI(sy)
                       IN FromS(w, IF sx < 0 THEN 0 - r ELSE r)
NNeg(w, x) == Mod(0 - x, P2(w))
NNot(w, x) == P2(w) - 1 - x
NAnd(w, x, y) == BitFold(LAMBDA p, q : p * q, w, x, y)
NOr(w, x, y)  == BitFold(LAMBDA p, q : IF p + q > 0 THEN 1 ELSE 0, w, x, y)
NXor(w, x, y) == BitFold(LAMBDA p, q : (p + q) % 2, w, x, y)
\* shift amounts are unsigned values; an amount >= w shifts everything out
NShl(w, x, k)  == IF k >= w THEN 0 ELSE (x * P2(k)) % P2(w)
NLShr(w, x, k) == IF k >= w THEN 0 ELSE x \div P2(k)
NAShr(w, x, k) == LET kk == MinN(k, w) IN
                  IF x >= P2(w - 1) THEN (x \div P2(kk)) + (P2(w) - P2(w - kk)) ELSE x \div P2(kk)
NZExt(w, x) == x
NSExt(w, w2, x) == IF x >= P2(w - 1) THEN x + P2(w2) - P2(w) ELSE x
NExtract(hi, lo, x) == (x \div P2(lo)) % P2(hi - lo + 1)
NConcat(wy, x, y) == x * P2(wy) + y

CmpOps == {"ULT", "ULE", "UGT", "UGE", "SLT", "SLE", "SGT", "SGE", "eq", "ne"}
NCmp(op, w, x, y) ==
  CASE op = "ULT" -> x < y   [] op = "ULE" -> x <= y  [] op = "UGT" -> x > y  [] op = "UGE" -> x >= y
    [] op = "SLT" -> ToS(w, x) < ToS(w, y)   [] op = "SLE" -> ToS(w, x) <= ToS(w, y)
    [] op = "SGT" -> ToS(w, x) > ToS(w, y)   [] op = "SGE" -> ToS(w, x) >= ToS(w, y)
    [] op = "eq" -> x = y    [] op = "ne" -> x # y

BinOps == {"add", "sub", "mul", "udiv", "sdiv", "mod", "smod", "and", "or", "xor", "shl", "lshr", "ashr"}
NDivOps == {"udiv", "sdiv", "mod", "smod"}
NBin(op, w, x, y) ==
  CASE op = "add" -> NAdd(w, x, y)   [] op = "sub" -> NSub(w, x, y)   [] op = "mul" -> NMul(w, x, y)
    [] op = "udiv" -> NUDiv(w, x, y) [] op = "sdiv" -> NSDiv(w, x, y)
    [] op = "mod" -> NURem(w, x, y)  [] op = "smod" -> NSRem(w, x, y)
    [] op = "and" -> NAnd(w, x, y)   [] op = "or" -> NOr(w, x, y)     [] op = "xor" -> NXor(w, x, y)
    [] op = "shl" -> NShl(w, x, y)   [] op = "lshr" -> NLShr(w, x, y) [] op = "ashr" -> NAShr(w, x, y)

\* ------------------------------------------------------------------------
\* BoolResult: rb = <<may be False, may be True>> as 0/1
\* ------------------------------------------------------------------------
Truth(rb) == {b \in BOOLEAN : IF b THEN rb[2] = 1 ELSE rb[1] = 1}

\* ------------------------------------------------------------------------
\* C21: soundness of transfer functions.  MA, MB, MR are member sets.
\* ------------------------------------------------------------------------
AllPairsIn(F(_, _), MA, MB, MR) == \A x \in MA : \A y \in MB : F(x, y) \in MR

\* the CASE is outside the quantifiers: one dispatch per event, not per member pair
SoundBin(op, w, MA, MB, MR) ==
  CASE op = "add" -> AllPairsIn(LAMBDA x, y : NAdd(w, x, y), MA, MB, MR)
    [] op = "sub" -> AllPairsIn(LAMBDA x, y : NSub(w, x, y), MA, MB, MR)
    [] op = "mul" -> AllPairsIn(LAMBDA x, y : NMul(w, x, y), MA, MB, MR)
    [] op = "udiv" -> AllPairsIn(LAMBDA x, y : NUDiv(w, x, y), MA, MB \ {0}, MR)     \* division by zero exempt
    [] op = "sdiv" -> AllPairsIn(LAMBDA x, y : NSDiv(w, x, y), MA, MB \ {0}, MR)
    [] op = "mod" -> AllPairsIn(LAMBDA x, y : NURem(w, x, y), MA, MB \ {0}, MR)
    [] op = "smod" -> AllPairsIn(LAMBDA x, y : NSRem(w, x, y), MA, MB \ {0}, MR)
    [] op = "and" -> AllPairsIn(LAMBDA x, y : NAnd(w, x, y), MA, MB, MR)
    [] op = "or" -> AllPairsIn(LAMBDA x, y : NOr(w, x, y), MA, MB, MR)
    [] op = "xor" -> AllPairsIn(LAMBDA x, y : NXor(w, x, y), MA, MB, MR)
    [] op = "shl" -> AllPairsIn(LAMBDA x, y : NShl(w, x, y), MA, MB, MR)             \* amounts: members of B
    [] op = "lshr" -> AllPairsIn(LAMBDA x, y : NLShr(w, x, y), MA, MB, MR)
    [] op = "ashr" -> AllPairsIn(LAMBDA x, y : NAShr(w, x, y), MA, MB, MR)

SoundCmp(op, w, MA, MB, rb) == LET T == Truth(rb) IN \A x \in MA : \A y \in MB : NCmp(op, w, x, y) \in T

UnOps == {"neg", "not", "zext", "sext", "extract"}
SoundUn(op, w, p, MA, MR) ==
  CASE op = "neg" -> \A x \in MA : NNeg(w, x) \in MR
    [] op = "not" -> \A x \in MA : NNot(w, x) \in MR
    [] op = "zext" -> \A x \in MA : NZExt(w, x) \in MR
    [] op = "sext" -> \A x \in MA : NSExt(w, p[1], x) \in MR
    [] op = "extract" -> \A x \in MA : NExtract(p[1], p[2], x) \in MR
\* width of the result of a unary / parametrised operation
UnWidth(op, w, p) == CASE op \in {"neg", "not"} -> w [] op \in {"zext", "sext"} -> p[1] [] op = "extract" -> p[1] - p[2] + 1

SoundConcat(wb, MA, MB, MR) == \A x \in MA : \A y \in MB : NConcat(wb, x, y) \in MR

\* an exception is not a result: only a division/remainder whose divisor interval contains 0 may raise
ExcAllowed(op, MB) == op \in NDivOps /\ 0 \in MB

\* ------------------------------------------------------------------------
\* C22: joins, meets, widening, queries
\* ------------------------------------------------------------------------
SoundJoin(Ms, MR) == \A i \in 1..Len(Ms) : Ms[i] \subseteq MR
SoundMeet(MA, MB, MR) == (MA \cap MB) \subseteq MR

SetMin(S) == CHOOSE x \in S : \A y \in S : x <= y
SetMax(S) == CHOOSE x \in S : \A y \in S : x >= y
SetSMin(w, S) == CHOOSE x \in S : \A y \in S : ToS(w, x) <= ToS(w, y)
SetSMax(w, S) == CHOOSE x \in S : \A y \in S : ToS(w, x) >= ToS(w, y)
NoDup(L) == \A i, j \in 1..Len(L) : i # j => L[i] # L[j]
\* eval(n): a duplicate-free list of Min(n, |M|) members (values are compared modulo 2^w: the signed
\* variant returns negative Python ints for the same bit patterns)
EvalOK(w, M, n, L) == /\ Len(L) = MinN(n, Cardinality(M))
                      /\ NoDup(L)
                      /\ \A i \in 1..Len(L) : Mod(L[i], P2(w)) \in M
\* DSIS/ValueSet enumerations: up to n members, no non-members, exhaustive when n covers the set
EvalWeakOK(w, M, n, L) == /\ Len(L) <= n
                          /\ \A i \in 1..Len(L) : Mod(L[i], P2(w)) \in M
                          /\ (n >= Cardinality(M) => {Mod(L[i], P2(w)) : i \in 1..Len(L)} = M)
=============================================================================
