------------------------------- MODULE Str -------------------------------
(***************************************************************************)
(* SMT-LIB string semantics (theory of Unicode strings) on sequences of    *)
(* code points, as claripy's operations denote them: integer arguments are *)
(* 64-bit bit-vectors read as naturals (BV2Int), integer results are       *)
(* wrapped to 64 bits (Int2BV), both through BVBits (LSB-first 0/1         *)
(* sequences).  Strings in the scope of the checks are short (< 2^20), so  *)
(* a 64-bit argument is first saturated to Huge = 2^20: every larger value *)
(* behaves identically.  All loops are folds.                              *)
(* Validated against Z3's sequence theory by the self-test of eng_str.     *)
(***************************************************************************)
EXTENDS BVBits

Huge == 1048576                                                       \* 2^20
\* BV2Int of a bit-vector, saturated at Huge
Sat(b) == IF \E i \in 21..Len(b) : b[i] = 1 THEN Huge
          ELSE FoldLeft(LAMBDA acc, i : 2*acc + b[i], 0, RIdx(MinI(20, Len(b))))
\* Int2BV(n, 64) for -1 <= n <= Huge
Nat64(n) == FoldLeft(LAMBDA s, i : <<s[1] \div 2, Append(s[2], s[1] % 2)>>, <<n, <<>>>>, Idx(21))[2] \o Zeros(43)
Int64(n) == IF n < 0 THEN Ones(64) ELSE Nat64(n)

SLen(s) == Len(s)
SConcat(a,b) == a \o b
\* str.substr(s, i, n): the longest substring of s of length at most n starting at i; "" unless 0 <= i < |s| and n > 0
SSub(s,i,n) == IF i >= Len(s) \/ n <= 0 THEN <<>> ELSE SubSeq(s, i+1, MinI(i+n, Len(s)))
OccursAt(s,t,j) == j + Len(t) <= Len(s) /\ SubSeq(s, j+1, j+Len(t)) = t          \* j is 0-based
FirstFrom(s,t,i) == LET C == {j \in i..Len(s) : OccursAt(s,t,j)} IN IF C = {} THEN -1 ELSE CHOOSE j \in C : \A k \in C : j <= k
\* str.indexof(s, t, i): first occurrence of t in s at or after i; -1 if none or i > |s| (i >= 0 here); i if t is empty and i <= |s|
SIndexOf(s,t,i) == IF i > Len(s) THEN -1 ELSE FirstFrom(s,t,i)
SContains(s,t) == FirstFrom(s,t,0) # -1          \* does s contain t
SPrefixOf(p,s) == OccursAt(s,p,0)
SSuffixOf(x,s) == Len(x) <= Len(s) /\ OccursAt(s,x,Len(s)-Len(x))
\* str.replace(s, t, u): first occurrence of t replaced by u; an empty t matches at 0, i.e. u is prepended
SReplace(s,t,u) == LET j == FirstFrom(s,t,0) IN IF j = -1 THEN s ELSE SubSeq(s,1,j) \o u \o SubSeq(s, j+Len(t)+1, Len(s))
IsDigit(c) == c >= 48 /\ c <= 57
Ten64 == <<0,1,0,1>> \o Zeros(60)
\* Int2BV(str.to_int(s), 64): -1 (all ones) when s is empty or has a character outside 0-9, else the value mod 2^64
SToInt64(s) == IF Len(s) = 0 \/ \E k \in 1..Len(s) : ~IsDigit(s[k]) THEN Ones(64)
               ELSE FoldLeft(LAMBDA acc, c : BAdd(BMul(acc, Ten64), [b \in 1..64 |-> IF b <= 4 THEN ((c-48) \div 2^(b-1)) % 2 ELSE 0] \o <<>>), Zeros(64), s)
\* str.from_int(BV2Int(a)) for a 64-bit a: decimal digits, most significant first, no leading zeros
Dig(a) == LET qr == UDivMod(a, Ten64) r == qr[2] IN <<qr[1], 48 + r[1] + 2*r[2] + 4*r[3] + 8*r[4]>>
SFromInt64(a) == IF IsZero(a) THEN <<48>> ELSE
   FoldLeft(LAMBDA st, k : IF IsZero(st[1]) THEN st ELSE LET d == Dig(st[1]) IN <<d[1], <<d[2]>> \o st[2]>>, <<a, <<>>>>, Idx(20))[2]
TBool(p) == IF p THEN <<1>> ELSE <<0>>

\* ---------- one dispatcher.  S = <<s1,s2,s3>> code-point sequences, I = <<i1,i2>> 64-bit patterns. ----------
\* Results are sequences of integers: code points (string), <<0>>/<<1>> (Bool), 64 bits LSB-first (bit-vector).
StrResultOps == {"concat", "substr", "replace", "from_int"}
IntResultOps == {"len", "indexof", "to_int"}
StrSem(op, S, I) ==
  CASE op = "concat" -> S[1] \o S[2] \o S[3]
    [] op = "substr" -> SSub(S[1], Sat(I[1]), Sat(I[2]))                 \* StrSubstr(start = I[1], count = I[2], S[1])
    [] op = "replace" -> SReplace(S[1], S[2], S[3])
    [] op = "len" -> Int64(SLen(S[1]))
    [] op = "contains" -> TBool(SContains(S[1], S[2]))                   \* StrContains(S[1], substring = S[2])
    [] op = "prefixof" -> TBool(SPrefixOf(S[1], S[2]))                   \* StrPrefixOf(prefix = S[1], S[2])
    [] op = "suffixof" -> TBool(SSuffixOf(S[1], S[2]))
    [] op = "indexof" -> Int64(SIndexOf(S[1], S[2], Sat(I[1])))
    [] op = "to_int" -> SToInt64(S[1])
    [] op = "from_int" -> SFromInt64(I[1])
    [] op = "eq" -> TBool(S[1] = S[2])
    [] op = "ne" -> TBool(S[1] # S[2])
    [] op = "lit" -> S[1]                                                 \* a constant denotes exactly its characters
=============================================================================
