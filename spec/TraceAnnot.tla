------------------------------- MODULE TraceAnnot -------------------------------
(***************************************************************************)
(* C07 -- annotations survive rewriting as the annotation contract         *)
(* promises.  Constant-level validation of recorded events.                *)
(*                                                                         *)
(* Terms are 5-tuples <<op, name, ints, args, anns>>; anns is the node's   *)
(* own annotation list, each annotation <<Class, <<k>>>> :                 *)
(*   EA eliminatable | UA non-eliminatable, non-relocatable | RA, RT, RI   *)
(*   relocatable (RA.relocate = self, RT.relocate = RI(k), RI = an image)  *)
(*   SA, SimplificationAvoidanceAnnotation, SI, REG  non-eliminatable,     *)
(*   non-relocatable and instances of SimplificationAvoidanceAnnotation.   *)
(*                                                                         *)
(*  k = "op"     one construction  op(args) -> r  through the public API   *)
(*     unelim  a sub-expression of the arguments that carries a non-       *)
(*             eliminatable, non-relocatable annotation is never removed.  *)
(*             The contract is per annotation VALUE (operations.           *)
(*             _handle_annotations compares deep sets): for every such     *)
(*             annotation a of the arguments, SOME sub-expression that     *)
(*             carried a still occurs in r (its own annotation list may    *)
(*             have grown by relocation, nothing else may differ).         *)
(*             Reported as "unelim" when a is lost altogether (the deep    *)
(*             set of the args is not a subset of that of r) and as        *)
(*             "unelim-moved" when a is still somewhere in r but none of   *)
(*             the sub-expressions that carried it is (a non-relocatable   *)
(*             annotation was moved to another node instead of the rewrite *)
(*             being skipped; tests/test_annotations.py: const2.depth == 3)*)
(*     reloc   every relocatable annotation carried by an argument (deep)  *)
(*             is on top of r, itself or as its image under relocate()     *)
(*     (info, not a verdict)  reloc-image: when no node that carries the   *)
(*             annotation survives in r, the IMAGE must be on top, i.e.    *)
(*             relocate() was really called                                *)
(*  k = "simp"   s = claripy.simplify(e):                                  *)
(*     simp-top    every annotation on top of e is on top of s             *)
(*     simp-reloc  every relocatable annotation of e's direct arguments is *)
(*                 on top of s (itself or its image)                       *)
(*  k = "solver" constraints held before / after Solver.simplify():        *)
(*     avoid   a constraint with a SimplificationAvoidanceAnnotation on    *)
(*             top is still there, structurally unchanged                  *)
(*  Explicit remove_annotation(s)/clear_annotations are outside the clause.*)
(***************************************************************************)
EXTENDS Sequences, FiniteSets, SequencesExt, Json, IOUtils, TLC

UTags == {"UA", "SA", "SimplificationAvoidanceAnnotation", "SI", "REG"}
RTags == {"RA", "RT", "RI"}
SATags == {"SA", "SimplificationAvoidanceAnnotation", "SI", "REG"}
IsU(a) == a[1] \in UTags
IsR(a) == a[1] \in RTags
Img(a) == IF a[1] = "RT" THEN <<"RI", a[2]>> ELSE a          \* RT.relocate(src, dst) = RI(k); the others return self

Top(t) == {t[5][i] : i \in 1..Len(t[5])}
Core(t) == <<t[1], t[2], t[3], t[4]>>                         \* the node without its own annotation list

\* all sub-terms (recursion on structure only, each argument used once)
RECURSIVE Nodes(_)
Nodes(t) == {t} \cup UNION {Nodes(t[4][i]) : i \in 1..Len(t[4])}
NodesOf(ts) == UNION {Nodes(ts[i]) : i \in 1..Len(ts)}
Deep(N) == UNION {Top(n) : n \in N}

\* node n of the arguments is still in the result: same operation and arguments, annotation list only grown
Survives(n, RN) == \E m \in RN : Core(m) = Core(n) /\ Top(n) \subseteq Top(m)
OnTop(a, r) == a \in Top(r) \/ Img(a) \in Top(r)

FailingOp(e) ==
  IF e.out # "ok" THEN {}
  ELSE
  LET AN == NodesOf(e.args)
      RN == Nodes(e.r)
      UA == {a \in Deep(AN) : IsU(a)}
      RA == {a \in Deep(AN) : IsR(a)}
      Carried(a) == \E n \in AN : a \in Top(n) /\ Survives(n, RN)      \* some sub-expression that carried a is still there
      lost == ~(UA \subseteq Deep(RN))
  IN (IF lost THEN {"unelim"} ELSE IF \A a \in UA : Carried(a) THEN {} ELSE {"unelim-moved"})
     \cup (IF \A a \in RA : OnTop(a, e.r) THEN {} ELSE {"reloc"})
     \cup (IF \A a \in RA : Carried(a) \/ Img(a) \in Top(e.r) THEN {} ELSE {"reloc-image"})

FailingSimp(e) ==
  IF e.out # "ok" THEN {}
  ELSE
  LET RA == {a \in Deep(NodesOf(e.e[4])) : IsR(a)} IN
  (IF Top(e.e) \subseteq Top(e.s) \/ \A a \in Top(e.e) : IF IsR(a) THEN OnTop(a, e.s) ELSE a \in Top(e.s) THEN {} ELSE {"simp-top"})
  \cup (IF \A a \in RA : OnTop(a, e.s) THEN {} ELSE {"simp-reloc"})

HasSA(c) == \E a \in Top(c) : a[1] \in SATags
FailingSolver(e) ==
  IF e.out # "ok" THEN {}
  ELSE IF \A i \in 1..Len(e.before) : HasSA(e.before[i]) => \E j \in 1..Len(e.after) : e.after[j] = e.before[i]
       THEN {} ELSE {"avoid"}

Failing(e) ==
  CASE e.k = "op" -> FailingOp(e)
    [] e.k = "simp" -> FailingSimp(e)
    [] e.k = "solver" -> FailingSolver(e)

ASSUME LET Trace == ndJsonDeserialize(IOEnv.TRACE_FILE) IN
       /\ \A i \in 1..Len(Trace) : \A c \in Failing(Trace[i]) : PrintT(<<"BAD", i, c>>)
       /\ PrintT(<<"DONE", Len(Trace)>>)
=============================================================================
