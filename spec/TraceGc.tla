------------------------------- MODULE TraceGc -------------------------------
(***************************************************************************)
(* C19 - validation of recorded line-level runs of the REAL                *)
(* _enter_z3/_exit_z3/condom (harness/sched.py) against the abstract       *)
(* observable specification GcGuardAbs.                                    *)
(*                                                                         *)
(* One ndjson line = one run:                                              *)
(*   cfg   = [scripts, gc0]        what the threads were asked to do       *)
(*   drv   = how (""=plain calls, else the condom'd call structure)        *)
(*   sched = thread ids, one per line-level step                           *)
(*   st    = observable states, st[1] initial, st[k+1] after step k        *)
(* A run is accepted iff st[1] satisfies AbsInit, every neighbouring pair  *)
(* satisfies AbsStep and no state violates a clause of the property.       *)
(* For every violated clause the first offending state index is printed.   *)
(***************************************************************************)
EXTENDS GcGuardAbs, Json, IOUtils, TLC

FailAt(tr) ==
  LET cfg == tr.cfg
      st == tr.st
      n == Len(st)
  IN (IF AbsInit(cfg, st[1]) THEN {} ELSE {<<"init", 1>>})
     \cup {<<"step", k>> : k \in {j \in 2..n : ~AbsStep(cfg, st[j - 1], st[j])}}
     \cup UNION {{<<c, k>> : c \in Clauses(cfg, st[k])} : k \in 1..n}

\* first offending state per clause
Failing(tr) ==
  LET F == FailAt(tr)
  IN {<<c, CHOOSE k \in {p[2] : p \in {q \in F : q[1] = c}} : \A p \in {q \in F : q[1] = c} : k <= p[2]>> :
        c \in {p[1] : p \in F}}

\* The file is bound by LET: TLC caches a LET-bound value, whereas a top-level definition that mentions IOEnv is
\* re-evaluated (the whole file re-parsed) at every reference.
ASSUME LET Trace == ndJsonDeserialize(IOEnv.TRACE_FILE) IN
  /\ \A i \in 1..Len(Trace) : \A c \in Failing(Trace[i]) : PrintT(<<"BAD", i, c[1], c[2]>>)
  /\ PrintT(<<"DONE", Len(Trace)>>)
=============================================================================
