------------------------------- MODULE FP -------------------------------
(***************************************************************************)
(* IEEE-754 / SMT-LIB FloatingPoint reference semantics for an arbitrary   *)
(* format (eb exponent bits, sb significand bits incl. the hidden bit).    *)
(*                                                                         *)
(* Bit patterns are LSB-first sequences of 0/1 of length eb+sb:            *)
(*   fraction (sb-1 bits) \o biased exponent (eb bits) \o <<sign>>.        *)
(* Unpacked values are records                                             *)
(*   [k |-> "nan"] | [k |-> "inf", s] | [k |-> "zero", s] |                *)
(*   [k |-> "fin", s, m, e]   meaning (-1)^s * m * 2^e,                    *)
(* m a natural number as an LSB-first bit sequence of arbitrary length.    *)
(* One rounding function (Round) serves every operator.  The value SMT-LIB *)
(* leaves unspecified (fp->int of NaN, infinities, out-of-range) is the    *)
(* empty sequence <<>> ("Unspec").  Every loop is a FoldLeft (TLC          *)
(* re-evaluates by-name arguments of RECURSIVE operators).                 *)
(* Validated against Z3's FPA theory by the self-test of harness/eng_fp.   *)
(***************************************************************************)
EXTENDS Integers, Sequences, TLC, SequencesExt

\* ---------- naturals as LSB-first bit sequences (arbitrary length, leading zeros allowed) ----------
Zeros(k) == [i \in 1..k |-> 0] \o <<>>
AllOnes(k) == [i \in 1..k |-> 1] \o <<>>
Bit(a,i) == IF i >= 1 /\ i <= Len(a) THEN a[i] ELSE 0
MaxI(x,y) == IF x >= y THEN x ELSE y
MinI(x,y) == IF x <= y THEN x ELSE y
Idx(n) == [i \in 1..n |-> i] \o <<>>
RIdx(n) == [i \in 1..n |-> n+1-i] \o <<>>
BitLen(a) == FoldLeft(LAMBDA acc, i : IF a[i] = 1 THEN i ELSE acc, 0, Idx(Len(a)))
NIsZero(a) == \A i \in 1..Len(a) : a[i] = 0
Trim(a) == SubSeq(a, 1, BitLen(a))
Pad(a,n) == IF Len(a) >= n THEN a ELSE a \o Zeros(n - Len(a))
NAdd(a,b) == LET n == MaxI(Len(a),Len(b))
                 st == FoldLeft(LAMBDA s, i : LET t == Bit(a,i)+Bit(b,i)+s[1] IN <<t \div 2, Append(s[2], t % 2)>>, <<0, <<>>>>, Idx(n))
             IN IF st[1] = 1 THEN Append(st[2], 1) ELSE st[2]
NInc(a) == NAdd(a, <<1>>)
NSub(a,b) == LET n == MaxI(Len(a),Len(b))                \* requires a >= b
                 st == FoldLeft(LAMBDA s, i : LET d == Bit(a,i)-Bit(b,i)-s[1] IN <<IF d < 0 THEN 1 ELSE 0, Append(s[2], IF d < 0 THEN d+2 ELSE d)>>, <<0, <<>>>>, Idx(n))
             IN st[2]
NCmp(a,b) == FoldLeft(LAMBDA c, i : IF c # 0 THEN c ELSE IF Bit(a,i) = Bit(b,i) THEN 0 ELSE IF Bit(a,i) < Bit(b,i) THEN -1 ELSE 1, 0, RIdx(MaxI(Len(a),Len(b))))
NShl(a,k) == IF k <= 0 THEN a ELSE Zeros(k) \o a
NShr(a,k) == IF k <= 0 THEN a ELSE IF k >= Len(a) THEN <<>> ELSE SubSeq(a,k+1,Len(a))
AnyLow(a,k) == \E i \in 1..MinI(k,Len(a)) : a[i] = 1        \* some bit among the k lowest is set
\* fixed-width helpers (no bounds checks): both operands of length n
AddW(a,b) == LET st == FoldLeft(LAMBDA s, i : LET t == a[i]+b[i]+s[1] IN <<t \div 2, Append(s[2], t % 2)>>, <<0, <<>>>>, Idx(Len(a)))
             IN Append(st[2], st[1])                                    \* Len(a)+1 bits
SubW(a,b) == FoldLeft(LAMBDA s, i : LET d == a[i]-b[i]-s[1] IN <<IF d < 0 THEN 1 ELSE 0, Append(s[2], IF d < 0 THEN d+2 ELSE d)>>, <<0, <<>>>>, Idx(Len(a)))
                                                                        \* <<borrow, a-b mod 2^n>>
\* schoolbook product in a fixed accumulator of Len(a)+Len(b) bits: before step i the accumulator is < a*2^(i-1), so
\* adding a at offset i-1 only touches the window of Len(a)+1 bits starting there
NMul(a,b) == LET la == Len(a) lb == Len(b) IN
   IF la = 0 \/ lb = 0 THEN <<>> ELSE
   FoldLeft(LAMBDA acc, i : IF b[i] = 1 THEN SubSeq(acc,1,i-1) \o AddW(SubSeq(acc,i,i+la-1), a) \o SubSeq(acc,i+la+1,la+lb) ELSE acc,
            Zeros(la+lb), Idx(lb))
\* restoring division of Trim'ed a by Trim'ed non-zero b: <<quotient, remainder>> (quotient with leading zeros).
\* The remainder register has Len(b)+1 bits; it starts with the top Len(b)-1 bits of a (which are < b), one numerator
\* bit is shifted in per step and b is subtracted when that does not borrow.
DivStep(a, bp, st, i) ==
   LET r2 == <<a[i]>> \o SubSeq(st[2], 1, Len(bp)-1)
       d == SubW(r2, bp)
   IN IF d[1] = 0 THEN <<<<1>> \o st[1], d[2]>> ELSE <<<<0>> \o st[1], r2>>
NDivMod(a,b) == LET la == Len(a) nb == Len(b) IN
   IF la < nb THEN <<<<>>, a>> ELSE
   LET bp == b \o <<0>>
       r0 == SubSeq(a, la-nb+2, la) \o <<0, 0>>
   IN FoldLeft(LAMBDA st, i : DivStep(a,bp,st,i), <<<<>>, r0>>, RIdx(la-nb+1))
ToInt(a) == FoldLeft(LAMBDA acc, i : 2*acc + a[i], 0, RIdx(Len(a)))     \* only for short sequences (exponent fields)
I2N(n) == LET st == FoldLeft(LAMBDA s, i : <<s[1] \div 2, Append(s[2], s[1] % 2)>>, <<n, <<>>>>, Idx(16)) IN Trim(st[2])   \* n < 2^16
Compl(b) == [i \in 1..Len(b) |-> 1 - b[i]] \o <<>>
TwosMag(b) == SubSeq(NAdd(Compl(b), <<1>>), 1, Len(b))                  \* magnitude of a negative two's-complement pattern

\* ---------- IEEE-754 (eb, sb): unpack / pack ----------
Bias(eb) == 2^(eb-1) - 1
Emin(eb) == 1 - Bias(eb)
Unspec == <<>>
Unpack(bits, eb, sb) ==
  LET sign == bits[eb+sb]
      ef == ToInt(SubSeq(bits, sb, sb+eb-1))
      frac == SubSeq(bits, 1, sb-1)
  IN IF ef = 2^eb - 1 THEN (IF NIsZero(frac) THEN [k |-> "inf", s |-> sign] ELSE [k |-> "nan", s |-> 0])
     ELSE IF ef = 0 THEN (IF NIsZero(frac) THEN [k |-> "zero", s |-> sign]
                          ELSE [k |-> "fin", s |-> sign, m |-> frac, e |-> Emin(eb) - (sb-1)])
     ELSE [k |-> "fin", s |-> sign, m |-> frac \o <<1>>, e |-> ef - Bias(eb) - (sb-1)]
IsNaNBits(bits, eb, sb) == Len(bits) = eb + sb /\ (\A i \in sb..(sb+eb-1) : bits[i] = 1) /\ (\E i \in 1..(sb-1) : bits[i] = 1)
PackRaw(sign, ef, frac, eb, sb) == Pad(frac, sb-1) \o Pad(I2N(ef), eb) \o <<sign>>
PInf(s,eb,sb) == PackRaw(s, 2^eb-1, <<>>, eb, sb)
PZero(s,eb,sb) == PackRaw(s, 0, <<>>, eb, sb)
PNaN(eb,sb) == PackRaw(0, 2^eb-1, Zeros(sb-2) \o <<1>>, eb, sb)
PMaxFin(s,eb,sb) == PackRaw(s, 2^eb-2, AllOnes(sb-1), eb, sb)
TBool(p) == IF p THEN <<1>> ELSE <<0>>

\* ---------- rounding ----------
RoundUp(rm, sign, lsb, guard, sticky) ==
  CASE rm = "RNE" -> guard = 1 /\ (sticky \/ lsb = 1)
    [] rm = "RNA" -> guard = 1
    [] rm = "RTZ" -> FALSE
    [] rm = "RTP" -> sign = 0 /\ (guard = 1 \/ sticky)
    [] rm = "RTN" -> sign = 1 /\ (guard = 1 \/ sticky)
\* round (-1)^sign * (m0 + tiny) * 2^e to format (eb,sb), where tiny is in (0,1) iff st, else 0
Round(rm, sign, m0, e, st, eb, sb) ==
  LET m == Trim(m0) n == Len(m) IN
  IF n = 0 /\ ~st THEN PZero(sign, eb, sb) ELSE
  LET E == e + n - 1                                   \* exponent of the leading bit
      q == MaxI(E - (sb-1), Emin(eb) - (sb-1))          \* exponent of the last kept bit (quantum)
      sh == q - e
      kept == IF sh <= 0 THEN NShl(m, -sh) ELSE NShr(m, sh)
      guard == IF sh <= 0 THEN 0 ELSE Bit(m, sh)
      sticky == (IF sh <= 1 THEN FALSE ELSE AnyLow(m, sh-1)) \/ st
      up == RoundUp(rm, sign, Bit(kept,1), guard, sticky)
      k1 == IF up THEN Trim(NInc(kept)) ELSE Trim(kept)
      ovf == Len(k1) > sb
      k2 == IF ovf THEN NShr(k1,1) ELSE k1
      q2 == IF ovf THEN q + 1 ELSE q
  IN IF Len(k2) < sb THEN PackRaw(sign, 0, k2, eb, sb)         \* subnormal or zero
     ELSE LET ef == q2 + (sb-1) + Bias(eb) IN
          IF ef >= 2^eb - 1 THEN
             (IF rm = "RNE" \/ rm = "RNA" \/ (rm = "RTP" /\ sign = 0) \/ (rm = "RTN" /\ sign = 1) THEN PInf(sign,eb,sb) ELSE PMaxFin(sign,eb,sb))
          ELSE PackRaw(sign, ef, SubSeq(k2,1,sb-1), eb, sb)

\* ---------- arithmetic on unpacked values; results are bit patterns ----------
NegV(v) == IF v.k = "nan" THEN v ELSE [v EXCEPT !.s = 1 - v.s]
AddV(rm, a, b, eb, sb) ==
  IF a.k = "nan" \/ b.k = "nan" THEN PNaN(eb,sb)
  ELSE IF a.k = "inf" THEN (IF b.k = "inf" /\ a.s # b.s THEN PNaN(eb,sb) ELSE PInf(a.s,eb,sb))
  ELSE IF b.k = "inf" THEN PInf(b.s,eb,sb)
  ELSE IF a.k = "zero" /\ b.k = "zero" THEN PZero(IF a.s = b.s THEN a.s ELSE IF rm = "RTN" THEN 1 ELSE 0, eb, sb)
  ELSE IF a.k = "zero" THEN Round(rm, b.s, b.m, b.e, FALSE, eb, sb)
  ELSE IF b.k = "zero" THEN Round(rm, a.s, a.m, a.e, FALSE, eb, sb)
  ELSE LET hi == IF a.e >= b.e THEN a ELSE b
           lo == IF a.e >= b.e THEN b ELSE a
           d == hi.e - lo.e
       IN IF d > sb + 3 /\ BitLen(hi.m) + d > BitLen(lo.m) + 2 THEN
             \* lo lies below a quarter ulp of hi: the exact result is hi +/- tiny
             LET m4 == NShl(hi.m, 2) IN
             IF hi.s = lo.s THEN Round(rm, hi.s, m4, hi.e - 2, TRUE, eb, sb)
             ELSE Round(rm, hi.s, Trim(NSub(m4, <<1>>)), hi.e - 2, TRUE, eb, sb)
          ELSE LET mh == NShl(hi.m, d) IN
             IF hi.s = lo.s THEN Round(rm, hi.s, NAdd(mh, lo.m), lo.e, FALSE, eb, sb)
             ELSE LET c == NCmp(mh, lo.m) IN
                  IF c = 0 THEN PZero(IF rm = "RTN" THEN 1 ELSE 0, eb, sb)
                  ELSE IF c > 0 THEN Round(rm, hi.s, NSub(mh, lo.m), lo.e, FALSE, eb, sb)
                  ELSE Round(rm, lo.s, NSub(lo.m, mh), lo.e, FALSE, eb, sb)
SubV(rm, a, b, eb, sb) == AddV(rm, a, NegV(b), eb, sb)
MulV(rm, a, b, eb, sb) ==
  IF a.k = "nan" \/ b.k = "nan" THEN PNaN(eb,sb)
  ELSE LET s == (a.s + b.s) % 2 IN
  IF (a.k = "inf" /\ b.k = "zero") \/ (a.k = "zero" /\ b.k = "inf") THEN PNaN(eb,sb)
  ELSE IF a.k = "inf" \/ b.k = "inf" THEN PInf(s,eb,sb)
  ELSE IF a.k = "zero" \/ b.k = "zero" THEN PZero(s,eb,sb)
  ELSE Round(rm, s, NMul(a.m, b.m), a.e + b.e, FALSE, eb, sb)
DivV(rm, a, b, eb, sb) ==
  IF a.k = "nan" \/ b.k = "nan" THEN PNaN(eb,sb)
  ELSE LET s == (a.s + b.s) % 2 IN
  IF (a.k = "inf" /\ b.k = "inf") \/ (a.k = "zero" /\ b.k = "zero") THEN PNaN(eb,sb)
  ELSE IF a.k = "inf" \/ b.k = "zero" THEN PInf(s,eb,sb)
  ELSE IF a.k = "zero" \/ b.k = "inf" THEN PZero(s,eb,sb)
  ELSE LET am == Trim(a.m) bm == Trim(b.m)
           k == MaxI(0, sb + 3 + Len(bm) - Len(am))          \* quotient gets at least sb+2 significant bits
           qr == NDivMod(NShl(am, k), bm)
       IN Round(rm, s, qr[1], a.e - b.e - k, ~NIsZero(qr[2]), eb, sb)
\* integer square root with remainder flag, digit-by-digit (two bits per step), on an even-length sequence
ISqrt(n) == LET h == Len(n) \div 2
                st == FoldLeft(LAMBDA s, k :
                        LET rem2 == Trim(<<n[2*k-1], n[2*k]>> \o s[2])
                            trial == Trim(<<1, 0>> \o s[1])
                            ge == NCmp(rem2, trial) >= 0
                        IN <<(IF ge THEN <<1>> ELSE <<0>>) \o s[1], IF ge THEN Trim(NSub(rem2, trial)) ELSE rem2>>,
                        <<<<>>, <<>>>>, RIdx(h))
            IN <<st[1], ~NIsZero(st[2])>>
SqrtV(rm, a, eb, sb) ==
  IF a.k = "nan" THEN PNaN(eb,sb) ELSE IF a.k = "zero" THEN PZero(a.s,eb,sb)
  ELSE IF a.s = 1 THEN PNaN(eb,sb) ELSE IF a.k = "inf" THEN PInf(0,eb,sb)
  ELSE LET m0 == Trim(a.m)
           odd == (a.e % 2) # 0
           m1 == IF odd THEN NShl(m0,1) ELSE m0
           e1 == IF odd THEN a.e - 1 ELSE a.e
           need == 2*(sb+2) - Len(m1)
           k == IF need <= 0 THEN 0 ELSE (need + 1) \div 2
           m2 == NShl(m1, 2*k)
           n == IF Len(m2) % 2 = 0 THEN m2 ELSE m2 \o <<0>>
           rs == ISqrt(n)
       IN Round(rm, 0, rs[1], (e1 - 2*k) \div 2, rs[2], eb, sb)
AbsB(bits, eb, sb) == IF IsNaNBits(bits, eb, sb) THEN PNaN(eb,sb) ELSE SubSeq(bits, 1, eb+sb-1) \o <<0>>
NegB(bits, eb, sb) == IF IsNaNBits(bits, eb, sb) THEN PNaN(eb,sb) ELSE SubSeq(bits, 1, eb+sb-1) \o <<1 - bits[eb+sb]>>

\* ---------- conversions ----------
FpToFp(rm, a, eb2, sb2) ==
  IF a.k = "nan" THEN PNaN(eb2,sb2) ELSE IF a.k = "inf" THEN PInf(a.s,eb2,sb2) ELSE IF a.k = "zero" THEN PZero(a.s,eb2,sb2)
  ELSE Round(rm, a.s, a.m, a.e, FALSE, eb2, sb2)
SIntToFp(rm, b, eb, sb) == IF NIsZero(b) THEN PZero(0,eb,sb)
   ELSE IF b[Len(b)] = 1 THEN Round(rm, 1, TwosMag(b), 0, FALSE, eb, sb) ELSE Round(rm, 0, b, 0, FALSE, eb, sb)
UIntToFp(rm, b, eb, sb) == IF NIsZero(b) THEN PZero(0,eb,sb) ELSE Round(rm, 0, b, 0, FALSE, eb, sb)
\* magnitude of a finite value rounded to an integer (Trim'ed natural)
RoundInt(rm, a) ==
  IF a.e >= 0 THEN NShl(Trim(a.m), a.e)
  ELSE LET sh == -a.e
           kept == NShr(a.m, sh)
           guard == Bit(a.m, sh)
           sticky == IF sh <= 1 THEN FALSE ELSE AnyLow(a.m, sh-1)
           up == RoundUp(rm, a.s, Bit(kept,1), guard, sticky)
       IN Trim(IF up THEN NInc(kept) ELSE kept)
\* fp -> signed two's-complement bit-vector of `size` bits; Unspec when SMT-LIB leaves the result unspecified
ToSBV(rm, a, size) ==
  IF a.k \in {"nan","inf"} THEN Unspec
  ELSE IF a.k = "zero" THEN Zeros(size)
  ELSE IF a.e >= 0 /\ BitLen(a.m) + a.e > size THEN Unspec          \* avoid building huge magnitudes
  ELSE LET magT == RoundInt(rm, a) IN
       IF Len(magT) > size THEN Unspec ELSE
       LET mag == Pad(magT, size) IN
       IF a.s = 0 \/ Len(magT) = 0 THEN (IF mag[size] = 1 THEN Unspec ELSE mag)
       ELSE (IF mag[size] = 1 /\ AnyLow(mag, size-1) THEN Unspec ELSE TwosMag(mag))
ToUBV(rm, a, size) ==
  IF a.k \in {"nan","inf"} THEN Unspec
  ELSE IF a.k = "zero" THEN Zeros(size)
  ELSE IF a.e >= 0 /\ BitLen(a.m) + a.e > size THEN Unspec
  ELSE LET magT == RoundInt(rm, a) IN
       IF Len(magT) = 0 THEN Zeros(size) ELSE IF a.s = 1 \/ Len(magT) > size THEN Unspec ELSE Pad(magT, size)

\* ---------- comparisons (SMT-LIB fp.eq / fp.lt / ...: every comparison with NaN is false, -0 = +0) ----------
MagCmp(a, b) ==   \* compare |a| and |b| for finite non-zero a, b
  LET la == a.e + BitLen(a.m) lb == b.e + BitLen(b.m) IN
  IF la > lb THEN 1 ELSE IF la < lb THEN -1
  ELSE LET lo == MinI(a.e, b.e) IN NCmp(NShl(a.m, a.e - lo), NShl(b.m, b.e - lo))
FCmp(a,b) ==   \* -1,0,1 for ordered (non-NaN) values
  IF (a.k = "zero" /\ b.k = "zero") THEN 0
  ELSE IF a.k = "zero" THEN (IF b.s = 1 THEN 1 ELSE -1)
  ELSE IF b.k = "zero" THEN (IF a.s = 1 THEN -1 ELSE 1)
  ELSE IF a.s # b.s THEN (IF a.s = 1 THEN -1 ELSE 1)
  ELSE LET mag == IF a.k = "inf" /\ b.k = "inf" THEN 0 ELSE IF a.k = "inf" THEN 1 ELSE IF b.k = "inf" THEN -1
                  ELSE MagCmp(a, b)
       IN IF a.s = 1 THEN -mag ELSE mag
Ordered(a,b) == a.k # "nan" /\ b.k # "nan"
FEq(a,b) == Ordered(a,b) /\ FCmp(a,b) = 0
FLt(a,b) == Ordered(a,b) /\ FCmp(a,b) < 0
FLeq(a,b) == Ordered(a,b) /\ FCmp(a,b) <= 0
FGt(a,b) == Ordered(a,b) /\ FCmp(a,b) > 0
FGeq(a,b) == Ordered(a,b) /\ FCmp(a,b) >= 0

\* ---------- one dispatcher: operator name -> result bit pattern (Unspec = <<>>) ----------
\* x, y are bit patterns: of format (eb,sb) for fp operands, integers of any width for the int->fp conversions.
\* (eb2,sb2) is the result format of fp-valued operators, size the width of fp->int conversions.
ArithOps == {"add","sub","mul","div"}
CmpOps == {"eq","neq","lt","leq","gt","geq"}
FpResultOps == ArithOps \cup {"sqrt","abs","neg","fptofp","sbvtofp","ubvtofp","bvtofp","fpfp","fpv"}
ArithSem(op, rm, a, b, eb, sb) ==
  CASE op = "add" -> AddV(rm, a, b, eb, sb)
    [] op = "sub" -> SubV(rm, a, b, eb, sb)
    [] op = "mul" -> MulV(rm, a, b, eb, sb)
    [] op = "div" -> DivV(rm, a, b, eb, sb)
CmpSem(op, a, b) ==
  CASE op = "eq" -> FEq(a,b) [] op = "neq" -> ~FEq(a,b) [] op = "lt" -> FLt(a,b)
    [] op = "leq" -> FLeq(a,b) [] op = "gt" -> FGt(a,b) [] op = "geq" -> FGeq(a,b)
FpSem(op, rm, x, y, eb, sb, eb2, sb2, size) ==
  CASE op \in ArithOps -> ArithSem(op, rm, Unpack(x, eb, sb), Unpack(y, eb, sb), eb, sb)
    [] op \in CmpOps -> TBool(CmpSem(op, Unpack(x, eb, sb), Unpack(y, eb, sb)))
    [] op = "sqrt" -> SqrtV(rm, Unpack(x, eb, sb), eb, sb)
    [] op = "abs" -> AbsB(x, eb, sb)
    [] op = "neg" -> NegB(x, eb, sb)
    [] op = "isnan" -> TBool(Unpack(x, eb, sb).k = "nan")
    [] op = "isinf" -> TBool(Unpack(x, eb, sb).k = "inf")
    [] op = "tosbv" -> ToSBV(rm, Unpack(x, eb, sb), size)
    [] op = "toubv" -> ToUBV(rm, Unpack(x, eb, sb), size)
    [] op \in {"fptofp","fpv"} -> FpToFp(rm, Unpack(x, eb, sb), eb2, sb2)   \* fpv: a numeral written as a double, rm = RNE
    [] op = "sbvtofp" -> SIntToFp(rm, x, eb2, sb2)
    [] op = "ubvtofp" -> UIntToFp(rm, x, eb2, sb2)
    [] op = "bvtofp" -> IF IsNaNBits(x, eb2, sb2) THEN PNaN(eb2, sb2) ELSE x          \* reinterpretation of an IEEE pattern
    [] op = "toieee" -> x                                                            \* NaN: any NaN pattern (see Agree)
    [] op = "fpfp" -> IF IsNaNBits(x, eb2, sb2) THEN PNaN(eb2, sb2) ELSE x            \* x = mantissa \o exponent \o sign as passed
\* does the observed bit pattern `got` agree with the reference `ref`?  NaN is compared as a class.
NaNClassOps == FpResultOps \cup {"toieee"}
Agree(op, ref, got, eb2, sb2) ==
  IF ref = Unspec THEN TRUE
  ELSE IF Len(got) # Len(ref) THEN FALSE
  ELSE IF op \in NaNClassOps /\ IsNaNBits(ref, eb2, sb2) THEN IsNaNBits(got, eb2, sb2)
  ELSE got = ref
=============================================================================
