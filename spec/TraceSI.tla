------------------------------- MODULE TraceSI -------------------------------
(***************************************************************************)
(* Trace specification for events recorded from claripy's VSA backend      *)
(* (harness/w_vsa.py): C21 (transfer functions), C22 (join/meet/widen/     *)
(* queries), C23 (DiscreteStridedIntervalSet, ValueSet), C24 (conversion   *)
(* of annotated expressions), C25 (constraint_to_si).  Constant-level      *)
(* validation: every ndjson line is one event, Failing(e) the set of       *)
(* violated clauses.  Abstract values are sequences of interval tuples     *)
(* (module SI); expression terms are evaluated with Term.tla.              *)
(*                                                                         *)
(*   k = "bin"   op A B -> R        add sub mul udiv sdiv mod and or xor   *)
(*                                  shl lshr ashr (amounts = members of B) *)
(*   k = "cmp"   op A B -> rb       ULT..SGE eq ne, rb = <<mayF, mayT>>    *)
(*   k = "un"    op A p -> R        neg not zext(p=<<w2>>) sext extract    *)
(*   k = "cat"   A B -> R           concat                                 *)
(*   k = "join"  op A B [C] -> R    union lub lub3 widen widen2            *)
(*   k = "meet"  A B -> R           intersection                           *)
(*   k = "q"     queries on A       eval(n) min max cardinality solution   *)
(*   k = "opset" the operand list of an exhaustive tier = WFSet(W)         *)
(*   k = "vs"    value-set operation, checked per region                   *)
(*   k = "conv"  backends.vsa.convert(term over annotated variables)       *)
(*   k = "c2si"  constraint_to_si(c) = (sat, <<expr, bound>> list)         *)
(* exc = "" or the name of the exception the call raised; cls = 1 marks an *)
(* event of an exhaustive tier whose operands must lie in WFSetB(w).       *)
(* bin/cmp/un/cat/join/meet travel as sub-events of k = "batch" lines:     *)
(*   [k |-> "batch", A, B, cls, subs |-> << <<kind, op, how, exc, p, R,    *)
(*   rb, C>>, ... >>, A2, B2]  (one line per operand tuple; the sub-events *)
(*   ran in this order on the same operand objects, A2/B2 = operands read  *)
(*   back afterwards).                                                     *)
(***************************************************************************)
EXTENDS Term, SI, Json, IOUtils

\* ---- helpers ----
Certified(V) == Len(V) = 1 /\ WF(V[1]) /\ (V[1][5] = 1 \/ Normal(V[1])) /\ Len(V[1][6]) = 0
OperandBad(cls, Vs) == IF cls = 1 /\ \E i \in 1..Len(Vs) : ~Certified(Vs[i]) THEN {"operand"} ELSE {}

\* The checks take their fields as explicit arguments so that the same operators serve stand-alone events and the
\* sub-events of a k = "batch" line without building a record per sub-event.
FailBin(op, A, B, R, exc, cls) ==
  LET w == WidthV(A) MB == MemV(B) IN
  OperandBad(cls, <<A, B>>) \cup
  (IF exc # "" THEN (IF ExcAllowed(op, MB) THEN {} ELSE {"exc"})
   ELSE IF ~SameWidth(R, w) THEN {"width"}
   ELSE IF SoundBin(op, w, MemV(A), MB, MemV(R)) THEN {} ELSE {"unsound"})

FailCmp(op, A, B, rb, exc, cls) ==
  OperandBad(cls, <<A, B>>) \cup
  (IF exc # "" THEN {"exc"}
   ELSE IF SoundCmp(op, WidthV(A), MemV(A), MemV(B), rb) THEN {} ELSE {"unsound"})

FailUn(op, A, p, R, exc, cls) ==
  LET w == WidthV(A) IN
  OperandBad(cls, <<A>>) \cup
  (IF exc # "" THEN {"exc"}
   ELSE IF ~SameWidth(R, UnWidth(op, w, p)) THEN {"width"}
   ELSE IF SoundUn(op, w, p, MemV(A), MemV(R)) THEN {} ELSE {"unsound"})

FailCat(A, B, R, exc, cls) ==
  OperandBad(cls, <<A, B>>) \cup
  (IF exc # "" THEN {"exc"}
   ELSE IF ~SameWidth(R, WidthV(A) + WidthV(B)) THEN {"width"}
   ELSE IF SoundConcat(WidthV(B), MemV(A), MemV(B), MemV(R)) THEN {} ELSE {"unsound"})

\* C = <<>>: two operands; otherwise three (least_upper_bound of three, widen chains)
FailJoin(A, B, C, R, exc, cls) ==
  LET Vs == IF Len(C) > 0 THEN <<A, B, C>> ELSE <<A, B>>
      Ms == [i \in 1..Len(Vs) |-> MemV(Vs[i])] IN
  OperandBad(cls, Vs) \cup
  (IF exc # "" THEN {"exc"}
   ELSE IF ~SameWidth(R, WidthV(A)) THEN {"width"}
   ELSE IF SoundJoin(Ms, MemV(R)) THEN {} ELSE {"unsound"})

FailMeet(A, B, R, exc, cls) ==
  OperandBad(cls, <<A, B>>) \cup
  (IF exc # "" THEN {"exc"}
   ELSE IF ~SameWidth(R, WidthV(A)) THEN {"width"}
   ELSE IF SoundMeet(MemV(A), MemV(B), MemV(R)) THEN {} ELSE {"unsound"})

\* ---- queries.  mode "si": exact;  mode "set" (DSIS, ValueSet): enumerations may be partial, cardinality
\*      is an upper bound (documented as an over-approximation) ----
FailQ(e) ==
  LET w == WidthV(e.A)
      M == MemV(e.A)
      exact == e.mode = "si"
      \* mode "multi": a value set with several regions; equal offsets of different regions are different values
      EvOK(x) == IF exact THEN EvalOK(w, M, x[1], x[2])
                 ELSE IF e.mode = "multi" THEN Len(x[2]) <= x[1] /\ \A i \in 1..Len(x[2]) : Mod(x[2][i], P2(w)) \in M
                 ELSE EvalWeakOK(w, M, x[1], x[2])
  IN
  OperandBad(e.cls, <<e.A>>) \cup
  (IF Len(e.qexc) > 0 THEN {"qexc"} ELSE {}) \cup
  (IF \A i \in 1..Len(e.evals) : EvOK(e.evals[i]) THEN {} ELSE {"eval"}) \cup
  (IF \A i \in 1..Len(e.sevals) : EvOK(e.sevals[i]) THEN {} ELSE {"seval"}) \cup
  (IF Len(e.card) = 0 THEN {}
   ELSE IF (IF exact THEN e.card[1] = Cardinality(M) ELSE e.card[1] >= Cardinality(M)) THEN {} ELSE {"card"}) \cup
  (IF Len(e.sols) = 0 THEN {}
   ELSE IF \A v \in 0..(P2(w) - 1) : (e.sols[v + 1] = 1) = (v \in M) THEN {} ELSE {"sol"}) \cup
  (IF Len(e.mm) = 0 THEN {}
   ELSE IF M = {} THEN {"min"}
   ELSE {c \in {"min", "max", "smin", "smax"} :
           CASE c = "min"  -> Mod(e.mm[1], P2(w)) # SetMin(M)
             [] c = "max"  -> Mod(e.mm[2], P2(w)) # SetMax(M)
             [] c = "smin" -> Mod(e.mm[3], P2(w)) # SetSMin(w, M)
             [] c = "smax" -> Mod(e.mm[4], P2(w)) # SetSMax(w, M)}) \cup
  (IF e.none = 1 /\ M # {} THEN {"none"} ELSE {})

\* ---- the operand list of an exhaustive tier is exactly the specification's set ----
FailOpset(e) ==
  LET S == {e.list[i] : i \in 1..Len(e.list)}
      T == IF e.bot = 1 THEN WFSetB(e.W) ELSE WFSet(e.W) IN
  IF S = T /\ Len(e.list) = Cardinality(T) /\ e.n = Cardinality(T) THEN {} ELSE {"opset"}

\* ---- value sets: v = [rg |-> <<region names>>, si |-> <<abstract value per region>>] ----
RegMem(v, nm) == UNION {MemV(v.si[i]) : i \in {j \in 1..Len(v.rg) : v.rg[j] = nm}}
Regs(v) == {v.rg[i] : i \in 1..Len(v.rg)}
\* member sets of the right operand seen from region nm: a plain interval is region-less
RightMem(e, nm) == IF e.bt = "vs" THEN RegMem(e.Bv, nm) ELSE MemV(e.B)
\* member set of the result for region nm: a plain interval result must cover every region
ResMem(e, nm) == IF e.rt = "vs" THEN RegMem(e.Rv, nm) ELSE MemV(e.R)

FailVS(e) ==
  LET w == e.w IN
  IF e.exc # "" THEN {"exc"}
  ELSE IF e.op \in BinOps THEN
     (IF \A nm \in Regs(e.Av) : SoundBin(e.op, w, RegMem(e.Av, nm), RightMem(e, nm), ResMem(e, nm)) THEN {} ELSE {"unsound"})
  ELSE IF e.op \in {"union", "widen"} THEN
     (IF \A nm \in Regs(e.Av) \cup (IF e.bt = "vs" THEN Regs(e.Bv) ELSE {}) :
           (RegMem(e.Av, nm) \cup (IF e.bt = "vs" THEN RegMem(e.Bv, nm) ELSE IF nm \in Regs(e.Av) THEN MemV(e.B) ELSE {}))
              \subseteq ResMem(e, nm) THEN {} ELSE {"unsound"})
  ELSE IF e.op = "intersection" THEN
     (IF \A nm \in Regs(e.Av) : (RegMem(e.Av, nm) \cap RightMem(e, nm)) \subseteq ResMem(e, nm) THEN {} ELSE {"unsound"})
  ELSE IF e.op \in {"eq", "ne"} THEN
     \* concrete values of a value set are (region, offset) pairs; a plain interval lives in region "global"
     LET T == Truth(e.rb)
         RB == IF e.bt = "vs" THEN Regs(e.Bv) ELSE {"global"}
         BM(nm) == IF e.bt = "vs" THEN RegMem(e.Bv, nm) ELSE MemV(e.B)
     IN IF \A r1 \in Regs(e.Av) : \A r2 \in RB : \A x \in RegMem(e.Av, r1) : \A y \in BM(r2) :
             ((r1 = r2 /\ x = y) = (e.op = "eq")) \in T THEN {} ELSE {"unsound"}
  ELSE IF e.op \in CmpOps THEN
     (IF \A nm \in Regs(e.Av) : SoundCmp(e.op, w, RegMem(e.Av, nm), RightMem(e, nm), e.rb) THEN {} ELSE {"unsound"})
  ELSE IF e.op \in {"zext", "sext", "extract", "neg", "not"} THEN
     (IF \A nm \in Regs(e.Av) : SoundUn(e.op, w, e.p, RegMem(e.Av, nm), ResMem(e, nm)) THEN {} ELSE {"unsound"})
  ELSE IF e.op = "concat" THEN
     (IF \A nm \in Regs(e.Av) : SoundConcat(e.wb, RegMem(e.Av, nm), RightMem(e, nm), ResMem(e, nm)) THEN {} ELSE {"unsound"})
  ELSE {"unknown-op"}

\* ---- C24 / C25: expression terms over variables that carry intervals ----
NatBits(w, x) == [i \in 1..w |-> (x \div P2(i - 1)) % 2] \o <<>>
BitsNat(b) == FoldLeft(LAMBDA acc, i : acc + b[i] * P2(i - 1), 0, Idx(Len(b)))
\* vars: << <<name, width, abstract value>>, ... >>;  width 0 = Boolean variable
VarVals(v) == IF v[2] = 0 THEN {<<0>>, <<1>>} ELSE {NatBits(v[2], x) : x \in MemV(v[3])}
AsgsOf(vars) == FoldLeft(LAMBDA S, i : {f @@ (vars[i][1] :> v) : f \in S, v \in VarVals(vars[i])},
                         {<<>>}, Idx(Len(vars)))
HasDiv(f) == \E i \in 1..Len(f) : f[i][1] \in DivOps
\* machine result under assignment a: <<value, some divisor is zero>>
RunZ(f, hd, a) == LET r == Run(f, a) IN <<r[1][1], hd /\ \E j \in 1..Len(r[2]) : IsZero(r[2][j])>>

FailConv(e) ==
  LET f == Flat(e.t) hd == HasDiv(f) A == AsgsOf(e.vars) IN
  \* an exception is justified only by a division whose divisor can be zero
  IF e.exc # "" THEN (IF hd /\ \E a \in A : RunZ(f, hd, a)[2] THEN {} ELSE {"exc"})
  ELSE IF e.rt = "bool" THEN
          LET T == Truth(e.rb)
              \* truth values the term takes under the assignments that divide by no zero
              TV == {RunZ(f, hd, a)[1] = T1 : a \in {b \in A : ~RunZ(f, hd, b)[2]}}
              \* truth queries asked one after the other on the backend-wide caches; row = <<order, is_true, is_false,
              \* satisfiable(extra c), satisfiable() after add(c), eval(c) lists True>> as 0/1 (-1: raised).
              \* order 0: is_true first, order 1: is_false first.  An earlier query must not change a later answer.
              TQ(q) == LET o == IF q[1] = 0 THEN "A" ELSE "B" IN
                       (IF q[2] = 1 /\ FALSE \in TV THEN {"istrue-" \o o} ELSE {}) \cup
                       (IF q[3] = 1 /\ TRUE \in TV THEN {"isfalse-" \o o} ELSE {}) \cup
                       (IF (q[4] = 0 \/ q[5] = 0) /\ TRUE \in TV THEN {"unsat-" \o o} ELSE {}) \cup
                       (IF q[6] = 0 /\ TRUE \in TV THEN {"evalT-" \o o} ELSE {}) \cup
                       (IF \E k \in 2..6 : q[k] = 0 - 1 THEN {"tq-exc"} ELSE {})
          IN (IF TV \subseteq T THEN {} ELSE {"unsound"}) \cup UNION {TQ(e.tq[i]) : i \in 1..Len(e.tq)}
       ELSE IF ~SameWidth(e.R, Width(e.t)) THEN {"width"}
       ELSE LET MR == MemV(e.R)
                \* values of the term under every assignment that divides by no zero
                V == {BitsNat(RunZ(f, hd, a)[1]) : a \in {b \in A : ~RunZ(f, hd, b)[2]}}
                M == P2(Width(e.t))
            IN (IF V \subseteq MR THEN {} ELSE {"unsound"}) \cup
               \* SolverVSA (light frontend) on the same expression: eval(n > 2^w), min, max exclude no value
               (IF e.sv_exc # "" THEN {"solver-exc"} ELSE {}) \cup
               (IF e.sv_on = 0 THEN {}
                ELSE (IF V \subseteq {Mod(e.sv_eval[i], M) : i \in 1..Len(e.sv_eval)} THEN {} ELSE {"solver-eval"}) \cup
                     (IF Len(e.sv_mm) = 0 THEN (IF V = {} THEN {} ELSE {"solver-minmax"})      \* min/max answered None
                      ELSE IF \A v \in V : Mod(e.sv_mm[1], M) <= v /\ v <= Mod(e.sv_mm[2], M) THEN {}
                      ELSE {"solver-minmax"}))

\* constraint_to_si: reps = << <<expr term, bound abstract value>>, ... >>
FailC2si(e) ==
  IF e.exc # "" THEN {}                      \* an exception cuts nothing off (counted by the harness)
  ELSE LET f == Flat(e.c) hd == HasDiv(f)
           S == {a \in AsgsOf(e.vars) : LET r == RunZ(f, hd, a) IN ~r[2] /\ r[1] = T1}
       IN IF ~e.sat THEN (IF S = {} THEN {} ELSE {"unsat"})
          ELSE IF \A i \in 1..Len(e.reps) :
                    LET g == Flat(e.reps[i][1]) hg == HasDiv(g) MB == MemV(e.reps[i][2]) IN
                    \A a \in S : LET r == RunZ(g, hg, a) IN r[2] \/ BitsNat(r[1]) \in MB
               THEN {} ELSE {"bound"}

\* ---- wide widths: values and bounds are LSB-first bit sequences (BVBits); membership by predicate on
\*      sampled member pairs xs = << <<x, y>>, ... >> ----
WMem(x, t) == /\ t.bot = 0
              /\ LET d == BSub(x, t.lb) span == BSub(t.ub, t.lb) IN
                 IF t.sbig = 1 \/ IsZero(t.s) THEN x = t.lb
                 ELSE UCmp(d, span) <= 0 /\ IsZero(BURem(d, t.s))
FailWide(e) ==
  IF e.exc # "" THEN {"exc"}
  ELSE LET n == Len(e.xs)
           unary == e.op \in {"not", "rev"} IN
       IF \E i \in 1..n : ~WMem(e.xs[i][1], e.a) \/ (~unary /\ ~WMem(e.xs[i][2], e.b)) THEN {"sample"}
       ELSE IF (CASE e.op = "add" -> \A i \in 1..n : WMem(BAdd(e.xs[i][1], e.xs[i][2]), e.r)
                  [] e.op = "sub" -> \A i \in 1..n : WMem(BSub(e.xs[i][1], e.xs[i][2]), e.r)
                  [] e.op = "union" -> \A i \in 1..n : WMem(e.xs[i][1], e.r) /\ WMem(e.xs[i][2], e.r)
                  [] e.op = "not" -> \A i \in 1..n : WMem(BNot(e.xs[i][1]), e.r)
                  [] e.op = "rev" -> \A i \in 1..n : WMem(BReverse(e.xs[i][1]), e.r)
                  [] e.op = "ULT" -> \A i \in 1..n : (UCmp(e.xs[i][1], e.xs[i][2]) < 0) \in Truth(e.rb)
                  [] e.op = "ULE" -> \A i \in 1..n : (UCmp(e.xs[i][1], e.xs[i][2]) <= 0) \in Truth(e.rb)
                  [] e.op = "UGT" -> \A i \in 1..n : (UCmp(e.xs[i][1], e.xs[i][2]) > 0) \in Truth(e.rb)
                  [] e.op = "UGE" -> \A i \in 1..n : (UCmp(e.xs[i][1], e.xs[i][2]) >= 0) \in Truth(e.rb))
            THEN {} ELSE {"unsound"}

\* sub-event s = <<kind, op, entry points, exc, p, R, rb, C>> of operands A, B
FailSub(A, B, cls, s) ==
  CASE s[1] = "bin" -> FailBin(s[2], A, B, s[6], s[4], cls)
    [] s[1] = "cmp" -> FailCmp(s[2], A, B, s[7], s[4], cls)
    [] s[1] = "un" -> FailUn(s[2], A, s[5], s[6], s[4], cls)
    [] s[1] = "cat" -> FailCat(A, B, s[6], s[4], cls)
    [] s[1] = "join" -> FailJoin(A, B, s[8], s[6], s[4], cls)
    [] s[1] = "meet" -> FailMeet(A, B, s[6], s[4], cls)

FailOne(e) ==
  CASE e.k = "q" -> FailQ(e)
    [] e.k = "opset" -> FailOpset(e)
    [] e.k = "vs" -> FailVS(e)
    [] e.k = "conv" -> FailConv(e)
    [] e.k = "c2si" -> FailC2si(e)
    [] e.k = "wide" -> FailWide(e)

\* k = "batch": all operations recorded for one operand tuple (A, B) share one line (JSON parsing dominates the
\* cost of validation).  Failing clauses are reported with the index of the sub-event.
\* operand preservation: the sub-events of a batch were executed one after the other on the same operand objects;
\* A2, B2 are the operands as read back after the sequence (<<>>: not recorded).  An operation must not change its
\* operands (every later use of the operand would silently work on another interval).
Strip5(V) == [i \in 1..Len(V) |-> SubSeq(V[i], 1, 5)]
BatchBad(e) == IF (Len(e.A2) > 0 /\ e.A2 # Strip5(e.A)) \/ (Len(e.B2) > 0 /\ e.B2 # Strip5(e.B))
               THEN {"operand-mutated"} ELSE {}

Report(i, e) ==
  IF e.k = "batch"
  THEN /\ \A j \in 1..Len(e.subs) : \A c \in FailSub(e.A, e.B, e.cls, e.subs[j]) : PrintT(<<"BAD", i, c, j>>)
       /\ \A c \in BatchBad(e) : PrintT(<<"BAD", i, c, 0>>)
  ELSE \A c \in FailOne(e) : PrintT(<<"BAD", i, c, 0>>)

ASSUME LET Trace == ndJsonDeserialize(IOEnv.TRACE_FILE) IN
       /\ \A i \in 1..Len(Trace) : Report(i, Trace[i])
       /\ PrintT(<<"DONE", Len(Trace)>>)
=============================================================================
