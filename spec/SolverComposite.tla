--------------------------- MODULE SolverComposite ---------------------------
(***************************************************************************)
(* Refined model of claripy.SolverComposite (frontend/composite_frontend.py *)
(* + the mixins of solvers.py:SolverComposite): how the composite keeps    *)
(* its constraints in child solvers, one per group of connected variables. *)
(*                                                                         *)
(* State = the dictionary  _solvers : variable name -> child  seen as the  *)
(* set of children, each with the constraints it holds (cs), the names it  *)
(* is registered under (reg) and whether it has been checked since its last *)
(* change (chk = not in _unchecked_solvers); plus the private _unsat flag.  *)
(*                                                                         *)
(* One action per public call, written as the code performs it:            *)
(*   Add(c)      _add: a concrete constraint only sets the flag; otherwise  *)
(*               _add_dependent_constraints merges the children reached     *)
(*               from the constraint's names (_solver_for_names: transitive *)
(*               closure over registered names), adds, _store_child         *)
(*   Sat         check_satisfiability: flag, then every unchecked child     *)
(*   Eval(q)     SimplifyHelperMixin.simplify (children split into their    *)
(*               independent parts), _ensure_sat, merged solver for the     *)
(*               names of the expression, answer from it, _reabsorb_solver, *)
(*               then ConstraintExpansionMixin adds the helper constraint   *)
(*               Or(e == v ...) with invalidate_cache=False, which          *)
(*               _add_dependent_constraints ignores when more than one      *)
(*               child is registered for its names                          *)
(*   Simplify    simplify(): _split_child on every child                    *)
(*   Split       split(): one part per child (+ a False part for the flag)  *)
(*                                                                         *)
(* Checked by TLC on every reachable state / step:                          *)
(*   AnswerStep  (refinement) every answer is the one the conjunction of    *)
(*               all added constraints gives (SolverAbs semantics)          *)
(*   RegDisjoint, RegWithinVars, Coverage, FlagSound, CheckedSat            *)
(* The reachable states are exported (-dump) and every state x input is     *)
(* replayed on the real class; the partition the model predicts is          *)
(* compared with the one observed (drift), answers are validated by         *)
(* TraceSolver.tla.                                                         *)
(***************************************************************************)
EXTENDS Naturals, Sequences, FiniteSets, TLC, SequencesExt

CONSTANTS NV,        \* variables are 1..NV (1 = "x" < 2 = "y" < 3 = "z": min() of names is min of numbers)
          NC,        \* constraints of the alphabet are 1..NC
          NQ,        \* query expressions are 1..NQ; helper constraint of query q is item NC + q
          CVars,     \* sequence: CVars[c] = set of variables of constraint c ({} = concrete)
          CDen,      \* sequence: CDen[c] = set of assignment indices satisfying c
          QVars,     \* sequence: QVars[q] = variables of query expression q
          QVal,      \* sequence: QVal[q] = sequence over assignment indices (1-based) of the expression's value
          NA,        \* assignments are 1..NA
          MaxDepth,
          Variant    \* "code": the model of the code.  "nomerge": negative control -- Add puts the constraint into ONE
                     \* of the children it touches instead of merging them (TLC must refute Coverage / AnswerStep)

VARIABLES kids, flag, added, hist, ret
vars == <<kids, flag, added, hist, ret>>
view == <<kids, flag, added>>

Vars == 1..NV
Items == 1..(NC + NQ)
IVars(i) == IF i <= NC THEN CVars[i] ELSE QVars[i - NC]
VarsOf(cs) == UNION {IVars(i) : i \in cs}
Asg == 1..NA
Den(cs) == {a \in Asg : \A c \in cs : c > NC \/ a \in CDen[c]}     \* helper constraints are implied: no effect
MinOf(S) == CHOOSE v \in S : \A u \in S : v <= u

\* ---- the dictionary _solvers ----
ListOf(K) == {k \in K : k.reg # {}}                       \* _solver_list: children reachable through some name
Direct(K, N) == {k \in K : k.reg \cap N # {}}             \* _solvers_for_variables
\* _solver_for_names: transitive closure over the variables of the children found so far
Closure(K, N) ==
  LET step(S) == S \cup UNION {VarsOf(k.cs) : k \in Direct(K, S)}
      names == FoldLeft(LAMBDA S, i : step(S), N, [i \in 1..(Cardinality(K) + 1) |-> i] \o <<>>)
  IN Direct(K, names)
\* _store_child(s): every variable of s is registered to s (taken away from whoever had it)
Store(K, s) == {kk \in {[k EXCEPT !.reg = k.reg \ VarsOf(s.cs)] : k \in K} : kk.reg # {}}
               \cup (IF VarsOf(s.cs) = {} THEN {} ELSE {[s EXCEPT !.reg = VarsOf(s.cs)]})
\* ConstrainedFrontend.split / independent_constraints: connected components of the items by shared variables
Comp(cs, i) ==
  LET step(S) == S \cup {j \in cs : IVars(j) \cap VarsOf(S) # {}}
  IN FoldLeft(LAMBDA S, n : step(S), {i}, [n \in 1..(Cardinality(cs) + 1) |-> n] \o <<>>)
Components(cs) == {Comp(cs, i) : i \in {j \in cs : IVars(j) # {}}}
\* _split_child for every child (composite simplify)
SplitAll(K) ==
  FoldLeft(LAMBDA acc, k :
             LET cps == Components(k.cs) IN
             IF k \notin acc \/ Cardinality(cps) <= 1 THEN acc
             ELSE FoldLeft(LAMBDA a2, p : Store(a2, [cs |-> p, reg |-> {}, chk |-> FALSE]), acc, SetToSeq(cps)),
           K, SetToSeq(ListOf(K)))

AllSat(K) == \A k \in ListOf(K) : k.chk \/ Den(k.cs) # {}
MarkChecked(K) == {[k EXCEPT !.chk = TRUE] : k \in K}

\* ---- abstract semantics (SolverAbs): the conjunction of everything that was added ----
AbsDen == {a \in Asg : \A c \in added : a \in CDen[c]}

Init == kids = {} /\ flag = FALSE /\ added = {} /\ hist = <<>> /\ ret = <<"init">>

Add(c) ==
  /\ added' = added \cup {c}
  /\ hist' = Append(hist, <<1, c>>)
  /\ ret' = <<"ok">>
  /\ IF CVars[c] = {}
       THEN /\ flag' = (flag \/ CDen[c] = {})
            /\ kids' = kids
       ELSE LET T0 == Closure(kids, CVars[c])
                T == IF Variant = "nomerge" /\ T0 # {} THEN {CHOOSE k \in T0 : TRUE} ELSE T0
                m == [cs |-> UNION {k.cs : k \in T} \cup {c}, reg |-> {}, chk |-> FALSE]
            IN /\ kids' = Store(kids \ T, m)
               /\ flag' = flag

Sat ==
  /\ hist' = Append(hist, <<2, 0>>)
  /\ UNCHANGED <<added, flag>>
  /\ IF flag THEN ret' = <<"sat", FALSE>> /\ kids' = kids
     ELSE IF AllSat(kids) THEN ret' = <<"sat", TRUE>> /\ kids' = MarkChecked(kids)
     ELSE ret' = <<"sat", FALSE>> /\ kids' = kids

Eval(q) ==
  LET K1 == IF flag THEN kids ELSE SplitAll(kids)                       \* SimplifyHelperMixin
      ok == ~flag /\ AllSat(K1)
      K2 == MarkChecked(K1)
      N == QVars[q]
      T == Closure(K2, N)
      mcs == UNION {k.cs : k \in T}
      vals == {QVal[q][a] : a \in Den(mcs)}
      \* _reabsorb_solver of a temporary merged solver: its parts are stored when their number differs from the
      \* number of children registered for its variables
      cps == Components(mcs)
      K3 == IF Cardinality(T) <= 1 \/ Cardinality(cps) = Cardinality(Direct(K2, VarsOf(mcs))) THEN K2
            ELSE FoldLeft(LAMBDA a2, p : Store(a2, [cs |-> p, reg |-> {}, chk |-> FALSE]), K2, SetToSeq(cps))
      \* ConstraintExpansionMixin: helper constraint through _add(invalidate_cache=False)
      T2 == Closure(K3, N)
      h == [cs |-> UNION {k.cs : k \in T2} \cup {NC + q}, reg |-> {},
            chk |-> \A k \in T2 : k.chk]
      K4 == IF Cardinality(Direct(K3, N)) > 1 THEN K3 ELSE Store(K3 \ T2, h)
  IN /\ hist' = Append(hist, <<3, q>>)
     /\ UNCHANGED <<added, flag>>
     /\ IF ok THEN ret' = <<"vals", vals>> /\ kids' = K4
        ELSE ret' = <<"unsat">> /\ kids' = K1

Simplify ==
  /\ hist' = Append(hist, <<4, 0>>)
  /\ ret' = <<"ok">>
  /\ UNCHANGED <<added, flag>>
  /\ kids' = IF flag THEN kids ELSE SplitAll(kids)

Split ==
  /\ hist' = Append(hist, <<5, 0>>)
  /\ UNCHANGED <<added, flag, kids>>
  /\ ret' = <<"parts", {k.cs : k \in ListOf(kids)}, flag>>

Next == \/ \E c \in 1..NC : Add(c)
        \/ Sat
        \/ \E q \in 1..NQ : Eval(q)
        \/ Simplify
        \/ Split
Spec == Init /\ [][Next]_vars
Depth == Len(hist) <= MaxDepth

\* ---- refinement: every answer is the answer of the conjunction of the added constraints ----
AnswerOK(r, q) ==
  CASE r[1] = "sat" -> r[2] = (AbsDen # {})
    [] r[1] = "unsat" -> AbsDen = {}
    [] r[1] = "vals" -> AbsDen # {} /\ r[2] = {QVal[q][a] : a \in AbsDen}
    [] r[1] = "parts" ->
         LET P == r[2] IN
         /\ \A p1, p2 \in P : p1 # p2 => VarsOf(p1 \cap (1..NC)) \cap VarsOf(p2 \cap (1..NC)) = {}   \* independent
         /\ (IF r[3] THEN {} ELSE Den(UNION P)) = AbsDen                                             \* same meaning
    [] OTHER -> TRUE
AnswerStep == [][AnswerOK(ret', IF Len(hist') > 0 /\ hist'[Len(hist')][1] = 3 THEN hist'[Len(hist')][2] ELSE 1)]_vars

\* ---- invariants of the refined state ----
RegDisjoint == \A k1, k2 \in kids : k1 # k2 => k1.reg \cap k2.reg = {}
RegWithinVars == \A k \in kids : k.reg \subseteq VarsOf(k.cs)
\* no added constraint is lost: the children reachable by name (and the flag) mean what was added
Coverage == (IF flag THEN {} ELSE Den(UNION {k.cs : k \in ListOf(kids)})) = AbsDen
FlagSound == flag => AbsDen = {}
CheckedSat == \A k \in ListOf(kids) : k.chk => Den(k.cs) # {}
=============================================================================
