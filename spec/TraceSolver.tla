------------------------------- MODULE TraceSolver -------------------------------
(***************************************************************************)
(* Trace validation of recorded solver histories against SolverAbs.        *)
(* One ndjson line = one trace  [tid, vars, maxid, ev]  (a history of       *)
(* public frontend calls on several solver objects in one interpreter).    *)
(* The reference state is folded over the events from the logged INPUTS;   *)
(* each logged OUTPUT is checked against the allowed-outcome relation at   *)
(* the state in which the call was made.  Thousands of traces per JVM.     *)
(***************************************************************************)
EXTENDS SolverAbs, Json, IOUtils


CheckTrace(tr) ==
  LET Asg == AllAsg(tr.vars)
      res == FoldLeft(LAMBDA acc, k :
                 LET ev == tr.ev[k]
                     f == Failing(Asg, acc[1], ev)
                 IN << Effect(Asg, acc[1], ev), acc[2] \cup {<<k, c>> : c \in f} >>,
              << InitState(tr.maxid), {} >>, Idx(Len(tr.ev)))
  IN res[2]

\* NB: LET-bound trace (a top-level definition is re-parsed at every reference)
ASSUME LET Trace == ndJsonDeserialize(IOEnv.TRACE_FILE) IN
       /\ \A i \in 1..Len(Trace) : \A p \in CheckTrace(Trace[i]) : PrintT(<<"BAD", i, p[2], p[1]>>)
       /\ PrintT(<<"DONE", Len(Trace)>>)
=============================================================================
