------------------------------- MODULE TraceStore -------------------------------
(***************************************************************************)
(* C06 -- validation of runs recorded on the real claripy against the      *)
(* hash-cons store specification (ExprStoreOps / ExprStore).               *)
(*                                                                         *)
(* One ndjson line per event:                                              *)
(*  k = "al"    the alphabet of the shard: K, A, V (sequences of keys /    *)
(*              annotation values / BVV requests); must be the first line. *)
(*  k = "trace" the replay of one behaviour exported by TLC from           *)
(*              ExprStore.tla: steps[n] = [e, tgt, ret, out, occ, hs]      *)
(*                e    the request <<act, kind, i, j1, j2, j>> (INPUT)     *)
(*                tgt  Annotate: occurrence (in the PREVIOUS observation)  *)
(*                     of the object that was annotated (INPUT: the client *)
(*                     passes an object)                                   *)
(*                occ  every occurrence of an object reachable from the    *)
(*                     client's references after the request:              *)
(*                     [id |-> identity class (Python id()), k |-> key]    *)
(*                ret  occurrence that was returned (0: Drop)              *)
(*                hs   the references held: <<kind, i, j1, j2, occurrence>>*)
(*              Checked per step, on the REAL partition:                   *)
(*                inj       id equal <=> key equal, over all occurrences   *)
(*                faithful  key of what came back = key requested, where   *)
(*                          the requested key is computed here from the    *)
(*                          inputs: Al.K[i] / Al.V[i] / key(tgt) + Al.A[j] *)
(*                stable    an object keeps its key as long as it lives    *)
(*                handles   the references held are those of the           *)
(*                          specification state (computed from the inputs) *)
(*                outcome   the request raised                             *)
(*              and, NOT a verdict (reported as SPEC-DRIFT):               *)
(*                drift     Faithful observed # Faithful predicted by the  *)
(*                          reading "pinned implementation as coded"       *)
(*  k = "canon" an alphabet key built alone in an empty store: got = req   *)
(*              (clause "rewritten": the alphabet is unsuitable)           *)
(*  k = "pool"  nodes: keys of all distinct live objects of a pool built   *)
(*              from the gen_expr streams (clause "inj": two distinct      *)
(*              objects with equal keys); pairs: r = key of what Build     *)
(*              returned in the crowded store, r0 = key returned for the   *)
(*              same request in an empty store (clause "faithful")         *)
(***************************************************************************)
EXTENDS ExprStoreOps, Json, IOUtils

Creates == {"B", "V", "A"}

InjOcc(occ) == \A i, j \in 1..Len(occ) : (occ[i].id = occ[j].id) <=> (occ[i].k = occ[j].k)

ReqKey(Al, prev, s) ==
  CASE s.e[1] = "B" -> Al.K[s.e[3]]
    [] s.e[1] = "V" -> Al.V[s.e[3]]
    [] s.e[1] = "A" -> AddAnn(prev[s.tgt].k, Al.A[s.e[6]])

FaithfulObs(Al, prev, s) == s.ret > 0 /\ s.ret <= Len(s.occ) /\ s.occ[s.ret].k = ReqKey(Al, prev, s)

StableObs(prev, s) == \A i \in 1..Len(s.occ) : \A j \in 1..Len(prev) : s.occ[i].id = prev[j].id => s.occ[i].k = prev[j].k

HandleSet(s) == {<<s.hs[i][1], s.hs[i][2], s.hs[i][3], s.hs[i][4]>> : i \in 1..Len(s.hs)}

\* acc = [cd: state of the as-coded reading (its handle set is that of the specification reading: labels do not depend
\*        on the reading), prev: previous occurrences, bad: set of <<clause, step>>, n, dead]
TraceStep(Al, acc, s) ==
  IF acc.dead THEN acc
  ELSE IF s.out # "ok" THEN [acc EXCEPT !.bad = @ \cup {<<"outcome", acc.n>>}, !.dead = TRUE]
  ELSE
  LET cd == Request(TRUE, Al, acc.cd, s.e)
      creates == s.e[1] \in Creates
      fo == (~creates) \/ FaithfulObs(Al, acc.prev, s)
      bad == (IF InjOcc(s.occ) THEN {} ELSE {<<"inj", acc.n>>})
             \cup (IF fo THEN {} ELSE {<<"faithful", acc.n>>})
             \cup (IF StableObs(acc.prev, s) THEN {} ELSE {<<"stable", acc.n>>})
             \cup (IF HandleSet(s) = DOMAIN cd.ref THEN {} ELSE {<<"handles", acc.n>>})
             \cup (IF fo = cd.ok THEN {} ELSE {<<"drift", acc.n>>})
  IN [cd |-> [key |-> cd.key, ref |-> cd.ref, bvv |-> cd.bvv],
      prev |-> s.occ, bad |-> acc.bad \cup bad, n |-> acc.n + 1, dead |-> FALSE]

Empty3 == [key |-> <<>>, ref |-> <<>>, bvv |-> <<>>]
FailingTrace(Al, tr) ==
  FoldLeft(LAMBDA acc, s : TraceStep(Al, acc, s),
           [cd |-> Empty3, prev |-> <<>>, bad |-> {}, n |-> 1, dead |-> FALSE], tr.steps).bad

SeqSet(s) == {s[i] : i \in 1..Len(s)}
FailingPool(p) ==
  (IF Cardinality(SeqSet(p.nodes)) = Len(p.nodes) THEN {}
   ELSE {<<"inj", CHOOSE i \in 1..Len(p.nodes) : \E j \in 1..(i - 1) : p.nodes[j] = p.nodes[i]>>})
  \cup {<<"faithful", i>> : i \in {j \in 1..Len(p.pairs) : p.pairs[j].r # p.pairs[j].r0}}

FailingCanon(c) == IF c.out # "ok" THEN {<<"outcome", c.i>>} ELSE IF c.got = c.req THEN {} ELSE {<<"rewritten", c.i>>}

Failing(Al, e) ==
  CASE e.k = "trace" -> FailingTrace(Al, e)
    [] e.k = "pool"  -> FailingPool(e)
    [] e.k = "canon" -> FailingCanon(e)
    [] e.k = "al"    -> {}

ASSUME LET Trace == ndJsonDeserialize(IOEnv.TRACE_FILE)
           Al == IF Len(Trace) > 0 /\ Trace[1].k = "al" THEN [K |-> Trace[1].K, A |-> Trace[1].A, V |-> Trace[1].V]
                 ELSE [K |-> <<>>, A |-> <<>>, V |-> <<>>]
       IN /\ \A i \in 1..Len(Trace) : \A c \in Failing(Al, Trace[i]) : PrintT(<<"BAD", i, c[1], c[2]>>)
          /\ PrintT(<<"DONE", Len(Trace)>>)
=============================================================================
