\* C19: GcGuard.tla with Scripts = S_EXEX_EXEX, both initial values of the collector flag
SPECIFICATION Spec
CONSTANT Scripts <- S_EXEX_EXEX
CONSTANT GC0S = {TRUE, FALSE}
CONSTANT MaxFlips = 1
INVARIANT AbsOK
INVARIANT InvCountNonNeg
INVARIANT InvGcOffWhileInFlight
INVARIANT InvNoUnderflow
INVARIANT InvCountMatches
INVARIANT InvRestored
INVARIANT InvUnderflowCount
INVARIANT InvFlOK
INVARIANT LockOK
PROPERTY AbsSpec
CHECK_DEADLOCK TRUE
