------------------------------- MODULE ExprStore -------------------------------
(***************************************************************************)
(* C06 -- the hash-cons store of claripy expressions as a state machine.   *)
(*                                                                         *)
(* A structural KEY is a 6-tuple  <<op, name, ints, args, anns, len>>      *)
(*   op, name, ints, args  exactly as in Term.tla (args are keys),         *)
(*   anns  the node's own annotation tuple, IN ORDER, each annotation a    *)
(*         content value <<tag, <<field strings>>>> (strings because the   *)
(*         interesting contents do not fit a TLC integer: 2^61),           *)
(*   len   the width the node was built with (0 for Booleans).             *)
(* The property: "building an expression returns the same object as any    *)
(* live expression with identical operation, arguments, width and          *)
(* annotations; it never returns an object whose operation, arguments,     *)
(* width or annotations differ from the ones built".                       *)
(*                                                                         *)
(* State                                                                   *)
(*   key   : live node id  -> structural key of that node (live == DOMAIN) *)
(*           A node id is the slot of the weak table the object sits in    *)
(*           (claripy: Base._hash_cache[_hash]).  The slot of a node is    *)
(*           computed from op/name/ints/len, the SLOTS of the argument     *)
(*           objects and AnnHash of its annotations -- as Base._calc_hash  *)
(*           does from the children's _hash.                               *)
(*   ref   : handle label -> node id.  The references the client holds;    *)
(*           everything not reachable from them is dead (weak tables).     *)
(*   bvv   : the BVV side cache  bits -> node id  (claripy: _bvv_cache).   *)
(*   last  : the last request and the id that came back; ok: Faithful held *)
(*           for that request.  hist: history variable (hidden by VIEW).   *)
(*                                                                         *)
(* Two readings of one machine, selected by Coded:                         *)
(*   Coded = FALSE  the SPECIFICATION: AnnHash is injective (annotation    *)
(*                  contents are part of the key), no side cache.  TLC     *)
(*                  checks Inj, Faithful and Canon over every interleaving *)
(*                  of Build/Annotate/BVVk/Drop within the bounds, and the *)
(*                  dumped behaviours are replayed on the real claripy.    *)
(*   Coded = TRUE   the pinned implementation as written: annotations are  *)
(*                  hashed with Python's hash() (hash(-1) = hash(-2), ints *)
(*                  are reduced modulo 2^61-1, a constant __hash__), and   *)
(*                  BVV(v, w, **kw) writes the side cache that BVV(v, w)   *)
(*                  reads.  Used for PREDICTION only (which histories      *)
(*                  break Faithful); a mismatch with the real run is       *)
(*                  SPEC-DRIFT, never a verdict.                           *)
(***************************************************************************)
EXTENDS ExprStoreOps

CONSTANTS KeySeq,       \* sequence of structural keys the client may Build (sub-terms may carry annotations)
          AnnSeq,       \* sequence of annotation values the client may attach with Annotate
          BVVSeq,       \* sequence of BVV keys (<= 1 annotation) requested through BVV(v, w[, annotations=...])
          MaxAnn,       \* bound: annotations added per handle (<= 2)
          MaxLive,      \* bound: live nodes
          MaxSteps,     \* bound: requests per behaviour
          Coded         \* FALSE: specification, TRUE: pinned implementation as coded

VARIABLES key, ref, bvv, last, ok, hist
vars == <<key, ref, bvv, last, ok, hist>>
Al == [K |-> KeySeq, A |-> AnnSeq, V |-> BVVSeq]

\* ---------------------------------------------------------------- actions (effects: ExprStoreOps!Request)
Do(e) ==
  LET r == Request(Coded, Al, [key |-> key, ref |-> ref, bvv |-> bvv], e) IN
  /\ Cardinality(DOMAIN r.key) <= MaxLive
  /\ key' = r.key /\ ref' = r.ref /\ bvv' = r.bvv /\ ok' = r.ok
  /\ last' = e
  /\ hist' = Append(hist, e)

Build(i)       == Do(<<"B", "K", i, 0, 0, 0>>)
BVVk(i)        == Do(<<"V", "V", i, 0, 0, 0>>)
Annotate(h, j) == LabCount(h) < MaxAnn /\ Do(<<"A", h[1], h[2], h[3], h[4], j>>)
Drop(h)        == Do(<<"D", h[1], h[2], h[3], h[4], 0>>)

Init == /\ key = <<>> /\ ref = <<>> /\ bvv = <<>> /\ ok = TRUE /\ hist = <<>>
        /\ last = <<"I", "K", 0, 0, 0, 0>>

Next == \/ \E i \in 1..Len(KeySeq) : Build(i)
        \/ \E i \in 1..Len(BVVSeq) : BVVk(i)
        \/ \E h \in DOMAIN ref : \E j \in 1..Len(AnnSeq) : Annotate(h, j)
        \/ \E h \in DOMAIN ref : Drop(h)

Spec == Init /\ [][Next]_vars

\* ---------------------------------------------------------------- invariants
Inj      == InjOn(key)                                         \* two live ids have equal keys iff they are the same id
Faithful == ok                                                 \* the id that came back has the key that was asked for
RefLive  == \A h \in DOMAIN ref : ref[h] \in DOMAIN key
Closed   == \A s \in DOMAIN key : Kids(s) \subseteq DOMAIN key
\* in the specification reading a node IS its key, a handle is what it asked for, and there is no side cache
Canon    == ~Coded => /\ \A s \in DOMAIN key : key[s] = s
                      /\ \A h \in DOMAIN ref : ref[h] = LabKey(Al, h)
                      /\ bvv = <<>>

Bound == TLCGet("level") <= MaxSteps + 1
View  == <<key, ref, bvv, last, ok>>
\* export: evaluated once per distinct state (TLC checks invariants on new states only): the shortest history that
\* reaches this (store, arriving request) and whether Faithful holds after it
EStr(e) == e[1] \o e[2] \o ToString(e[3]) \o "." \o ToString(e[4]) \o "." \o ToString(e[5]) \o "." \o ToString(e[6])
Export == Bound => PrintT(<<"H", ok, [i \in 1..Len(hist) |-> EStr(hist[i])] \o <<>> >>)
ASSUME PrintT(<<"ALPHABET", KeySeq, AnnSeq, BVVSeq>>)

\* ---------------------------------------------------------------- alphabets (selected by the .cfg files)
X == KBVS("x", 4)
Y == KBVS("y", 4)
B7 == KBVV(<<1, 1, 1, 0>>)
B5 == KBVV(<<1, 0, 1, 0>>)
Add(a, b) == KOp("__add__", <<a, b>>, 4)

SIA(s, l, u) == <<"SI", <<s, l, u>>>>
HV(k)  == <<"HVal", <<k>>>>          \* user class, __hash__ = hash(k), __eq__ on k
HC(k)  == <<"HConst", <<k>>>>        \* user class, constant __hash__, __eq__ on k
REG(r, b) == <<"REG", <<r, b>>>>     \* claripy RegionAnnotation(region_id, region_base_addr)
P61m == "2305843009213693951"        \* 2^61 - 1
P61  == "2305843009213693952"        \* 2^61

\* si: StridedIntervalAnnotation bounds -1/-2 (and an innocent third), on a leaf, under a parent
Keys_si == <<X, Add(X, Y), Add(WithAnns(X, <<SIA("1", "-1", "3")>>), Y), Add(WithAnns(X, <<SIA("1", "-2", "3")>>), Y)>>
Anns_si == <<SIA("1", "-1", "3"), SIA("1", "-2", "3"), SIA("1", "0", "3")>>
\* int: integers that collide under hash(): -1/-2, 2^61-1/0, 2^61/1; and two that collide only in the low 16 bits
Keys_int == <<X, Add(X, Y)>>
Anns_int == <<HV("-1"), HV("-2"), HV(P61m), HV("0"), HV(P61), HV("1"), HV("3"), HV("65539")>>
\* usr: constant __hash__; equal-field RegionAnnotation objects (distinct Python objects, same contents)
Keys_usr == <<X, Y>>
Anns_usr == <<HC("1"), HC("2"), REG("g", "0"), REG("g", "-1"), REG("g", "-2"), REG("h", "0")>>
\* bvv: the side cache
Keys_bvv == <<B7, Add(X, B7)>>
Anns_bvv == <<HV("3"), HV("4")>>
Reqs_bvv == <<B7, WithAnns(B7, <<HV("3")>>), WithAnns(B7, <<HV("4")>>), B5>>
\* str: keys that differ in exactly one component (operation, one argument, argument order, width, extract bounds)
X8 == KBVS("x", 8)
Keys_str == <<X, Y, X8, Add(X, Y), Add(Y, X), KOp("__sub__", <<X, Y>>, 4),
             KOpI("Extract", <<1, 0>>, <<X>>, 2), KOpI("Extract", <<1, 0>>, <<Y>>, 2), KOpI("Extract", <<2, 1>>, <<X>>, 2),
             KOpI("ZeroExt", <<4>>, <<X>>, 8), KOpI("SignExt", <<4>>, <<X>>, 8),
             KOp("__add__", <<X, Y>>, 8)>>          \* same operation and arguments as Add(X, Y), built with width 8
Anns_str == <<HV("3")>>
\* mrk: scalar contents next to the one-byte markers of the hash-cons key (Base._arg_serialize: None = 0x0f, True = 0x1f,
\* False = 0x2e): a field that is None / True / False on one node and 15 / 31 / 46 on another node over the same
\* expression; 1 and 0 because True == 1 and False == 0 in Python
E4  == <<"BVV", "ESI4", <<>>, <<>>, <<>>, 4>>      \* claripy.ESI(4) = BVV(None, 4): the empty strided interval, value slot None
B15 == KBVV(<<1, 1, 1, 1>>)                    \* BVV(15, 4): value slot 15
Keys_mrk == <<X, Add(X, Y)>>
\* esi: the same marker in a VALUE slot: the empty strided interval next to the constant 15 of the same width
Keys_esi == <<E4, B15, Add(X, B15)>>
Anns_esi == <<HV("3")>>
Anns_mrk == <<HV("None"), HV("15"), HV("True"), HV("31"), HV("False"), HV("46"), HV("1"), HV("0")>>
None == <<>>
=============================================================================
