#!/usr/bin/env python3
"""re-execute the history of a solver-engine replay file on the current tree and print each call's outcome
usage: PYTHONPATH=/verif:/repo /venv/bin/python tools/replay_hist.py replay/C12-quick-0.json [--tb]"""
import json, sys, traceback
sys.path.insert(0, '/verif')
from harness import w_solver as W
x = json.load(open(sys.argv[1]))
H = []
for e in x['history']:
    c = e['call']
    if c == 'new': H.append(['new', e.get('cls', 'Solver'), json.loads(e.get('kw', '{}'))])
    elif c == 'add': H.append(['add', e['s'], e['cs']])
    elif c == 'satisfiable': H.append([c, e['s'], e['extra']])
    elif c == 'eval': H.append([c, e['s'], e['e'], e['n'], e['extra']])
    elif c == 'batch_eval': H.append([c, e['s'], e['es'], e['n'], e['extra']])
    elif c in ('min', 'max'): H.append([c, e['s'], e['e'], e['signed'], e['extra']])
    elif c == 'solution': H.append([c, e['s'], e['e'], e['v'], e['extra'], True])
    elif c in ('is_true', 'is_false'): H.append([c, e['s'], e['e'], e['extra']])
    elif c in ('simplify', 'downsize', 'branch', 'pickle', 'split', 'unsat_core'): H.append([c, e['s']])
    elif c == 'merge': H.append([c, e['s'], e['others'], e['cs'], e.get('anc', -1)])
    elif c == 'combine': H.append([c, e['s'], e['others']])
    elif c == 'add_replacement': H.append([c, e['s'], e['e'], e['v'], True])
if '--tb' in sys.argv:
    import claripy
    orig = W.run_history
tr, S, meta = W.run_history(H, x['vars'], 'replay', {})
for k, e in enumerate(tr['ev'], 1):
    print(k, e['call'], e['s'], e['ret'], e['exc'])
