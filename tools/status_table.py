#!/usr/bin/env python3
"""print the per-property status table of DESIGN.md 0.5 from MANIFEST.json and the evidence files of the last run"""
import json, os
V = os.path.dirname(os.path.dirname(os.path.abspath(__file__)))
M = json.load(open(os.path.join(V, "MANIFEST.json")))
checks = M.get("checks") or M.get("properties") or []
print("| property | level | tier of last evidence | states / transitions | traces validated | evaluations | known-finding instances | wall s |")
print("|---|---|---|---|---|---|---|---|")
for c in checks:
    pid = c.get("property_id") or c.get("id")
    p = os.path.join(V, "evidence", pid + ".json")
    if not os.path.exists(p):
        continue
    e = json.load(open(p))
    cov = e["coverage"]
    st = f'{cov.get("states", "")} / {cov.get("transitions", "")}' if "states" in cov else ""
    kf = sum((cov.get("known_findings_matched") or {}).values()) if isinstance(cov.get("known_findings_matched"), dict) else ""
    print(f'| {pid} | {e["level"]} | {e["tier"]} | {st} | {cov.get("traces_validated_against_impl", "")} | '
          f'{cov.get("evaluations", cov.get("programs", ""))} | {kf} | {e["wall_s"]} |')
