#!/bin/sh
# tools/try_seed.sh <dir with patch.diff demo.py> <check ids...> : apply the seeded change to a scratch worktree of /repo
# HEAD, run the demo and the quick checks against it (VERIF_REPO), and remove the worktree.
d=$1; shift
wt=/tmp/seedwt-$$
git -C /repo worktree add -f $wt HEAD -q || exit 2
PYTHONPATH=$wt /venv/bin/python $d/demo.py >/dev/null 2>&1; echo "demo on clean tree rc=$?"
if ! git -C $wt apply $d/patch.diff; then echo "patch does not apply"; git -C /repo worktree remove --force $wt
rm -rf /tmp/seed-evid-$$; exit 2; fi
PYTHONPATH=$wt /venv/bin/python $d/demo.py >/dev/null 2>&1; echo "demo on patched tree rc=$?"
cd /verif
for p in "$@"; do
  out=$(VERIF_REPO=$wt VERIF_EVID=/tmp/seed-evid-$$ timeout 3000 ./check $p --tier quick 2>&1); rc=$?
  echo "check $p rc=$rc $(echo "$out" | grep -E '^(OK|VIOLATION|MACHINERY)' | head -1 | cut -c1-150)"
  [ $rc -ne 0 ] && mkdir -p /tmp/seedres && echo "$out" | head -30 | cut -c1-600 > /tmp/seedres/$(basename $d)-$p.txt
done
git -C /repo worktree remove --force $wt
rm -rf /tmp/seed-evid-$$
