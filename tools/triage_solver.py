#!/usr/bin/env python3
"""summarise solver-engine violations: tools/triage_solver.py C12 [n]"""
import json, sys, glob, collections
sys.path.insert(0, '/verif')
pid = sys.argv[1]
show = int(sys.argv[2]) if len(sys.argv) > 2 else 1
fs = glob.glob(f'/verif/replay/{pid}-*-all.json')
if fs:
    v = json.load(open(fs[0]))
else:
    v = [json.load(open(f)) for f in sorted(glob.glob(f'/verif/replay/{pid}-*-[0-9].json'))]
def short(t):
    if not isinstance(t, list): return str(t)
    op, name, ints, args = t[:4]
    if op == 'BVS' or op == 'BoolS': return name
    if op == 'BVV': return str(sum(b << i for i, b in enumerate(ints)))
    if op == 'BoolV': return 'T' if ints[0] else 'F'
    nm = {'__eq__': '==', '__ne__': '!=', '__add__': '+', '__xor__': '^', '__and__': '&', '__sub__': '-'}.get(op, op)
    return nm + '(' + ','.join(short(a) for a in args) + ')'
def val(r): return [[sum(b << i for i, b in enumerate(x)) for x in tup] for tup in r]
c = collections.Counter()
for x in v:
    cls = next((h.get('cls') for h in x['history'] if h['call'] == 'new'), '?')
    c[(x['clause'], cls, x['event']['call'], x['tid'].split('-')[1] if '-' in x['tid'] else '')] += 1
for k, n in c.most_common(40): print(n, k)
seen = set()
for x in sorted(v, key=lambda x: x['step']):
    cls = next((h.get('cls') for h in x['history'] if h['call'] == 'new'), '?')
    key = (x['clause'], cls, x['event']['call'])
    if key in seen: continue
    seen.add(key)
    if len(seen) > show: break
    print('----', x['tid'], x['clause'], 'step', x['step'], cls)
    H = x['history']
    for k, e in enumerate(H, 1):
        if k < len(H) - 10 and e['call'] not in ('new','add','branch','merge','combine','split','pickle','simplify','downsize') and not e.get('fault'): continue
        what = ' ; '.join(short(t) for t in e['cs']) if e['cs'] else (','.join(short(t) for t in e['es']) if e['es'] else short(e['e']) if e['call'] not in ('new','branch','simplify','downsize','pickle','split','combine','satisfiable','unsat_core') else '')
        ex = ' ; '.join(short(t) for t in e['extra'])
        print(f"  {k:2d} s{e['s']} {e['call']:11s} {what:40s} {'signed' if e['signed'] else '':6s} n={e['n']} v={short(e['v']) if e['call']=='solution' else ''} extra[{ex}] -> {val(e['ret'])} {e['exc']} new={e.get('new')} others={e.get('others')} {e.get('kw','')} {'FAULT%d fired=%s'%(e['fault'],e['fired']) if e.get('fault') else ''} {[[short(t) for t in g] for g in e.get('groups',[])] if e.get('groups') else ''} {[short(t) for t in e.get('rets',[])] if e.get('rets') else ''}")
