#!/usr/bin/env python3
"""print the markdown table of DESIGN.md 0.4 from seeded/<id>-<k>/meta.json (+ seeded/RESULTS.txt of the last full re-run)"""
import json, os, re
root = os.path.join(os.path.dirname(os.path.dirname(os.path.abspath(__file__))), "seeded")
res = {}
p = os.path.join(root, "RESULTS.txt")
if os.path.exists(p):
    for l in open(p):
        if l.startswith("#") or not l.strip():
            continue
        k, v = l.split(None, 1)
        res[k] = v.strip()
print("| change | what it does | first try | final quick run | what catching it took |")
print("|---|---|---|---|---|")
for d in sorted(os.listdir(root)):
    mp = os.path.join(root, d, "meta.json")
    if not os.path.exists(mp):
        continue
    m = json.load(open(mp))
    summ = (m.get("summary") or "").replace("|", "\\|").replace("\n", " ")
    if len(summ) > 170:
        summ = summ[:167] + "..."
    note = (m.get("note") or "").replace("|", "\\|")
    fin = res.get(d, "")
    if m.get("obsolete"):
        fin = "obsolete"
    elif m.get("inert_on_head"):
        fin = "inert on HEAD"
    print(f"| {d} | {summ} | {m.get('first_try', '')} | {fin} | {note} |")
