#!/usr/bin/env python3
"""Regenerate MANIFEST.json from the table below (keeps the file valid while checks are being added)."""
import json, os
V = os.path.dirname(os.path.dirname(os.path.abspath(__file__)))
CHECKS = {
 "C01": dict(engine="expr", cat="translation_validation", tech="TLA+ reference semantics (Term.tla/BVBits.tla) evaluated by TLC on recorded construction events; trace validation at constant level",
   text="Every construction event (term the caller wrote, tree claripy returned, values of claripy's Z3 translation) is validated by TLC against the SMT-LIB semantics written in TLA+ (spec/Term.tla): equality under ALL assignments for widths<=3 (bounded-exhaustive depth<=2 trees), sampled assignments for rule-directed and random deep trees at widths 1..128. An independent Z3 equivalence query is the second opinion before any alarm.",
   note="Trusted: TLC, the TLA+ semantics (self-tested against Z3 in setup), Python. Exhaustive only in the small scopes listed in the evidence; larger widths sampled.", ref="5 C01"),
}
NOT_YET = "check not built yet in this round (planned in DESIGN.md section 5); not claimed"
def main():
    props = [json.loads(l)["id"] for l in open(os.path.join(V, "properties.jsonl"))]
    checks = []
    for pid in props:
        c = CHECKS.get(pid)
        if not c: continue
        checks.append({
            "property_id": pid,
            "quick_cmd": f"./check {pid} --tier quick",
            "thorough_cmd": f"./check {pid} --tier thorough",
            "evidence_file": f"/verif/evidence/{pid}.json",
            "replay_cmd_template": f"./check {pid} --replay {{path}}",
            "engine": c["engine"],
            "level_claimed": {"category": c["cat"], "text": c["text"], "design_ref": "DESIGN.md " + c["ref"]},
            "level_note": c["note"],
            "technique": c["tech"],
        })
    m = {
        "version": 1,
        "setup_cmd": "./setup.sh",
        "hooks": {"guard": "CLARIPY_VERIF", "enable": "no source hooks: checks wrap claripy at run time from the harness (CLARIPY_VERIF=1 is exported by ./check for the wrappers); /repo is imported from its working tree by fresh interpreters",
                  "baseline_off_cmd": "cd /repo && /venv/bin/python -m pytest -ra -q -p no:cacheprovider --timeout=900 --continue-on-collection-errors",
                  "source_commits": [], "add_only": True},
        "engines": [
            {"name": "expr", "path": "harness/eng_expr.py", "serves_properties": ["C01", "C04", "C05"], "kind_free_text": "construction events -> TLC (TraceExpr.tla) constant-level trace validation against Term.tla"},
        ],
        "checks": checks,
        "notes": "Model-based verification with explicit TLA+ specs under /verif/spec; see DESIGN.md. fix: commits in /repo are listed in known_findings.json as 'fixed:' entries.",
        "not_applicable": [{"property_id": p, "reason": NOT_YET} for p in props if p not in CHECKS],
    }
    json.dump(m, open(os.path.join(V, "MANIFEST.json"), "w"), indent=1)
    print("MANIFEST.json:", len(checks), "checks,", len(m["not_applicable"]), "not claimed")
if __name__ == "__main__":
    main()
