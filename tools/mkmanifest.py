#!/usr/bin/env python3
"""Regenerate MANIFEST.json from the table below (keeps the file valid while checks are being added)."""
import json, os
V = os.path.dirname(os.path.dirname(os.path.abspath(__file__)))
CHECKS = {
 "C01": dict(engine="expr", cat="translation_validation", tech="TLA+ reference semantics (Term.tla/BVBits.tla) evaluated by TLC on recorded construction events; trace validation at constant level",
   text="Every construction event (term the caller wrote, tree claripy returned, values of claripy's Z3 translation) is validated by TLC against the SMT-LIB semantics written in TLA+ (spec/Term.tla): equality under ALL assignments for widths<=3 (bounded-exhaustive depth<=2 trees), sampled assignments for rule-directed and random deep trees at widths 1..128. An independent Z3 equivalence query is the second opinion before any alarm.",
   note="Trusted: TLC, the TLA+ semantics (self-tested against Z3 in setup), Python. Exhaustive only in the small scopes listed in the evidence; larger widths sampled.", ref="5 C01"),
}
EXPR_TECH = CHECKS["C01"]["tech"]
CHECKS["C04"] = dict(engine="expr", cat="exploration", tech=EXPR_TECH,
  text="Boundary constructions (shift/rotate amounts near 2^w, 2^62, 2^64-1; widths 1,7,8,9,63,64,65,128; If operands mixing constants and symbolic trees under every operator; Reverse of non-byte widths) plus the exhaustive small-width and rule-directed streams are built through the public API under a wall-clock and address-space budget; TLC (TraceExpr.tla) accepts only: an expression, ClaripyZeroDivisionError when a divisor is identically zero, a claripy error for byte-reversal of a non-byte width. Any other exception, Timeout or MemoryError symbol is a violation.",
  note="Hang = 10 s per construction, memory = 2 GiB address space: bounded observations. FP/string constructions are exercised by the C02/C03 engines (outcome clause).", ref="5 C04")
CHECKS["C05"] = dict(engine="expr", cat="exploration", tech=EXPR_TECH,
  text="For every node of every result produced by construction, rewriting, folding, annotation changes, substitution, Z3 abstraction/simplify, canonicalisation and ITE relocation, TLC recomputes width, free variables, depth and (for concrete nodes) the value from the serialised tree with Term.tla and compares with the attributes claripy reports (length, variables superset, symbolic flag, depth, concrete_value).",
  note="Metadata is compared with a recomputation over the tree claripy holds; streams as C01 plus a seeded stream of annotate/replace/simplify/canonicalize operations at widths 1..64.", ref="5 C05")
CHECKS["C02"] = dict(engine="fp", cat="exploration", tech="TLA+ IEEE-754 reference semantics (FP.tla, arbitrary (eb,sb) on bit sequences) evaluated by TLC on recorded fold/solve events (TraceFP.tla)",
  text="Every FP operator and conversion is applied to all pairs of a pool of about 45 values per format (signed zeros, subnormals, infinities, NaN, ties, 2^24+1, 2^53+1, 2^63, ...) in all five rounding modes, once folded through the public constructors and once solved through a claripy solver with the operands pinned; TLC evaluates FP.tla on the operand bit patterns and compares bit-for-bit (NaN as a class, SMT-LIB-unspecified results accept anything). Z3's FPA theory is the second opinion before any alarm, and FP.tla itself is self-tested against Z3.",
  note="Bounded by the operand pools and one level of depth-2 composition; known defects of the pinned tree are exact failing-input sets (findings/C02-exact*.txt).", ref="5 C02")
CHECKS["C03"] = dict(engine="str", cat="exploration", tech="TLA+ SMT-LIB string semantics (Str.tla on code-point sequences, 64-bit wrap-around through BVBits) evaluated by TLC on recorded fold/solve/literal events (TraceStr.tla)",
  text="Every string operator on all tuples of a pool of strings (NUL, backslashes, regex metacharacters, newline, escape look-alikes, BMP and astral code points, numerals with sign/space/20+ digits) and boundary indices (0,1,|s|-1,|s|,|s|+1,2^63,2^64-1): folded result, solved result and the code points Z3 actually holds for each constant are compared by TLC with Str.tla.",
  note="Bounded by the pools; solver side through SolverStrings/Z3; known defects are exact failing-input sets (findings/C03-exact*.txt).", ref="5 C03")
CHECKS["C08"] = dict(engine="util", cat="exploration", tech="TLA+ semantics of the utilities (UtilSem.tla over Term.tla: simultaneous substitution on the held AST, alpha-equivalence, first-match / table-lookup / exclusive-cover semantics, documented slices) evaluated by TLC on recorded calls (TraceExpr.tla)",
  text="replace / replace_dict, canonicalize, excavate_ite, burrow_ite, ite_cases, ite_dict (all 256 key sets of a 3-bit index: linear and binary-search encodings, every median split), reverse_ite_cases, chop, get_byte(s) and identical are called on nested-If trees and C01-style terms at widths <= 3 (all assignments) and 8..64; TLC computes the specification result itself and compares (structurally for substitution and renaming, semantically under every assignment for the rest).",
  note="Exhaustive at width <= 3 within the generated shapes; identical() exceptions are informational. Known defects are exact failing-input sets plus predicates for seeded streams.", ref="5 C08")
CHECKS["C09"] = dict(engine="util", cat="translation_validation", tech="TLA+ reference semantics (Term.tla) and SMT-LIB meaning of every mapped Z3 declaration kind (UtilSem.tla: Z3Apply) evaluated by TLC on recorded simplify round trips and Z3-side abstractions",
  text="claripy.simplify (AST -> Z3 tactics -> AST) on the C01 term streams must return a term equivalent under every assignment (width <= 3) / sampled assignments (8..64) and never fail on BV/Bool input; terms built directly with the z3 API for each declaration kind of the reverse operator map are abstracted and compared with the SMT-LIB meaning written in TLA+ (bvsmod follows the divisor); outcomes of simplify on FP / string Boolean expressions are recorded.",
  note="Solver.simplify() keeping the model set is covered by the solver engine (SolverAbs.Simplify). Z3's own simplifier is trusted only through the equivalence check of its output.", ref="5 C09")
CHECKS["C10"] = dict(engine="truth", cat="exploration", tech="TLA+ validity check (Term.tla, all assignments) by TLC on recorded histories of is_true / is_false answers with the per-backend truth caches as state",
  text="All Boolean terms of the exhaustive small-width stream are queried through claripy.is_true/is_false, the Bool methods and the Z3 backend, before and after building structurally related terms and after downsize(); every True answer, first-time or re-served from a cache, must hold (fail) under every assignment. At widths 8..64 a True answer is only refuted on sampled assignments. Solver-level is_true/is_false relative to constraints and extra constraints is part of every solver history (C11-C18 traces).",
  note="False answers carry no information and are always accepted.", ref="5 C10")
VSA_TECH = "TLA+ strided-interval domain (SI.tla: Gamma, WF, soundness predicates over SMT-LIB operations on naturals) evaluated by TLC on recorded abstract operations (TraceSI.tla)"
def vsa(pid, text, note):
    CHECKS[pid] = dict(engine="vsa", cat="exploration", tech=VSA_TECH, text=text, note=note, ref="5 " + pid)
vsa("C21", "Every transfer function (add, sub, mul, udiv, sdiv, mod, neg, not/and/or/xor, shifts by interval amounts, extensions, extract, concat, the ten comparisons), through both the BackendVSA entry point and the named method, on ALL ordered pairs of well-formed intervals of width 1..3 (operand set certified by TLC against WFSet), one level of closure under the operations, all unary and a seeded share of pairs at width 4, sampled member pairs at 8..64 bits (thorough): TLC checks gamma(result) contains op(x, y) for every member pair (division by zero and Reverse of non-constants exempt).",
    "Exhaustive at width <= 3 over well-formed operands; directly constructed ill-formed triples are not judged. The pinned tree's many unsound cases are exact failing-input sets (findings/C21-exact.txt); seeded tiers draw only from operators that are sound there.")
vsa("C22", "union / least_upper_bound / widen contain both operands, intersection contains the common members, and eval(n) / min / max (signed, unsigned) / cardinality / solution agree with the member set, over the same interval populations and triples at width <= 2.",
    "As C21.")
vsa("C23", "DiscreteStridedIntervalSet (incl. the collapse past a lowered cardinality limit) and region ValueSets: every operation contains every concrete result of its members (per region for value sets) and the queries agree with the members, at width <= 2 exhaustively and a seeded width-3 sample.",
    "Unsupported operand combinations (TypeError / NotImplemented from claripy) are counted, not judged.")
vsa("C24", "For terms over variables annotated with strided intervals, TLC evaluates the term (Term.tla) under every assignment drawn from the intervals and checks the value is in gamma(backends.vsa.convert(term)) (truth value in the BoolResult); SolverVSA eval / min / max / satisfiable against the over-approximation relation.",
    "Depth-1 shapes over all well-formed pairs at width <= 2, sliced at width 3, plus a fixed term catalogue.")
vsa("C25", "constraint_to_si(c) -> (sat, [(expr, bound)]): if some assignment satisfies c then sat must be True and under every satisfying assignment every expr lies in gamma(bound); all shapes x comparisons x constants at width <= 4, annotated variables, And/Or/Not combinations.",
    "constraint_to_si exceptions are recorded, not judged.")
CHECKS["C06"] = dict(engine="store", cat="model_checking", tech="TLA+ state machine of the hash-cons store (ExprStore.tla: Build / Annotate / BVVk / Drop; invariants Inj, Faithful, RefLive, Closed, Canon) explored by TLC; behaviours replayed on the real claripy and validated by TLC (TraceStore.tla)",
  text="TLC explores every interleaving of builds, annotations, BVV constructions and weak-reference deaths over seven alphabets of structural keys whose annotation contents collide under Python's hash() (-1/-2, 2^61-1/0, 2^61/1, low-16-bit twins, constant-__hash__ classes, equal-field RegionAnnotations, keys differing in one component incl. width) or sit next to the one-byte markers of the structural hash (None/15, True/31, False/46, 1/0 in annotation fields; ESI(4) next to BVV(15, 4)); one history per reachable state is replayed on the real store (strong reference per live id, Drop = del + gc.collect()); after every step the identity partition and the serialised nodes are recorded together with the request, and TLC checks Inj (same key iff same object) and Faithful (what came back has the requested key). Pools of <= 2000 expressions from the expression streams are checked pairwise as well.",
  note="Bounds: <= 6 live nodes, <= 8 steps per alphabet; the as-coded reading of the model only predicts, verdicts come from the recorded runs.", ref="5 C06")
CHECKS["C07"] = dict(engine="annot", cat="exploration", tech="TLA+ annotation contract (TraceAnnot.tla over Term.tla: UnelimOK, unelim-moved, RelocOK with relocate() images, simplify top/reloc, solver avoid clause) evaluated by TLC on recorded constructions",
  text="Depth <= 2 trees at width 2 with every leaf and inner node decorated with each subset of eliminatable / uneliminatable / relocatable test annotations (own id per node, relocatable ones in a verbatim and a tagging flavour), the shortcut paths (If with constant condition, x+0, x^x, x&0, Extract of Concat ...), explicit claripy.simplify and Solver.simplify with SimplificationAvoidanceAnnotation: TLC checks that no sub-expression carrying a non-eliminatable non-relocatable annotation disappears, every relocatable annotation of an argument is on the result, simplify keeps top annotations, and protected constraints are unchanged.",
  note="Explicit remove/clear of annotations is outside the clause. Known shortcut-path defects are exact sets + predicates.", ref="5 C07")
SOLVER_TECH = "TLA+ abstract solver algebra (SolverAbs.tla) + trace validation by TLC (TraceSolver.tla) of recorded histories on the real frontends"
SOLVER_NOTE = "Trusted: TLC, Term.tla semantics, Z3 inside claripy only as the system under test. Variables of width <= 3 so TLC enumerates every model; histories are seeded-random (length <= 10 + probe battery) over fixed constraint alphabets, REUSE_Z3_SOLVER on and off."
def solver(pid, text, cat="model_checking", ref=None):
    CHECKS[pid] = dict(engine="solver", cat=cat, tech=SOLVER_TECH, text=text, note=SOLVER_NOTE, ref=ref or ("5 " + pid))
solver("C11", "Every public call of random histories on Solver / SolverCacheless / SolverStrings (with a probe battery of exhaustive evals, signed/unsigned min/max and solution queries after each history) is checked by TLC against the allowed-outcome relation of SolverAbs at the abstract state (set of models) computed from the logged inputs only.")
solver("C12", "TLC explores the refined partition model spec/SolverComposite.tla (children as groups of connected variables, registration dictionary, unchecked set, _unsat flag; actions Add / Sat / Eval with simplify, merged solver, reabsorb and helper-constraint expansion / Simplify / Split) with the refinement property AnswerStep (every answer is the one of the conjunction of all added constraints) and the invariants RegDisjoint, RegWithinVars, Coverage, FlagSound, CheckedSat; every reachable state x every input is replayed on the real SolverComposite, the observed partition is compared with the model's, and every call is validated by TLC against SolverAbs. Plus seeded SolverComposite histories over three variables whose constraints connect and disconnect groups (adds, all queries with bridging extra constraints, branch, simplify, split, combine, merge) and a probe battery ending with the full joint model set.")
KN = "; knowledge monitor Knowledge.tla (no term semantics, any width) validating recordings of the repository's own test-suite and of wide-width histories (harness/recorder.py)"
CHECKS["C11"]["tech"] = SOLVER_TECH + KN + "; refined cache model SolverCache.tla explored by TLC (refinement property + 4 invariants), its states x inputs replayed on the real class"
CHECKS["C12"]["tech"] = SOLVER_TECH + KN + "; refined partition model SolverComposite.tla explored by TLC (refinement property + 5 invariants), its states x inputs replayed on the real class"
solver("C13", "SolverReplacement (default and auto_replace=False), SolverHybrid in exact mode validated against the exact relation; SolverVSA and SolverHybrid(exact=False / approximate_first) against the over-approximation relation (never unsat on sat, never exclude a value, bounds on the right side).")
CHECKS["C13"]["tech"] = SOLVER_TECH + KN + "; refined model SolverReplacement.tla (Term.tla semantics) explored by TLC (3 invariants, action property OnlyKnown, strict property refuted = the known finding), its states x inputs replayed on the real class with the replacement dictionary compared"
solver("C14", "Branch-heavy histories on trees of up to 5 solver objects of every frontend class; isolation is per-id correctness in SolverAbs (Branch copies the model set, no later action on one id mentions the other); probe battery on every live id.")
CHECKS["C14"]["tech"] = SOLVER_TECH + "; refined model SolverCompositeCow.tla (a SolverComposite and its branch sharing child objects: ownership, claiming) explored by TLC (refinement property per composite + 3 invariants, negative control), its states x inputs replayed on the real class and its branch with both partitions compared"
solver("C15", "merge (with and without ancestor), combine and split on solvers produced by random histories: TLC computes the documented model sets (union of condition_i /\\ models_i, intersection, variable-disjoint parts carrying every conjunct and jointly equivalent) and checks the results and all later answers of the results.")
solver("C16", "Tracked Solver / SolverCacheless / SolverComposite histories with unsat_core(): TLC checks empty core on satisfiable sets, every element a constraint that was added (or currently held), and unsatisfiability of the conjunction of the core by enumeration.")
solver("C17", "Fault injection: z3.Solver.check returns unknown (timeout / resource limit / other) at the k-th check of a random operation; TLC requires a claripy error for the faulted call and validates every later answer of the solver and its branches against the unchanged model set.", cat="fault_enumeration")
solver("C18", "Histories with in-process pickle round trips of every frontend class after arbitrary prefixes; the unpickled solver is a new id with the same model set in SolverAbs and every later answer of both copies is validated.")
CHECKS["C26"] = dict(engine="values", cat="exploration", tech="TLC re-evaluates constraints and expression under a witness model with Term.tla at any width (TraceValues.tla); pinned FP / string values compared bit for bit; small-width solver histories validated against SolverAbs",
  text="Every value returned by eval / batch_eval / min / max (before and after other queries, five frontend classes, widths 1..256) must be realised by a model: an independent cache-less query supplies a witness assignment which TLC does not trust but checks (all constraints hold, the expression evaluates to the value); a missing witness is value-not-real. FP (NaN, signed zeros, infinities, subnormals) and string (NUL, escape look-alikes, astral) variables pinned by constraints must come back bit-identical. Values served from caches after branch/add histories are validated through the solver traces.",
  note="Witness search uses Z3 through claripy; soundness of an accepted value rests on TLC's evaluation only.", ref="5 C26")
CHECKS["C20"] = dict(engine="threads", cat="model_checking", tech="TLC explores all interleavings of thread calls (Threads.tla), schedules replayed with a baton on real threads; every thread's recorded trace validated by TLC against SolverAbs (TraceThreads.tla)",
  text="TLC enumerates every interleaving of 3 threads x 3 (thorough: 4) public calls and checks that a thread's abstract solver state depends on its own calls only and that Z3 contexts are private; a seeded sample (thorough: thousands) of the complete schedules is replayed on real threads with each call atomic, plus free-running groups of 2..16 threads under switch intervals 5 ms / 0.1 ms / 10 us. Each thread's trace (history + probe battery) must be a behaviour of SolverAbs for that thread's own history; a crashed or hung thread and a shared or changing Z3 context are violations.",
  note="Below API-call granularity interleavings are sampled, not enumerated.", ref="5 C20")
CHECKS["C19"] = dict(engine="gc", cat="model_checking", tech="PlusCal/TLA+ line-level model (GcGuard.tla) exhaustively checked by TLC; transition-cover replay on the real _enter_z3/_exit_z3/condom under a deterministic line-level scheduler; recorded traces validated by TLC against GcGuardAbs.tla",
  text="TLC explores every line-level interleaving of up to 3 threads with nested enter/exit scripts and both initial GC states and checks: GC disabled while a call is in flight, counter never negative, flag restored. Every edge of the dumped state graph is replayed on the real functions (lock and gc substituted at run time), the projected state and the enabled set are compared with the model after every step (bounded refinement check), and every recorded run is validated by TLC against the abstract spec, which alone produces verdicts; code that no longer follows the line-level model falls back to exhaustive exploration of the real code's interleavings.",
  note="Trusted: TLC, CPython line events as the grain of atomicity (one source line atomic), the scheduler. Bounds: <= 3 threads, nesting <= 2. SIGINT handling in condom is not modelled.", ref="5 C19")
NOT_YET = "check not built yet in this round (planned in DESIGN.md section 5); not claimed"
def main():
    props = [json.loads(l)["id"] for l in open(os.path.join(V, "properties.jsonl"))]
    checks = []
    for pid in props:
        c = CHECKS.get(pid)
        if not c: continue
        checks.append({
            "property_id": pid,
            "quick_cmd": f"./check {pid} --tier quick",
            "thorough_cmd": f"./check {pid} --tier thorough",
            "evidence_file": f"/verif/evidence/{pid}.json",
            "replay_cmd_template": f"./check {pid} --replay {{path}}",
            "engine": c["engine"],
            "level_claimed": {"category": c["cat"], "text": c["text"], "design_ref": "DESIGN.md " + c["ref"]},
            "level_note": c["note"],
            "technique": c["tech"],
        })
    m = {
        "version": 1,
        "setup_cmd": "./setup.sh",
        "hooks": {"guard": "CLARIPY_VERIF", "enable": "no source hooks: checks wrap claripy at run time from the harness (CLARIPY_VERIF=1 is exported by ./check for the wrappers); /repo is imported from its working tree by fresh interpreters",
                  "baseline_off_cmd": "cd /repo && /venv/bin/python -m pytest -ra -q -p no:cacheprovider --timeout=900 --continue-on-collection-errors",
                  "source_commits": [], "add_only": True},
        "engines": [
            {"name": "expr", "path": "harness/eng_expr.py", "serves_properties": ["C01", "C04", "C05"], "kind_free_text": "construction events -> TLC (TraceExpr.tla) constant-level trace validation against Term.tla"},
            {"name": "store", "path": "harness/eng_store.py", "serves_properties": ["C06"], "kind_free_text": "ExprStore.tla exploration -> replay -> TraceStore.tla"},
            {"name": "annot", "path": "harness/eng_annot.py", "serves_properties": ["C07"], "kind_free_text": "annotated constructions -> TraceAnnot.tla"},
            {"name": "util", "path": "harness/eng_util.py", "serves_properties": ["C08", "C09"], "kind_free_text": "utility / simplify events -> TLC (TraceExpr.tla + UtilSem.tla)"},
            {"name": "truth", "path": "harness/eng_truth.py", "serves_properties": ["C10"], "kind_free_text": "truth-query histories -> TLC (TraceExpr.tla)"},
            {"name": "fp", "path": "harness/eng_fp.py", "serves_properties": ["C02"], "kind_free_text": "fold/solve events -> TLC (TraceFP.tla) against FP.tla"},
            {"name": "str", "path": "harness/eng_str.py", "serves_properties": ["C03"], "kind_free_text": "fold/solve/literal events -> TLC (TraceStr.tla) against Str.tla"},
            {"name": "vsa", "path": "harness/eng_vsa.py", "serves_properties": ["C21", "C22", "C23", "C24", "C25"], "kind_free_text": "abstract-domain operations -> TLC (TraceSI.tla) against SI.tla"},
            {"name": "values", "path": "harness/eng_values.py", "serves_properties": ["C26"], "kind_free_text": "returned values + witness models -> TLC (TraceValues.tla)"},
            {"name": "threads", "path": "harness/eng_threads.py", "serves_properties": ["C20"], "kind_free_text": "Threads.tla schedules -> baton replay; per-thread traces -> TraceThreads.tla"},
            {"name": "gc", "path": "harness/eng_gc.py", "serves_properties": ["C19"], "kind_free_text": "TLC state graph of GcGuard.tla -> path cover replayed by harness/sched.py on the real code -> TraceGc.tla"},
            {"name": "solver", "path": "harness/eng_solver.py", "serves_properties": ["C11", "C12", "C13", "C14", "C15", "C16", "C17", "C18"], "kind_free_text": "solver histories on real frontends -> TLC (TraceSolver.tla) trace validation against SolverAbs.tla"},
        ],
        "checks": checks,
        "notes": "Model-based verification with explicit TLA+ specs under /verif/spec; see DESIGN.md. fix: commits in /repo are listed in known_findings.json as 'fixed:' entries.",
        "not_applicable": [{"property_id": p, "reason": NOT_YET} for p in props if p not in CHECKS],
    }
    json.dump(m, open(os.path.join(V, "MANIFEST.json"), "w"), indent=1)
    print("MANIFEST.json:", len(checks), "checks,", len(m["not_applicable"]), "not claimed")
if __name__ == "__main__":
    main()
