#!/bin/sh
# tools/seeds.sh "C11 C12" "1 2 3"  : run quick checks for several seeds, print one line each
for p in $1; do for sd in $2; do
  out=$(VERIF_SEED=$sd timeout 900 ./check $p --tier quick 2>&1); rc=$?
  echo "$p seed=$sd rc=$rc $(echo "$out" | grep -E '^(OK|VIOLATION|MACHINERY)' | head -2 | cut -c1-160 | tr '\n' ' ')"
  if [ $rc -ne 0 ]; then cp -r replay replay-$p-$sd 2>/dev/null; fi
done; done
