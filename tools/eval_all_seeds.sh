#!/bin/sh
# tools/eval_all_seeds.sh [jobs] : run every archived seeded change (seeded/<P>-<k>/) against the quick check of its own
# property (tools/try_seed.sh: scratch worktree of /repo HEAD, never /repo itself) and write seeded/RESULTS.txt
J=${1:-3}
cd /verif
ls -d seeded/C??-? | xargs -P $J -I{} sh -c 'p=$(basename {} | cut -c1-3); r=$(tools/try_seed.sh /verif/{} $p 2>&1 | tr "\n" " " | cut -c1-400); echo "$(basename {}) $r"' > /tmp/seed-results.$$ 
sort /tmp/seed-results.$$ > seeded/RESULTS.txt; rm -f /tmp/seed-results.$$
grep -c "rc=1 VIOLATION" seeded/RESULTS.txt
