#!/bin/sh
# offline setup: syntax-check every spec module with SANY; nothing is downloaded or built outside /verif
cd "$(dirname "$0")" || exit 2
rc=0
cd spec || exit 2
for f in *.tla; do
  if ! java -cp /opt/veriftools/tla/tla2tools.jar:/opt/veriftools/tla/CommunityModules-deps.jar tla2sany.SANY "$f" >/tmp/sany.$$ 2>&1; then
    echo "SANY failed on $f"; tail -5 /tmp/sany.$$; rc=1
  fi
done
rm -f /tmp/sany.$$
cd ..
mkdir -p evidence replay
exit $rc
