"""./check dispatcher"""
from __future__ import annotations

import argparse
import os

from . import common as C


def main():
    ap = argparse.ArgumentParser()
    ap.add_argument("pid")
    ap.add_argument("--tier", default=os.environ.get("VERIF_TIER", "quick"))
    ap.add_argument("--replay")
    ap.add_argument("--regen", action="store_true", help="maintenance: rewrite the exact known-failing-input set")
    a = ap.parse_args()
    tier = a.tier if a.tier in ("quick", "thorough") else "quick"

    def run():
        if a.pid in ("C01", "C04", "C05"):
            from . import eng_expr
            return eng_expr.check(a.pid, tier, regen=a.regen)
        raise C.MachineryError("no check for " + a.pid)

    C.main_wrapper(run)


if __name__ == "__main__":
    main()
