"""./check dispatcher"""
from __future__ import annotations

import argparse
import importlib
import os

from . import common as C

ENGINES = {
    "C01": "eng_expr", "C04": "eng_expr", "C05": "eng_expr",
    "C02": "eng_fp", "C03": "eng_str",
    "C06": "eng_store", "C07": "eng_annot", "C08": "eng_util", "C09": "eng_util", "C10": "eng_truth",
    "C11": "eng_solver", "C12": "eng_solver", "C13": "eng_solver", "C14": "eng_solver", "C15": "eng_solver",
    "C16": "eng_solver", "C17": "eng_solver", "C18": "eng_solver", "C26": "eng_values",
    "C19": "eng_gc", "C20": "eng_threads",
    "C21": "eng_vsa", "C22": "eng_vsa", "C23": "eng_vsa", "C24": "eng_vsa", "C25": "eng_vsa",
}


def main():
    ap = argparse.ArgumentParser()
    ap.add_argument("pid")
    ap.add_argument("--tier", default=os.environ.get("VERIF_TIER", "quick"))
    ap.add_argument("--replay")
    ap.add_argument("--regen", action="store_true", help="maintenance: rewrite the exact known-failing-input set")
    a = ap.parse_args()
    tier = a.tier if a.tier in ("quick", "thorough") else "quick"

    def run():
        if a.pid not in ENGINES:
            raise C.MachineryError("no check for " + a.pid)
        try:
            mod = importlib.import_module("harness." + ENGINES[a.pid])
        except ModuleNotFoundError as ex:
            raise C.MachineryError(f"engine for {a.pid} not built: {ex}") from ex
        if a.replay:
            return mod.replay(a.pid, a.replay)
        return mod.check(a.pid, tier, regen=a.regen)

    C.main_wrapper(run, a.pid, tier)


if __name__ == "__main__":
    main()
