"""Generators of inputs for the utility engine (C08): nested-If trees, substitution maps, case lists, switch
tables, byte-slicing inputs, identical() pairs.  All terms are in the shared term language (harness/term.py)."""
from __future__ import annotations

import itertools
import random

from .term import BVS, BVV, BoolS, BoolV, T, width, is_bool, key

OPS2 = ["__add__", "__sub__", "__and__", "__or__", "__xor__", "__mul__"]
CMP3 = ["__eq__", "ULT", "SLE"]


def alphabet(W):
    x, y = BVS("x", W), BVS("y", W)
    c, d = BoolS("c"), BoolS("d")
    m = (1 << W) - 1
    K = [BVV(0, W), BVV(1, W), BVV(m, W)] if W > 1 else [BVV(0, W), BVV(1, W)]
    conds = [c, d, T("Not", c), T("ULT", x, y), T("__eq__", x, K[1]), T("And", c, d)]
    return x, y, c, d, K, conds


def core_if1(W):
    """small set of depth-1 If terms (distinct branches)"""
    x, y, c, d, K, conds = alphabet(W)
    out = []
    for cd in (c, d, T("ULT", x, y)):
        for a in (x, y, K[1]):
            for b in (x, y, K[-1]):
                if a != b:
                    out.append(T("If", cd, a, b))
    return out


def core_trees(W):
    """deterministic nested-If trees of depth <= 3 over x, y (BV) and c, d (Bool): the shapes excavate_ite and
    burrow_ite distinguish (If under an operator on either side, two Ifs with the same / negated / different
    condition, If of two operations sharing the operator and all but one operand, If of Ifs)"""
    x, y, c, d, K, conds = alphabet(W)
    L = [x, y, K[1], K[-1]]
    I1 = core_if1(W)
    out = list(I1)
    for i in I1:
        for op in OPS2:
            for l in L:
                out.append(T(op, i, l))
                out.append(T(op, l, i))
        for op in ("__invert__", "__neg__"):
            out.append(T(op, i))
        for cmp in CMP3:
            for l in L[:3]:
                out.append(T(cmp, i, l))
                out.append(T(cmp, l, i))
        out.append(T("ZeroExt", i, ints=(1,)))
        out.append(T("SignExt", i, ints=(2,)))
        out.append(T("Concat", i, x))
        out.append(T("Concat", K[1], i))
        if W >= 2:
            out.append(T("Extract", i, ints=(W - 1, 1)))
            out.append(T("Extract", i, ints=(0, 0)))
    # two Ifs under one operator: same condition, negated condition, different condition
    for i in I1[::3]:
        for j in I1[1::4]:
            for op in ("__add__", "__xor__", "__sub__"):
                out.append(T(op, i, j))
            ci = i[3][0]
            out.append(T("__add__", i, T("If", T("Not", ci), j[3][1], j[3][2])))
            out.append(T("ULT", i, j))
            out.append(T("__and__", i, j, x))
    # If of two operations that differ in exactly one operand (burrow candidates) and in more
    for cd in (c, T("ULT", x, y)):
        for op in ("__add__", "__and__", "__sub__", "__mul__"):
            for a in L:
                for b in L:
                    for b2 in L:
                        if b != b2:
                            out.append(T("If", cd, T(op, a, b), T(op, a, b2)))
                            out.append(T("If", cd, T(op, b, a), T(op, b2, a)))
            out.append(T("If", cd, T(op, x, y), T(op, y, x)))
            out.append(T("If", cd, T(op, x, K[1], y), T(op, x, K[-1], y)))
            out.append(T("If", cd, T(op, x, y), T("__xor__", x, y)))
            if op != "__sub__":
                # n-ary operations that differ in TWO operands (burrow_ite may only merge when exactly one differs)
                out.append(T("If", cd, T(op, x, K[1], y), T(op, x, K[-1], x)))
                out.append(T("If", cd, T(op, x, y, K[1]), T(op, y, x, K[1])))
                out.append(T("If", cd, T(op, x, K[1], y), T(op, y, K[1], T("__invert__", x))))
        # the same variadic operator with DIFFERENT operand counts (2 vs 3) and one difference in the common prefix,
        # in the extra operand only, or in both: nothing may be merged position-wise
        for op in ("__add__", "__and__", "__or__", "__xor__", "__mul__"):
            out.append(T("If", cd, T(op, x, y), T(op, x, K[1], y)))
            out.append(T("If", cd, T(op, x, K[1], y), T(op, x, y)))
            out.append(T("If", cd, T(op, x, y), T(op, x, y, K[1])))
            out.append(T("If", cd, T(op, x, y, K[-1]), T(op, x, y)))
            out.append(T("If", cd, T(op, y, x), T(op, y, K[-1], T("__invert__", x))))
            out.append(T("If", cd, T(op, T("__invert__", x), y), T(op, T("__invert__", x), x, y)))
        if W >= 2:
            out.append(T("If", cd, T("Concat", x, y), T("Concat", x, T("Extract", y, ints=(W - 1, 1)), T("Extract", x, ints=(0, 0)))))
            out.append(T("If", cd, T("Concat", x, T("Extract", y, ints=(W - 1, 1)), T("Extract", y, ints=(0, 0))), T("Concat", x, x)))
            out.append(T("If", cd, T("Concat", y, x), T("Concat", x, T("Extract", x, ints=(W - 1, 1)), T("Extract", y, ints=(0, 0)))))
        out.append(T("If", cd, T("Concat", x, y, x), T("Concat", x, x, y)))
        out.append(T("If", cd, T("Concat", x, y, K[1]), T("Concat", y, y, K[-1])))
        for a in L[:2]:
            out.append(T("If", cd, T("__invert__", a), T("__invert__", L[2])))
            out.append(T("If", cd, T("ZeroExt", a, ints=(1,)), T("ZeroExt", L[3], ints=(1,))))
            if W >= 2:
                out.append(T("If", cd, T("Extract", a, ints=(W - 1, 1)), T("Extract", L[2], ints=(W - 1, 1))))
                out.append(T("If", cd, T("Extract", a, ints=(W - 1, 1)), T("Extract", a, ints=(W - 2, 0))))
        # Boolean-valued If of comparisons
        for cmp in CMP3:
            out.append(T("If", cd, T(cmp, x, y), T(cmp, x, K[1])))
            out.append(T("If", cd, T(cmp, x, y), T(cmp, K[1], y)))
    # If of Ifs / depth 3
    for i in I1[::2]:
        for j in I1[1::3]:
            out.append(T("If", d, i, j))
            out.append(T("If", T("Not", d), T("__add__", i, x), T("__add__", j, x)))
            out.append(T("__add__", T("If", d, i, j), y))
            out.append(T("If", i[3][0], T("__add__", i, K[1]), j))
            out.append(T("__xor__", T("__add__", i, x), T("__and__", j, y)))
            out.append(T("If", T("ULT", i, j), x, y))
            out.append(T("And", T("ULT", i, y), T("__eq__", j, x)))
            out.append(T("Not", T("__eq__", T("__add__", i, j), x)))
    return dedupe(out)


def dedupe(ts):
    seen, out = set(), []
    for t in ts:
        k = key(t)
        if k not in seen:
            seen.add(k)
            out.append(t)
    return out


def rand_tree(rng: random.Random, W, depth, want_bool=False):
    """random nested-If tree (If-heavy) over x, y, c, d"""
    x, y, c, d, K, conds = alphabet(W)

    def bo(dp):
        if dp <= 1 or rng.random() < 0.25:
            return rng.choice([c, d, c, d, BoolV(True), BoolV(False)])
        r = rng.random()
        if r < 0.45:
            return T(rng.choice(["__eq__", "__ne__", "ULT", "ULE", "SGT", "SLT"]), bv(dp - 1), bv(dp - 1))
        if r < 0.6:
            return T("Not", bo(dp - 1))
        if r < 0.8:
            return T(rng.choice(["And", "Or"]), bo(dp - 1), bo(dp - 1))
        return T("If", bo(dp - 1), bo(dp - 1), bo(dp - 1))

    def bv(dp, w=W):
        if dp <= 1 or rng.random() < 0.12:
            if w != W:
                return rng.choice([BVS("v%d" % w, w), BVV(rng.getrandbits(w), w)])
            return rng.choice([x, y, x, y, rng.choice(K), BVV(rng.getrandbits(W), W)])
        r = rng.random()
        if r < 0.42:
            return T("If", bo(dp - 1), bv(dp - 1, w), bv(dp - 1, w))
        if r < 0.8:
            op = rng.choice(OPS2 + ["__lshift__", "LShR", "__floordiv__", "SMod"])
            if op in ("__add__", "__and__", "__xor__", "__or__", "__mul__") and rng.random() < 0.15:
                return T(op, bv(dp - 1, w), bv(dp - 1, w), bv(dp - 1, w))
            return T(op, bv(dp - 1, w), bv(dp - 1, w))
        if r < 0.86:
            return T(rng.choice(["__invert__", "__neg__"]), bv(dp - 1, w))
        if r < 0.91 and w >= 2:
            n = rng.randrange(1, w)
            return T("Concat", bv(dp - 1, w - n), bv(dp - 1, n))
        if r < 0.96 and w >= 2:
            n = rng.randrange(1, w)
            return T(rng.choice(["ZeroExt", "SignExt"]), bv(dp - 1, w - n), ints=(n,))
        lo = rng.randrange(0, 2)
        return T("Extract", bv(dp - 1, w + lo + 1), ints=(lo + w - 1, lo))

    return bo(depth) if want_bool else bv(depth)


def tree_pool(job, rng):
    """the stream of nested-If trees a job asks for"""
    if job.get("trees") == "core":
        for W in job.get("widths", (1, 2, 3)):
            yield from core_trees(W)
    else:
        for _ in range(job["n"]):
            W = rng.choice(job.get("widths", (2, 3, 3, 3)))
            yield rand_tree(rng, W, rng.randint(2, job.get("depth", 4)), want_bool=rng.random() < 0.25)


# ----------------------------------------------------------------------------------------------
# chained canonicalisation: expressions canonicalised in turn with the (var_map, counter) of the previous call
# ----------------------------------------------------------------------------------------------

def canon_chains(W=3):
    x, y, z = BVS("x", W), BVS("y", W), BVS("z", W)
    c, d = BoolS("c"), BoolS("d")
    k = lambda v: BVV(v, W)     # noqa: E731
    pool = [x, T("__add__", x, k(5)), T("__add__", k(5), x), T("__add__", x, y), T("__mul__", y, k(3), x),
            T("__sub__", z, x), T("If", c, x, k(1)), T("If", d, T("__add__", y, k(1)), z),
            T("__xor__", T("__and__", k(6), y), z), T("ULT", x, k(2)), T("And", c, T("ULT", k(1), y)),
            T("__eq__", T("__add__", k(1), k(2), z), x), T("Or", d, c), T("Concat", k(1), z, k(2), y)]
    out = []
    for a in pool:
        for b in pool:
            out.append([a, b])
    for i, a in enumerate(pool):
        for j, b in enumerate(pool):
            if (i + 2 * j) % 5 == 0:
                out.append([a, b, pool[(i + j + 3) % len(pool)]])
                out.append([pool[(i * j + 1) % len(pool)], a, b])
    return out


def canon_chains_rand(rng, n):
    for _ in range(n):
        W = rng.choice([2, 3, 3])
        yield [rand_tree(rng, W, rng.randint(1, 3), want_bool=rng.random() < 0.3) if rng.random() < 0.8
               else rename(rand_tree(rng, W, 2), {"x": "z"}) for _ in range(rng.randint(2, 3))]


# ----------------------------------------------------------------------------------------------
# case lists and switch tables
# ----------------------------------------------------------------------------------------------

def case_alphabet(W):
    x, y, c, d, K, conds = alphabet(W)
    conds = [c, d, T("Not", c), T("ULT", x, K[-1]), T("__eq__", x, K[1]), T("Or", c, d), BoolV(True), BoolV(False)]
    vals = [x, y, K[0], K[1], T("__add__", x, K[1])]
    bvals = [c, d, BoolV(True), T("ULT", x, y)]
    return conds, vals, bvals


def case_lists_core(W):
    """all case lists of length <= 2 and a systematic family of length 3, 4 (overlapping conditions, repeated
    values so that the `v == sofar` shortcut of ite_cases is taken)"""
    conds, vals, bvals = case_alphabet(W)
    out = []
    for dflt in (vals[2], vals[1]):
        out.append(([], dflt))
        for c1 in conds:
            for v1 in vals:
                out.append(([(c1, v1)], dflt))
        for c1 in conds:
            for c2 in conds:
                for v1 in vals[:4]:
                    for v2 in vals[:4]:
                        out.append(([(c1, v1), (c2, v2)], dflt))
    dflt = vals[2]
    for cs in itertools.product(conds[:6], repeat=3):
        for vs in ((vals[0], vals[1], vals[3]), (vals[0], vals[0], vals[2]), (vals[3], vals[2], vals[2])):
            out.append((list(zip(cs, vs)), dflt))
    for cs in itertools.product(conds[:4], repeat=4):
        out.append((list(zip(cs, (vals[0], vals[3], vals[1], vals[0]))), dflt))
        out.append((list(zip(cs, (vals[2], vals[2], vals[1], vals[2]))), dflt))
    # Boolean-valued cases
    for c1 in conds[:6]:
        for c2 in conds[:6]:
            out.append(([(c1, bvals[0]), (c2, bvals[3])], bvals[2]))
            out.append(([(c1, bvals[2]), (c2, bvals[1])], BoolV(False)))
    return out


def case_lists_rand(rng, W, n):
    conds, vals, bvals = case_alphabet(W)
    for _ in range(n):
        k = rng.randint(0, 4)
        if rng.random() < 0.2:
            cs = [(rand_tree(rng, W, 2, want_bool=True), rng.choice(bvals)) for _ in range(k)]
            yield cs, rng.choice(bvals)
        else:
            cs = [(rng.choice(conds) if rng.random() < 0.6 else rand_tree(rng, W, 2, want_bool=True),
                   rng.choice(vals) if rng.random() < 0.7 else rand_tree(rng, W, 2)) for _ in range(k)]
            yield cs, rng.choice(vals)


def dicts_core(W=3):
    """every key set ⊆ 0..2^W-1 (all sizes 0..2^W: both the linear (<4) and the binary-search encoding, every
    median split), with two value patterns, two index expressions and two defaults"""
    x, y, c, d, K, conds = alphabet(W)
    n = 1 << W
    idx = [x, T("__add__", x, BVV(1, W)), T("If", c, x, y)]
    out = []
    for mask in range(1 << n):
        keys = [k for k in range(n) if (mask >> k) & 1]
        for variant in range(3):
            if variant == 0:
                kv = [(k, BVV((k * 3 + 1) % n, W)) for k in keys]
                i, dflt = idx[0], BVV(0, W)
            elif variant == 1:
                kv = [(k, y if k % 3 == 0 else BVV((n - 1 - k), W)) for k in reversed(keys)]
                i, dflt = idx[1], y
            else:
                if mask % 5 != 0:
                    continue
                kv = [(k, T("__add__", y, BVV(k, W))) for k in keys[1:] + keys[:1]]
                i, dflt = idx[2], BVV(n - 1, W)
            out.append((i, kv, dflt))
    return out


def dicts_rand(rng, n):
    for _ in range(n):
        W = rng.choice([2, 3, 4, 4])
        x, y, c, d, K, conds = alphabet(W)
        N = 1 << W
        keys = rng.sample(range(N), rng.randint(0, N))
        vals = [y, x, BVV(rng.getrandbits(W), W), T("__xor__", x, y)]
        kv = [(k, rng.choice(vals) if rng.random() < 0.4 else BVV(rng.getrandbits(W), W)) for k in keys]
        i = rng.choice([x, T("__add__", x, y), T("If", c, x, y), T("__invert__", x)])
        yield i, kv, rng.choice(vals)


# ----------------------------------------------------------------------------------------------
# byte utilities (widths 8..64)
# ----------------------------------------------------------------------------------------------

def slice_inputs(rng, s):
    z = BVS("z%d" % s, s)
    out = [z, BVV(rng.getrandbits(s), s), T("__add__", z, BVV(rng.getrandbits(s), s)),
           T("If", BoolS("c"), z, BVV(rng.getrandbits(s), s)), T("__invert__", z)]
    if s >= 2:
        h = s // 2
        out.append(T("Concat", BVS("p%d" % (s - h), s - h), BVS("q%d" % h, h)))
        out.append(T("Concat", BVV(rng.getrandbits(s - h), s - h), BVS("q%d" % h, h)))
        out.append(T("ZeroExt", BVS("q%d" % h, h), ints=(s - h,)))
    if s % 8 == 0:
        out.append(T("Reverse", z))
    return out


# ----------------------------------------------------------------------------------------------
# identical() pairs
# ----------------------------------------------------------------------------------------------

def identical_fixed():
    out = []
    for W in (3, 8):
        x, y, z = BVS("x", W), BVS("y", W), BVS("z", W)
        c, d = BoolS("c"), BoolS("d")
        k = lambda v: BVV(v, W)     # noqa: E731
        out += [
            (T("__add__", x, k(1)), T("__add__", x, k(2))),
            (T("__add__", x, k(1)), T("__add__", y, k(1))),
            (T("__add__", x, k(1)), T("__add__", x, k(1))),
            (T("__mul__", T("__invert__", T("__or__", y, k(2))), T("If", c, x, y)), T("__mul__", T("__or__", y, k(6)), y)),
            (T("__add__", x, y), T("__add__", y, x)),
            (T("__add__", x, y), T("__add__", x, x)),
            (T("__add__", x, x), T("__add__", x, y)),
            (T("__sub__", x, y), T("__sub__", y, x)),
            (T("__sub__", x, y), T("__sub__", y, z)),
            (x, y), (x, k(1)), (k(1), k(2)), (k(1), k(1)),
            (T("__and__", x, k(1)), T("__and__", x, k(3))),
            (T("If", c, x, y), T("If", d, x, y)),
            (T("If", c, x, y), T("If", c, y, x)),
            (T("If", c, x, k(1)), T("If", c, x, k(2))),
            (T("ULT", x, y), T("ULT", y, x)),
            (T("ULT", x, y), T("ULE", x, y)),
            (T("ULT", x, k(1)), T("ULT", x, k(2))),
            (T("ULT", x, k(1)), T("ULT", y, k(1))),
            (T("ULT", x, k(1)), T("ULT", x, k(1))),
            (T("__eq__", x, y), T("__eq__", x, z)),
            (T("And", c, d), T("And", d, c)),
            (T("And", c, d), T("And", c, d)),
            (T("And", c, d), T("Or", c, d)),
            (T("And", c, d), T("And", c, BoolS("e"))),
            (T("Not", c), T("Not", d)),
            (c, d), (c, c), (c, T("Not", c)),
            (T("And", c, T("ULT", x, k(1))), T("And", c, T("ULT", x, k(2)))),
            (T("And", c, T("ULT", x, k(1))), T("And", d, T("ULT", y, k(1)))),
        ]
    return out


def mutate_const(rng, t):
    """same shape, one constant changed (None when t has no constant)"""
    paths = []

    def walk(u, p):
        if u[0] == "BVV" and len(u[2]) > 0:
            paths.append(p)
        for i, a in enumerate(u[3]):
            walk(a, p + (i,))
    walk(t, ())
    if not paths:
        return None
    p = rng.choice(paths)

    def rebuild(u, q):
        if not q:
            w = len(u[2])
            v = sum(b << i for i, b in enumerate(u[2]))
            return BVV((v + rng.choice([1, 2, (1 << w) - 1])) & ((1 << w) - 1), w)
        args = list(u[3])
        args[q[0]] = rebuild(args[q[0]], q[1:])
        return [u[0], u[1], list(u[2]), args]
    return rebuild(t, p)


def rename(t, f):
    if t[0] in ("BVS", "BoolS"):
        return [t[0], f.get(t[1], t[1]), list(t[2]), []]
    return [t[0], t[1], list(t[2]), [rename(a, f) for a in t[3]]]
