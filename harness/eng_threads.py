"""C20: solvers used from several threads answer as if used alone.
K1: TLC explores spec/Threads.tla (all interleavings of NT threads x NCalls public calls; invariants Independent,
CtxPrivate) and exports the schedules; the harness replays them with a baton on real threads (each call atomic) and adds
free-running groups under varied switch intervals; every thread's trace is validated by TLC (TraceThreads.tla) against
SolverAbs and the context-ownership clause."""
from __future__ import annotations

import os
import random
import re
import shutil
import subprocess
import tempfile

from . import common as C


def explore(tier, seed):
    d = tempfile.mkdtemp(prefix="thr-", dir=C.scratch())
    shutil.copy(os.path.join(C.SPEC, "Threads.tla"), d)
    nt, nc = (3, 3) if tier == "quick" else (3, 4)
    with open(os.path.join(d, "Threads.cfg"), "w") as f:
        f.write(f"CONSTANTS\n NT = {nt}\n NCalls = {nc}\nSPECIFICATION Spec\nINVARIANT Independent\nINVARIANT CtxPrivate\n"
                "CHECK_DEADLOCK FALSE\n")
    cmd = ["java", "-XX:+UseParallelGC", "-Xmx4g", "-cp", C.TLA_CP, "tlc2.TLC", "-workers", "4", "-noGenerateSpecTE",
           "-metadir", os.path.join(d, "md"), "-config", "Threads.cfg", "-dump", os.path.join(d, "states"), "Threads.tla"]
    p = subprocess.run(cmd, cwd=d, capture_output=True, text=True, timeout=900)
    out = p.stdout + p.stderr
    st = C.tlc_stats(out)
    if st is None or "is violated" in out:
        raise C.MachineryError("Threads.tla exploration failed / invariant violated in the model:\n" + out[-2000:])
    scheds = []
    with open(os.path.join(d, "states.dump")) as f:
        for line in f:
            if line.startswith("/\\ hist = "):
                h = [int(x) for x in re.findall(r"\d+", line.split("=", 1)[1])]
                if len(h) == nt * nc:
                    scheds.append(h)
    shutil.rmtree(d, ignore_errors=True)
    return {"states": st["distinct"], "transitions": st["generated"], "complete_schedules": len(scheds), "NT": nt,
            "NCalls": nc}, scheds


def check(pid, tier, regen=False):
    seed = C.seed()
    R = C.Result(pid, "model_checking", tier)
    k1, scheds = explore(tier, seed)
    rng = random.Random(seed)
    nb = 96 if tier == "quick" else min(len(scheds), 3000)
    pick = rng.sample(scheds, min(nb, len(scheds)))
    n = 16
    jobs = []
    for k in range(n):
        part = pick[k::n]
        if part:
            jobs.append({"mode": "baton", "groups": len(part), "schedules": part, "nthreads": [k1["NT"]], "seed": seed * 100 + k,
                         "tag": "baton", "len": 6, "env": {"REUSE_Z3_SOLVER": "1" if k % 4 == 3 else "0"}})
    ng = 3 if tier == "quick" else 30
    for k in range(n):
        jobs.append({"mode": "free", "groups": ng, "nthreads": [2, 3, 4, 8] if k % 2 else [2, 3, 16], "seed": seed * 100 + 50 + k,
                     "tag": "free", "len": 8, "env": {"REUSE_Z3_SOLVER": "1" if k % 4 == 3 else "0"}})
    bad, stats = C.pipeline("w_threads", jobs, "TraceThreads.tla")
    st = C.merge_stats(stats)
    findings = C.load_findings(pid)
    from .eng_solver import match_finding, describe
    for _, tr, clause, extra in bad:
        k = int(extra)
        if k > 0:
            fid = match_finding(findings, tr, k, clause)
            if fid:
                R.add_known(fid["id"], fid["what"])
                continue
            R.add_violation({"property": pid, "clause": clause, "tid": tr["tid"], "step": k, "threads": tr["nthreads"],
                             "event": describe(tr["ev"][k - 1]), "vars": tr["vars"],
                             "alone": tr["solo"][k - 1] if k <= len(tr.get("solo", [])) else None,
                             "anntags": tr["ev"][k - 1].get("anntags"),
                             "history": [describe(e) for e in tr["ev"][:k]]})
        else:
            R.add_violation({"property": pid, "clause": clause, "tid": tr["tid"], "threads": tr["nthreads"],
                             "crash": tr.get("crash"), "ctx": [tr.get("ctx"), tr.get("ctx_end"), tr.get("main_ctx"), tr.get("all_ctx")]})
    R.coverage = {"states": k1["states"], "transitions": k1["transitions"],
                  "traces_validated_against_impl": st["events"], "samples": st["samples"][:2] + [{"schedule": pick[0]}],
                  "evaluations": st.get("calls", 0), "exploration": k1, "baton_schedules_replayed": len(pick),
                  "explanation": "states/transitions: TLC exploration of spec/Threads.tla (every interleaving of NT threads x "
                                 "NCalls calls); complete schedules exported, a seeded sample replayed with a baton on real "
                                 "threads; plus free-running groups of 2..16 threads at switch intervals 5 ms / 0.1 ms / 10 us; "
                                 "one validated trace per thread"}
    R.assumptions = ["below API-call granularity interleavings are sampled (free-running threads), not enumerated",
                     "each thread's history uses its own solver objects; expressions are shared through the hash-cons table"]
    return R.finish()
