"""Worker: run the repository's OWN test-suite (tests/ of $VERIF_REPO) under harness/recorder.py and hand the recorded
solver calls (one trace per test function) to TLC (spec/Knowledge.tla).  The tests' own assertions are not the oracle
here: the recorded answers are."""
from __future__ import annotations

import json
import os
import subprocess
import sys


def main():
    job = json.load(open(sys.argv[1]))
    prefix = sys.argv[2]
    out = prefix + ".0.ndjson"
    repo = os.environ.get("VERIF_REPO", "/repo")
    env = dict(os.environ, VERIF_REC_FILE=out)
    p = subprocess.run([sys.executable, "-m", "pytest", "-q", "-x", "-p", "no:cacheprovider", "-p", "harness.recorder",
                        "--timeout=900", *job.get("tests", ["tests"])], cwd=repo, env=env, capture_output=True, text=True,
                       timeout=3000)
    tail = (p.stdout or "")[-400:]
    n, calls = 0, 0
    if os.path.exists(out):
        with open(out) as f:
            for line in f:
                n += 1
                calls += len(json.loads(line)["ev"])
    else:
        open(out, "w").close()
    with open(prefix + ".stats.json", "w") as f:
        json.dump({"events": n, "calls": calls, "nontrivial": n, "outcomes": {"repo-test": n}, "samples": [],
                   "files": [[out, n]], "pytest_rc": p.returncode, "pytest_tail": tail}, f)


if __name__ == "__main__":
    main()
