"""Worker for C20: several threads run solver histories at the same time (own solver objects, shared expressions).

modes: "free"  — threads run freely under a varied sys.setswitchinterval;
       "baton" — a schedule (sequence of thread indices, exported from TLC's exploration of spec/Threads.tla or
                 seeded) decides which thread performs its next public call; each call is atomic.
Every thread's trace is written as one line and validated by TLC (TraceThreads.tla = SolverAbs per thread + the
context-ownership invariant).
"""
from __future__ import annotations

import json
import random
import sys
import threading

from . import w_solver as W
from .wlib import ShardWriter


_KEEP = []      # strong references: a context must stay alive so that its id() is not reused inside a run


def z3_ctx_id():
    import claripy
    try:
        c = claripy.backends.z3._context
        _KEEP.append(c)
        return id(c)
    except Exception:  # noqa: BLE001
        return 0


def run_group(hists, vars_, tag, schedule=None, switch=None):
    """run len(hists) histories concurrently; returns list of traces (one per thread)"""
    n = len(hists)
    results = [None] * n
    errors = [None] * n
    ctxs = [0] * n
    cond = threading.Condition()
    state = {"pos": 0, "done": [False] * n}

    def hook_for(i):
        if schedule is None:
            return None

        def hook(op_index):
            with cond:
                while True:
                    # skip schedule entries of finished threads
                    while state["pos"] < len(schedule) and state["done"][schedule[state["pos"]]]:
                        state["pos"] += 1
                    if state["pos"] >= len(schedule) or schedule[state["pos"]] == i:
                        break
                    cond.wait(timeout=0.5)
                if state["pos"] < len(schedule):
                    state["pos"] += 1
                cond.notify_all()
        return hook

    fresh = [[] for _ in range(n)]

    def body(i):
        try:
            ctxs[i] = z3_ctx_id()
            import claripy
            # symbols named by the library (no explicit name): two calls never denote the same variable, whoever calls
            fresh[i] = [next(iter(claripy.BVS("fr", 8).variables)) for _ in range(3)]
            tr, S, meta = W.run_history(hists[i], vars_, f"{tag}-t{i}", {}, step_hook=hook_for(i))
            A = {"vars": vars_, "W": vars_[0][1], "exprs": ALPHA["exprs"]}
            tr["ev"].extend(W.continue_history(W.probe_battery(A, sorted(S), i % 3), S, meta, vars_, {}))
            tr["ctx_end"] = z3_ctx_id()
            results[i] = tr
        except Exception as ex:  # noqa: BLE001
            errors[i] = type(ex).__name__ + ": " + str(ex)[:200]
        finally:
            with cond:
                state["done"][i] = True
                cond.notify_all()

    # groups are independent experiments: claripy's process-wide simplification cache (keyed by expression, but filled
    # with results that depend on per-thread state) would carry results of earlier groups into this one
    try:
        import claripy.algorithm.simplify as _cs
        _cs.simplification_cache.clear()
    except Exception:  # noqa: BLE001
        pass
    old = sys.getswitchinterval()
    if switch:
        sys.setswitchinterval(switch)
    ths = [threading.Thread(target=body, args=(i,), daemon=True) for i in range(n)]
    for t in ths:
        t.start()
    for t in ths:
        t.join(timeout=900)
    sys.setswitchinterval(old)
    out = []
    main_ctx = z3_ctx_id()
    for i in range(n):
        tr = results[i] or {"tid": f"{tag}-t{i}", "vars": vars_, "maxid": 1, "ev": []}
        tr["thread"] = i
        tr["nthreads"] = n
        tr["ctx"] = ctxs[i] % (1 << 30)
        tr["ctx_end"] = tr.get("ctx_end", 0) % (1 << 30)
        tr["main_ctx"] = main_ctx % (1 << 30)
        tr["all_ctx"] = [c % (1 << 30) for c in ctxs]
        tr["fresh"] = fresh[i]
        tr["other_fresh"] = [x for j in range(n) if j != i for x in fresh[j]]
        tr["crash"] = errors[i] or ("hung" if results[i] is None else "")
        out.append(tr)
    # the contexts only had to stay alive (ids not reused) while this group ran: holding every context of a long run
    # costs gigabytes
    del _KEEP[:]
    import gc
    gc.collect()
    return out


ALPHA = None


def solo_rec(ev):
    return {"call": ev["call"], "ret": ev["ret"], "failed": ev["exc"] != "", "anntags": ev.get("anntags", [])}


def solo_main():
    """the same histories, each run ALONE (sequentially, main thread, fresh process): the reference for 'as if used alone'"""
    global ALPHA
    job = json.load(sys.stdin)
    ALPHA = W.alphabet(job["W"])
    out = []
    for g, hists in enumerate(job["groups"]):
        res = []
        for i, h in enumerate(hists):
            try:
                # "alone": the per-thread table of variable annotations starts empty, as it does in a new thread
                import claripy
                claripy.backends.z3.downsize()           # conversion caches are per thread as well
                claripy.backends.z3.bvs_annotations.clear()
                tr, S, meta = W.run_history(h, ALPHA["vars"], f"solo-{g}-{i}", {})
                A = {"vars": ALPHA["vars"], "W": ALPHA["vars"][0][1], "exprs": ALPHA["exprs"]}
                tr["ev"].extend(W.continue_history(W.probe_battery(A, sorted(S), i % 3), S, meta, ALPHA["vars"], {}))
                res.append([solo_rec(e) for e in tr["ev"]])
            except Exception:  # noqa: BLE001
                res.append([])
        out.append(res)
    json.dump(out, sys.stdout)


def run_solo(job, groups):
    import os
    import subprocess
    p = subprocess.run([sys.executable, "-m", "harness.w_threads", "--solo"], input=json.dumps({"W": job.get("W", 3), "groups": groups}),
                       capture_output=True, text=True, timeout=900, env=dict(os.environ))
    if p.returncode != 0:
        raise RuntimeError("solo reference run failed: " + p.stderr[-500:])
    return json.loads(p.stdout)


def main():
    global ALPHA
    if len(sys.argv) > 1 and sys.argv[1] == "--solo":
        return solo_main()
    job = json.load(open(sys.argv[1]))
    rng = random.Random(job.get("seed", 0))
    out = ShardWriter(sys.argv[2], job.get("shard", 300))
    ALPHA = W.alphabet(job.get("W", 3))
    classes = job.get("classes", [["Solver", {}], ["SolverComposite", {}], ["SolverCacheless", {}], ["SolverHybrid", {}]])
    calls = 0
    all_hists, all_traces = [], []
    for g in range(job["groups"]):
        n = rng.choice(job.get("nthreads", [2, 3, 4]))
        hists = []
        for _ in range(n):
            cls, kw = rng.choice(classes)
            # every other thread states its constraints over annotated variables of the same names; simplify() is frequent
            h = W.random_history(rng, ALPHA, cls, kw, rng.randint(3, job.get("len", 8)), truthy=(g % 2 == 1),
                                 annotvar=(len(hists) % 2 == 0 and g % 3 == 0 and cls in ("Solver", "SolverCacheless", "SolverComposite")))
            if g % 3 == 0:
                h += [["simplify", 0], ["satisfiable", 0, []], ["simplify", 0]]
            hists.append(h)
        schedule = None
        switch = None
        if job["mode"] == "baton":
            if job.get("schedules"):
                schedule = job["schedules"][g % len(job["schedules"])]
                schedule = [t % n for t in schedule]
            else:
                schedule = [rng.randrange(n) for _ in range(sum(len(h) for h in hists) + n)]
        else:
            switch = rng.choice([0.005, 0.0001, 0.00001])
        all_hists.append(hists)
        all_traces.append(run_group(hists, ALPHA["vars"], f"{job.get('tag', 'thr')}-{job.get('seed', 0)}-{g}", schedule, switch))
        if len(all_traces) >= 24 or g == job["groups"] - 1:
            # the alone-reference for this chunk of groups, then write the chunk (bounded memory)
            solo = run_solo(job, all_hists)
            for gi, trs in enumerate(all_traces):
                for i, tr in enumerate(trs):
                    tr["solo"] = solo[gi][i]
                    calls += len(tr["ev"])
                    out.write(tr, nontrivial_key=[tr["tid"]], outcome=job["mode"],
                              sample={"threads": tr["nthreads"], "mode": job["mode"], "calls": len(tr["ev"])})
            all_hists, all_traces = [], []
    out.close({"calls": calls})


if __name__ == "__main__":
    main()
