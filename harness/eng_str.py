"""String engine: C03 — string operations mean the same folded and solved, for every character.

Events recorded by harness/w_str.py are validated by TLC against spec/TraceStr.tla (reference semantics spec/Str.tla on
code-point sequences, 64-bit wrap-around through spec/BVBits.tla).  Deterministic pool-exhaustive inputs: the known
defects of the pinned tree are the exact set of failing-input signatures in findings/C03-exact.txt
(+ C03-exact-thorough.txt), written only by `--regen`.  Seeded extras (gen=rand) stay inside the regions where the
pinned tree is correct (w_str.gen_rand: concat/contains/replace/len/substr/from_int on arbitrary strings, prefix/suffix
with metacharacter-free patterns, indexof with start <= |s|, to_int on <= 18-digit numerals or strings with a letter;
solved side only when all strings are printable ASCII without backslash), so any failure there is a violation for
every seed.  Before a VIOLATION is reported the event is re-evaluated by Z3 on an independently built term (every
character written as an explicit \\u{..} escape) and TLC compares Str.tla with that value: disagreement =>
MachineryError (SPEC-SUSPECT, exit 2).

self-test of the spec:   python -m harness.eng_str selftest [quick|thorough]
"""
from __future__ import annotations

import json
import os
import sys

from . import common as C
from . import w_str as W

PID = "C03"
os.environ.setdefault("JDK_JAVA_OPTIONS", "-Xmn24m")
TLA = "TraceStr.tla"

GROUP_WHAT = {
    "C03-regex-prefix": "StrPrefixOf/StrSuffixOf fold through re.match on the raw pattern: regex metacharacters in the "
                        "prefix/suffix are interpreted ('a.' is a prefix of 'ab'), '.' does not match a newline",
    "C03-regex-error": "StrPrefixOf/StrSuffixOf raise re.error (or another exception) for patterns such as '(' '[' '*' '\\\\'",
    "C03-toint-python": "StrToInt folds with Python int(): signs, surrounding whitespace, underscores and non-ASCII digits "
                        "are accepted ('-5' -> -5, ' 5' -> 5) where SMT-LIB str.to_int gives -1",
    "C03-indexof-empty": "StrIndexOf: start index beyond the end of the string (e.g. empty pattern past the end folds to "
                         "the start index, SMT-LIB gives -1)",
    "C03-z3-literal": "a StringV constant reaches Z3 through z3.StringVal, which interprets \\\\u{..} escape sequences in "
                      "the caller's text ('\\\\u{48}' arrives as 'H'); every solved result over such a constant is off",
    "C03-solved-unescape": "string values coming back from the solver keep Z3's escaped spelling: a result containing "
                           "NUL, newline or a non-ASCII character comes back as '\\\\u{0}' etc. (_abstract: "
                           "StringV(as_string()))",
    "C03-solved-raises": "the solver route raises ClaripyError('unknown decl op Z3_OP_INT2BV'): Z3's model evaluator "
                         "leaves int2bv(str.indexof(s,t,i)) unevaluated for start indices >= 2^62 and "
                         "_abstract_to_primitive cannot read it",
    "C03-annotated-eq": "== / != on equal concrete strings carrying different annotations are not folded by the "
                        "simplifier; the concrete backend compares its StringV wrapper objects by identity -> unequal",
    "C03-fold-raises": "folding raises a Python exception",
    "C03-other": "other listed failing input",
}


def group_of(ev, clause):
    op = ev["op"]
    if clause == "z3lit":
        return "C03-z3-literal"
    if clause == "solved-outcome":
        return "C03-solved-raises"
    if clause == "solved":
        texts = ev["s"] + ev["is"]
        return "C03-z3-literal" if any(92 in t for t in texts) else "C03-solved-unescape"
    ops = {op, ev["iop"]}
    if clause == "outcome":
        return "C03-regex-error" if ops & {"prefixof", "suffixof"} else "C03-fold-raises"
    if op in ("eq", "ne"):
        return "C03-annotated-eq"
    if ops & {"prefixof", "suffixof"}:
        return "C03-regex-prefix"
    if "to_int" in ops:
        return "C03-toint-python"
    if "indexof" in ops:
        return "C03-indexof-empty"
    return "C03-other"


def signature(ev, clause):
    return C.sig([ev["op"], ev["s"], [W.unbits(b) for b in ev["i"]], ev["n"], ev["ann"], ev["iop"], ev["is"],
                  [W.unbits(b) for b in ev["ii"]], ev["isn"], ev["ipos"], clause])


def jobs_for(tier, seed, mode="claripy"):
    q = tier == "quick"
    base = {"mode": mode, "gen": "pool", "pool": "quick" if q else "full", "solved": 1, "fresh_every": 53, "shard": 5000}
    J = []
    np_ = 4 if q else 16
    for grp in ("pairs", "indexof", "replace"):
        for k in range(np_):
            J.append({**base, "group": grp, "part": k, "nparts": np_})
    for k in range(2 if q else 4):
        J.append({**base, "group": "substr", "part": k, "nparts": 2 if q else 4})
    J.append({**base, "group": "unary"})
    J.append({**base, "group": "eq"})
    nd = 2 if q else 8
    for k in range(nd):
        J.append({**base, "group": "d2", "n": 1200 if q else 16000, "part": k, "nparts": nd})
    nr = 2 if q else 8
    for k in range(nr):
        J.append({**base, "gen": "rand", "seed": seed * 1000 + k, "n": (2000 if q else 24000) // nr, "rand": 1})
    return J


def second_opinion(evs):
    zev = []
    for ev in evs:
        c = W.case_of_event(ev)
        e2 = W.event_of(c)
        e2["zs"], e2["fold"] = W.z3_ref(c)
        if not e2["zs"]:
            e2["out"] = "z3-not-a-value"
        zev.append(e2)
    bad = C.validate_events(TLA, zev, shard_size=2000, cfg="Empty.cfg", label="so")
    return sorted({i for (i, _c, _x) in bad})


def readable(ev):
    return {"op": ev["op"], "s": [W.uncps(x) for x in ev["s"]][:max(ev["n"], 1)], "i": [hex(W.unbits(b)) for b in ev["i"]],
            "ann": ev["ann"], "inner": [ev["iop"], [W.uncps(x) for x in ev["is"]], [hex(W.unbits(b)) for b in ev["ii"]], ev["ipos"]] if ev["iop"] else [],
            "fold": ev["fold"][:40], "out": ev["out"], "solved": ev["solved"][:40], "sout": ev["sout"], "z3lit": ev["z3lit"][:40]}


def check(pid, tier, regen=False):
    seed = C.seed()
    R = C.Result(pid, "exploration", tier)
    jobs = jobs_for(tier, seed)
    bad, stats = C.pipeline("w_str", jobs, TLA)
    st = C.merge_stats(stats)
    exact = C.load_set(f"{pid}-exact.txt")
    if tier == "thorough":
        exact |= C.load_set(f"{pid}-exact-thorough.txt")
    new_exact, cands = {}, []
    for jx, ev, clause, _x in bad:
        s = signature(ev, clause)
        seeded = bool(jobs[jx].get("rand"))
        if regen and not seeded:
            new_exact[s] = (ev, clause)
        if s in exact and not seeded:
            g = group_of(ev, clause)
            R.add_known(g, GROUP_WHAT[g])
            continue
        cands.append((ev, clause, s, seeded))
    to_check = [c[0] for c in cands] + ([v[0] for v in new_exact.values()] if regen else [])
    uniq, seen = [], set()
    for ev in to_check:
        k = json.dumps(ev, sort_keys=True)
        if k not in seen:
            seen.add(k)
            uniq.append(ev)
    if uniq:
        sus = second_opinion(uniq)
        if sus:
            raise C.MachineryError("SPEC-SUSPECT: spec/Str.tla and Z3 disagree on %d event(s), e.g. %s"
                                   % (len(sus), json.dumps(readable(uniq[sus[0]]))[:1200]))
    for ev, clause, s, seeded in cands:
        if regen and not seeded:
            continue
        R.add_violation({"property": pid, "clause": clause, "group": group_of(ev, clause), "sig": s, "seeded": seeded,
                         "second_opinion": "Z3 agrees with Str.tla", "readable": readable(ev), "event": ev})
    if regen:
        name = f"{pid}-exact.txt" if tier == "quick" else f"{pid}-exact-thorough.txt"
        keep = set(new_exact)
        if tier == "thorough":
            keep -= C.load_set(f"{pid}-exact.txt")
        with open(os.path.join(C.VERIF, "findings", name), "w") as f:
            for s in sorted(keep):
                f.write(s + "\n")
        groups = {}
        for s, (ev, clause) in new_exact.items():
            g = group_of(ev, clause)
            groups[g] = groups.get(g, 0) + 1
        print(f"regenerated findings/{name} with {len(keep)} entries; groups: {json.dumps(groups, sort_keys=True)}")
    R.coverage = {
        "evaluations": st["events"],
        "distinct_nontrivial": st["nontrivial"],
        "rule": "one event per (operator, constant strings as code points, 64-bit integer arguments[, inner operation, "
                "annotations]) built through claripy's public constructors: all ordered pairs of the string pool for "
                "concat/contains/prefixof/suffixof, x 7 start indices for indexof, x 3 replacements for replace; "
                "every pool string x 7x7 (start, count) for substr; len/to_int/literal for every string and numeral; "
                "from_int on boundary integers; ==/!= with annotation combinations; sampled depth-2 compositions; "
                "seeded random strings in the regions listed in eng_str.py. Each event carries the folded value, the "
                "value through a claripy solver (operands symbolic, pinned) and for constants the code points Z3 "
                "holds. Non-trivial = claripy raised or produced a value different from every operand string; "
                "distinct by (op, strings, integers, annotations, inner op).",
        "samples": st["samples"],
        "outcomes": st["outcomes"],
        "per_operator": {k[2:]: v for k, v in st.items() if k.startswith("n_")},
        "solved_events": st.get("solved", 0),
        "solved_fresh_solver": st.get("fresh", 0),
        "tlc_flagged": len(bad),
        "known_instances": sum(v[1] for v in R.known.values()),
        "pool_sizes": {"strings": len(W.pool_str("quick" if tier == "quick" else "full")), "numerals": len(W.NUMERALS),
                       "integers": len(W.INT_VALUES)},
        "exhaustive": False,
        "tlc_module": "TraceStr.tla (Str.tla, BVBits.tla)",
    }
    R.assumptions = ["TLC evaluates spec/Str.tla correctly (re-validated against Z3 by `python -m harness.eng_str selftest`)",
                     "strings are drawn from a finite pool (metacharacters, NUL, newline, escape look-alikes, BMP and "
                     "astral code points, numerals) plus seeded random strings; integer arguments above 2^20 behave "
                     "like 2^20 on strings this short", "Z3 used as second opinion only"]
    return R.finish()


def replay(pid, path):
    with open(path) as f:
        payload = json.load(f)
    ev = payload["event"] if "event" in payload else payload
    c = W.case_of_event(ev)
    bad, _ = C.pipeline("w_str", [{"mode": "claripy", "gen": "list", "cases": [c], "solved": 1}], TLA)
    for _, e, clause, _x in bad:
        print(f"REPLAY property={pid}: clause {clause} still violated: {json.dumps(readable(e))[:600]}")
    if not bad:
        print(f"REPLAY property={pid}: event accepted by TraceStr.tla on the current tree")
    return 1 if bad else 0


def selftest(tier="quick"):
    jobs = jobs_for(tier, C.seed(), mode="z3ref")
    for j in jobs:
        j["solved"] = 0
    bad, stats = C.pipeline("w_str", jobs, TLA)
    st = C.merge_stats(stats)
    print(f"SELFTEST Str.tla vs Z3: events={st['events']} disagreements={len(bad)} "
          f"z3_values={st['outcomes'].get('z3:1', 0)} z3_not_a_value={st['outcomes'].get('z3:0', 0)}")
    for _, ev, clause, _x in bad[:10]:
        print("  DISAGREE", clause, json.dumps(readable(ev))[:500])
    return 2 if bad else 0


if __name__ == "__main__":
    if len(sys.argv) > 1 and sys.argv[1] == "selftest":
        C.main_wrapper(lambda: selftest(sys.argv[2] if len(sys.argv) > 2 else "quick"))
