"""Worker: drive claripy's VSA backend (strided intervals, discrete interval sets, value sets, BackendVSA.convert,
constraint_to_si) in a fresh interpreter and record events for spec/TraceSI.tla.  No verdicts are computed here.

usage: python -m harness.w_vsa job.json outprefix

An interval travels as [w, stride, lb, ub, bottom, ev]; ev is claripy's own eval() enumeration and is recorded only
for intervals that are not well-formed (spec/SI.tla: Mem).  An abstract value is a list of such tuples (one for a
StridedInterval, several for a DiscreteStridedIntervalSet).

job["gen"]:
  pairs   binary transfer functions / comparisons / concat / join / meet on ordered pairs of a population
  unary   neg, not, extensions, extracts
  query   eval / min / max / cardinality / solution
  triple  least_upper_bound of three, widen chains
  dsis    DiscreteStridedIntervalSet operations              (C23)
  vs      ValueSet operations                                (C23)
  conv    backends.vsa.convert of annotated expression terms (C24)
  c2si    constraint_to_si                                   (C25)
  wide    random intervals at 8..64 bits with sampled member pairs (values as bit lists)
"""
from __future__ import annotations

import itertools
import json
import logging
import random
import signal
import sys
import zlib

from . import term as TM
from .wlib import ShardWriter

BIG = 1 << 30


def stable(obj, mod):
    """deterministic, content-based slice selector (independent of how the surrounding population was thinned)"""
    return mod <= 1 or zlib.crc32(json.dumps(obj, separators=(",", ":")).encode()) % mod == 0


class _Timeout(Exception):
    pass


def _alarm(signum, frame):
    raise _Timeout()


def guarded(fn, secs=20):
    """(exception name or "", value)"""
    signal.setitimer(signal.ITIMER_PROF, secs)
    try:
        v = fn()
        signal.setitimer(signal.ITIMER_PROF, 0)
        return "", v
    except _Timeout:
        return "Timeout", None
    except BaseException as ex:  # noqa: BLE001
        signal.setitimer(signal.ITIMER_PROF, 0)
        if isinstance(ex, (KeyboardInterrupt, SystemExit)):
            raise
        return type(ex).__name__, None


# ----------------------------------------------------------------------------------------------
# representation
# ----------------------------------------------------------------------------------------------

def I(v):
    """TLC integers are 32-bit: clamp anything absurd to a value that cannot be a member of a small interval"""
    v = int(v)
    if v >= BIG:
        return BIG
    if v <= -BIG:
        return -BIG
    return v


def wf_tuple(w, s, lb, ub, bot):
    """mirror of SI.tla WF (only decides whether the eval() enumeration is attached)"""
    if bot:
        return True
    m = 1 << w
    if not (w >= 1 and s >= 0 and 0 <= lb < m and 0 <= ub < m):
        return False
    return (s == 0 and lb == ub) or (s > 0 and lb != ub and ((ub - lb) % m) % s == 0)


def tup(x):
    """StridedInterval -> [w, s, lb, ub, bot, ev]"""
    w, s, lb, ub, bot = x.bits, x.stride, x.lower_bound, x.upper_bound, 1 if x.is_empty else 0
    ev = []
    if not wf_tuple(w, s, lb, ub, bot) and w <= 12:
        exc, v = guarded(lambda: x.eval((1 << w) + 1))
        ev = [I(z) for z in v] if not exc else []
    return [w, I(s), I(lb), I(ub), bot, ev]


def value(r):
    """backend object -> ("si"|"bool"|"vs"|"other", payload)"""
    from claripy.backends.backend_vsa import BoolResult, DiscreteStridedIntervalSet, StridedInterval, ValueSet
    if isinstance(r, DiscreteStridedIntervalSet):
        return "si", sorted((tup(s) for s in r._si_set), key=lambda t: json.dumps(t))
    if isinstance(r, StridedInterval):
        if r._reversed and not r.is_empty:
            r = r._reverse()
        return "si", [tup(r)]
    if isinstance(r, BoolResult):
        return "bool", [1 if False in r.value else 0, 1 if True in r.value else 0]
    if isinstance(r, bool):
        return "bool", [0 if r else 1, 1 if r else 0]
    if isinstance(r, ValueSet):
        rg = sorted(r.regions)
        return "vs", {"rg": [str(k) for k in rg], "si": [value(r.regions[k])[1] for k in rg]}
    return "other", type(r).__name__


def mk(t):
    """tuple -> fresh StridedInterval (the constructor normalises exactly as for any caller)"""
    from claripy.backends.backend_vsa import StridedInterval
    if t[4]:
        return StridedInterval.empty(t[0])
    return StridedInterval(bits=t[0], stride=t[1], lower_bound=t[2], upper_bound=t[3])


def mk_ast(t):
    """tuple -> claripy AST that the VSA backend converts to the interval (annotation path)"""
    import claripy
    if t[4]:
        return claripy.ESI(t[0])
    return claripy.BVS("v", t[0]).annotate(claripy.annotation.StridedIntervalAnnotation(t[1], t[2], t[3]))


def wf_population(W, bottom=False):
    """all well-formed normal intervals of width W as the constructor yields them (first-seen order is canonical:
    sorted).  The specification's WFSet(W) is computed independently by TLC and compared (event k=opset)."""
    from claripy.backends.backend_vsa import StridedInterval
    m = 1 << W
    seen = set()
    for lb in range(m):
        for ub in range(m):
            d = (ub - lb) % m
            strides = [0] if d == 0 else [s for s in range(1, d + 1) if d % s == 0]
            for s in strides:
                x = StridedInterval(bits=W, stride=s, lower_bound=lb, upper_bound=ub)
                seen.add((W, x.stride, x.lower_bound, x.upper_bound, 0))
    out = [[*t, []] for t in sorted(seen)]
    if bottom:
        out.append([W, 1, 0, m - 1, 1, []])
    return out


def key(t):
    return (t[0], t[1], t[2], t[3], t[4])


# ----------------------------------------------------------------------------------------------
# operator tables: name -> (backend op for BackendVSA._call or None, named method)
# ----------------------------------------------------------------------------------------------

BIN = {
    "add": ("__add__", lambda a, b: a.add(b)),
    "sub": ("__sub__", lambda a, b: a.sub(b)),
    "mul": ("__mul__", lambda a, b: a.mul(b)),
    "udiv": ("__floordiv__", lambda a, b: a.udiv(b)),
    "sdiv": (None, lambda a, b: a.sdiv(b)),                 # BackendVSA has no SDiv: named method only
    "mod": ("__mod__", lambda a, b: a.__mod__(b)),
    "and": ("__and__", lambda a, b: a.bitwise_and(b)),
    "or": ("__or__", lambda a, b: a.bitwise_or(b)),
    "xor": ("__xor__", lambda a, b: a.bitwise_xor(b)),
    "shl": ("__lshift__", lambda a, b: a.lshift(b)),
    "lshr": ("LShR", lambda a, b: a.rshift_logical(b)),
    "ashr": ("__rshift__", lambda a, b: a.rshift_arithmetic(b)),
}
CMP = {
    "ULT": ("ULT", lambda a, b: a.ULT(b)), "ULE": ("ULE", lambda a, b: a.ULE(b)),
    "UGT": ("UGT", lambda a, b: a.UGT(b)), "UGE": ("UGE", lambda a, b: a.UGE(b)),
    "SLT": ("SLT", lambda a, b: a.SLT(b)), "SLE": ("SLE", lambda a, b: a.SLE(b)),
    "SGT": ("SGT", lambda a, b: a.SGT(b)), "SGE": ("SGE", lambda a, b: a.SGE(b)),
    "eq": ("__eq__", lambda a, b: a.eq(b)), "ne": ("__ne__", lambda a, b: a.__ne__(b)),
}
PYCMP = {"ULT": lambda a, b: a < b, "ULE": lambda a, b: a <= b, "UGT": lambda a, b: a > b, "UGE": lambda a, b: a >= b}


def be_call(op, args):
    """the dispatch BackendVSA performs for an AST node `op` whose children were converted to `args`"""
    import claripy
    return claripy.backends.vsa._call(op, list(args))


class Rec:
    """event emission with de-duplication of identical outcomes of the two entry points"""

    def __init__(self, out, cls, unsupported=()):
        self.out, self.cls = out, cls
        self.closure = {}          # non-WF results seen: key -> tuple
        self.closure_x = {}
        self.nexc = 0
        self.unsupported = set(unsupported)   # exception names that mean "operand combination not supported"
        self.nunsupported = 0
        self.ninputs = 0           # distinct (operation, operands) inputs executed
        self.cur = None            # batch under construction
        self.nsub = 0              # sub-events written
        self.nontrivial = 0        # sub-events with a result (distinct by construction: every input is visited once)
        self.outcomes = {}

    def note(self, kind, payload, srcw):
        """remember intervals that are not well-formed: they are fed back as operands (closure tier).  closure_x:
        produced from operands of another width (extract / extension / concat)"""
        if kind == "si":
            for t in payload:
                if not t[4] and (t[5] or not wf_tuple(*t[:5])):
                    (self.closure if t[0] == srcw else self.closure_x).setdefault(key(t), t)

    def emit(self, base, outcomes):
        """base: event without how/exc/result; outcomes: [(how, exc, kind, payload)]"""
        self.ninputs += 1
        # merge identical outcomes
        merged = []
        for how, exc, kind, payload in outcomes:
            if exc in self.unsupported or (not exc and kind == "other" and payload in self.unsupported):
                self.nunsupported += 1
                continue
            for m in merged:
                if m[1:] == [exc, kind, payload]:
                    m[0] = m[0] + "+" + how
                    break
            else:
                merged.append([how, exc, kind, payload])
        for how, exc, kind, payload in merged:
            R, rb = [], [1, 1]
            if not exc:
                if kind == "si":
                    R = payload
                    self.note(kind, payload, base["A"][0][0])
                elif kind == "bool":
                    rb = payload
                else:
                    exc = "ResultType:" + str(payload if kind == "other" else kind)
            if exc:
                self.nexc += 1
            else:
                self.nontrivial += 1
            self.nsub += 1
            self.outcomes[exc or "ok"] = self.outcomes.get(exc or "ok", 0) + 1
            sub = [base["k"], base["op"], how, exc, base.get("p", []), R, rb, base.get("C", [])]
            ctx = base.get("ctx", "si")
            if self.cur is not None and (self.cur["A"] != base["A"] or self.cur["B"] != base.get("B", [])
                                         or self.cur["ctx"] != ctx):
                self.flush()
            if self.cur is None:
                self.cur = {"k": "batch", "op": "batch", "A": base["A"], "B": base.get("B", []), "ctx": ctx,
                            "cls": self.cls, "subs": []}
            self.cur["subs"].append(sub)

    def post(self, A, B, A2, B2):
        """state of the operand objects after the sequence of operations of the current batch"""
        if self.cur is not None and self.cur["A"] == A and self.cur["B"] == B:
            self.cur["A2"], self.cur["B2"] = A2, B2

    def flush(self):
        """one ndjson line per operand tuple: the operands are parsed once by TLC, the sub-events
        [kind, op, entry points, exc, params, R, rb, C] are checked one by one (clause reported with the sub index)"""
        if self.cur is not None and self.cur["subs"]:
            ev = self.cur
            ev.setdefault("A2", [])
            ev.setdefault("B2", [])
            self.out.write(ev, nontrivial_key=[ev["A"], ev["B"], ev["ctx"], ev["subs"][0][1]], outcome="batch",
                           sample={"A": ev["A"], "B": ev["B"], "subs": ev["subs"][:3]})
        self.cur = None


def run2(be, meth, args_factory, want=None):
    """run the backend entry and the named method on fresh operands; returns outcomes list"""
    outs = []
    if be is not None:
        exc, v = guarded(lambda: be(*args_factory()))
        if exc not in ("BackendUnsupportedError", "BackendError"):
            outs.append(("be", exc, *(value(v) if not exc else ("", None))))
    if meth is not None:
        exc, v = guarded(lambda: meth(*args_factory()))
        outs.append(("meth", exc, *(value(v) if not exc else ("", None))))
    return outs


# ----------------------------------------------------------------------------------------------
# generators
# ----------------------------------------------------------------------------------------------

def strip(t):
    return [t[0], t[1], t[2], t[3], t[4], t[5]]


def gen_pairs(job, out, rng):
    """ordered pairs (a, b), a from job slice of popA, b from popB; kinds select operator families"""
    W = job["W"]
    kinds = set(job.get("kinds", ["bin", "cmp", "cat", "join", "meet"]))
    ops = job.get("ops")
    bottom = bool(job.get("bottom"))
    base_pop = wf_population(W, bottom=bottom)
    popA = job.get("popA") or base_pop
    popB = job.get("popB") or base_pop
    if job.get("popX"):            # closure tier: the well-formed set plus intervals that operations returned
        popA = popB = base_pop + [t for t in job["popX"] if t[0] == W]
    rec = Rec(out, 1 if job.get("cls") else 0)
    if job.get("cls") and job.get("part", 0) == 0:
        out.write({"k": "opset", "op": "opset", "W": W, "list": base_pop, "n": len(base_pop), "bot": 1 if bottom else 0},
                  outcome="opset")
    part, nparts = job.get("part", 0), job.get("nparts", 1)
    rate = job.get("rate", 1.0)
    only_new = job.get("only_new")          # closure phase: skip pairs where both operands are in the base set
    basekeys = {key(t) for t in base_pop} if only_new else set()
    smod = job.get("stable_mod")            # content-based deterministic slice (closure tier of the quick run)
    mod = job.get("slice_mod")              # deterministic sub-population: pairs with (ia*nB+ib) % mod == rem
    n = 0
    for ia, ta in enumerate(popA):
        if ia % nparts != part:
            continue
        for ib, tb in enumerate(popB):
            if only_new and key(ta) in basekeys and key(tb) in basekeys:
                continue
            if mod and (ia * len(popB) + ib) % mod != job.get("slice_rem", 0):
                continue
            if rate < 1.0 and rng.random() >= rate:
                continue
            if smod and not stable([key(ta), key(tb)], smod):
                continue
            n += 1
            pair_events(rec, kinds, ops, ta, tb)
    return rec


def tup5(x):
    return [x.bits, I(x.stride), I(x.lower_bound), I(x.upper_bound), 1 if x.is_empty else 0]


def pair_events(rec, kinds, ops, ta, tb):
    """every operation of the pair runs on the SAME two operand objects, one after the other (concat first: it is
    the operation that rebuilds its low operand).  Operations must not change their operands: the operands' state
    after the sequence is recorded (A2, B2) and compared with A, B by TLC (clause operand-mutated), and every later
    operation of the sequence is validated against the operands as they were constructed."""
    from claripy.backends.backend_vsa import StridedInterval
    A, B = [strip(ta)], [strip(tb)]
    nonbot = not ta[4] and not tb[4]
    a0, b0 = mk(ta), mk(tb)
    fresh = lambda: (a0, b0)  # noqa: E731
    if "cat" in kinds and nonbot and (not ops or "concat" in ops):
        rec.emit({"k": "cat", "op": "concat", "A": A, "B": B},
                 run2(lambda a, b: be_call("Concat", (a, b)), lambda a, b: a.concat(b), fresh))
    if "bin" in kinds and nonbot:
        for op, (beop, meth) in BIN.items():
            if ops and op not in ops:
                continue
            rec.emit({"k": "bin", "op": op, "A": A, "B": B},
                     run2((lambda a, b, o=beop: be_call(o, (a, b))) if beop else None, meth, fresh))
    if "cmp" in kinds and nonbot:
        for op, (beop, meth) in CMP.items():
            if ops and op not in ops:
                continue
            outs = run2(lambda a, b, o=beop: be_call(o, (a, b)), meth, fresh)
            if op in PYCMP:
                exc, v = guarded(lambda: PYCMP[op](*fresh()))
                outs.append(("pyop", exc, *(value(v) if not exc else ("", None))))
            rec.emit({"k": "cmp", "op": op, "A": A, "B": B}, outs)
    if "join" in kinds:
        if not ops or "union" in ops:
            rec.emit({"k": "join", "op": "union", "A": A, "B": B, "C": [], "n": 2}, _join_outs("union", ta, tb, fresh))
        if not ops or "lub" in ops:
            rec.emit({"k": "join", "op": "lub", "A": A, "B": B, "C": [], "n": 2},
                     run2(None, lambda a, b: StridedInterval.least_upper_bound(a, b), fresh))
        if not ops or "widen" in ops:
            rec.emit({"k": "join", "op": "widen", "A": A, "B": B, "C": [], "n": 2}, _join_outs("widen", ta, tb, fresh))
    if "meet" in kinds and (not ops or "intersection" in ops):
        rec.emit({"k": "meet", "op": "intersection", "A": A, "B": B}, _join_outs("intersection", ta, tb, fresh))
    rec.post(A, B, [tup5(a0)], [tup5(b0)])


def _join_outs(name, ta, tb, fresh=None):
    """set operations: backend entry = convert of the AST node (union/intersection/widen are expression ops)"""
    import claripy
    outs = []
    exc, v = guarded(lambda: claripy.backends.vsa.convert(getattr(mk_ast(ta), name)(mk_ast(tb))))
    if exc not in ("BackendUnsupportedError",):
        outs.append(("be", exc, *(value(v) if not exc else ("", None))))
    exc, v = guarded((lambda: getattr(mk(ta), name)(mk(tb))) if fresh is None else
                     (lambda: (lambda a, b: getattr(a, name)(b))(*fresh())))
    outs.append(("meth", exc, *(value(v) if not exc else ("", None))))
    return outs


def gen_unary(job, out, rng):
    W = job["W"]
    maxw = job.get("maxw", 6)
    pop = job.get("popA") or wf_population(W)
    rec = Rec(out, 1 if job.get("cls") else 0)
    part, nparts = job.get("part", 0), job.get("nparts", 1)
    for ia, ta in enumerate(pop):
        if ia % nparts != part or ta[4]:
            continue
        A = [strip(ta)]
        w = ta[0]
        a0 = mk(ta)
        fresh = lambda: (a0,)  # noqa: E731     (one operand object for the whole sequence, see pair_events)
        rec.emit({"k": "un", "op": "neg", "A": A, "p": []},
                 run2(lambda a: be_call("__neg__", (a,)), lambda a: a.neg(), fresh))
        rec.emit({"k": "un", "op": "not", "A": A, "p": []},
                 run2(lambda a: be_call("__invert__", (a,)), lambda a: a.bitwise_not(), fresh))
        for w2 in range(w + 1, maxw + 1):
            rec.emit({"k": "un", "op": "zext", "A": A, "p": [w2]},
                     run2(lambda a, n=w2 - w: be_call("ZeroExt", (n, a)), lambda a, n=w2: a.zero_extend(n), fresh))
            rec.emit({"k": "un", "op": "sext", "A": A, "p": [w2]},
                     run2(lambda a, n=w2 - w: be_call("SignExt", (n, a)), lambda a, n=w2: a.sign_extend(n), fresh))
        for hi in range(w):
            for lo in range(hi + 1):
                rec.emit({"k": "un", "op": "extract", "A": A, "p": [hi, lo]},
                         run2(lambda a, h=hi, l=lo: be_call("Extract", (h, l, a)), lambda a, h=hi, l=lo: a.extract(h, l),
                              fresh))
        rec.post(A, [], [tup5(a0)], [])
    return rec


def gen_concat_x(job, out, rng):
    """concat across widths: a of width W, b of width W2"""
    popA = job.get("popA") or wf_population(job["W"])
    popB = job.get("popB") or wf_population(job["W2"])
    rec = Rec(out, 1 if job.get("cls") else 0)
    part, nparts = job.get("part", 0), job.get("nparts", 1)
    for ia, ta in enumerate(popA):
        if ia % nparts != part:
            continue
        for tb in popB:
            pair_events(rec, {"cat"}, None, ta, tb)
    return rec


def query_event(t, W_all_n=True):
    """all queries on one interval"""
    w = t[0]
    m = 1 << w
    x = mk(t)
    qexc = []
    ns = list(range(0, m + 2)) if w <= 3 else [0, 1, 2, 3, m - 1, m, m + 1]
    evals, sevals = [], []
    for n in ns:
        exc, v = guarded(lambda: mk(t).eval(n))
        if exc:
            qexc.append("eval:" + exc)
        else:
            evals.append([n, [I(z) for z in v]])
    for n in (1, 2, m + 1):
        exc, v = guarded(lambda: mk(t).eval(n, signed=True))
        if exc:
            qexc.append("seval:" + exc)
        else:
            sevals.append([n, [I(z) for z in v]])
    mm, none = [], 0
    vals = []
    for f in (lambda: x.min(), lambda: x.max(), lambda: x.min(signed=True), lambda: x.max(signed=True)):
        exc, v = guarded(f)
        if exc:
            qexc.append("minmax:" + exc)
        vals.append(None if exc else v)
    if all(v is None for v in vals):
        none = 1
    elif all(v is not None for v in vals):
        mm = [I(v) for v in vals]
    else:
        qexc.append("minmax:partial-None")
    card = []
    exc, v = guarded(lambda: x.cardinality)
    if exc:
        qexc.append("card:" + exc)
    else:
        card = [I(v)]
    sols = []
    for v in range(m):
        exc, r = guarded(lambda: mk(t).solution(v))
        if exc:
            qexc.append("sol:" + exc)
            sols = []
            break
        sols.append(1 if r else 0)
    return {"k": "q", "op": "query", "mode": "si", "A": [strip(tup(x) if not t[4] else t)], "evals": evals,
            "sevals": sevals, "mm": mm, "none": none, "card": card, "sols": sols, "qexc": sorted(set(qexc))}


def gen_query(job, out, rng):
    W = job["W"]
    pop = job.get("popA") or wf_population(W, bottom=True)
    cls = 1 if job.get("cls") else 0
    part, nparts = job.get("part", 0), job.get("nparts", 1)
    if cls and part == 0:
        out.write({"k": "opset", "op": "opset", "W": W, "list": pop, "n": len(pop), "bot": 1}, outcome="opset")
    for ia, t in enumerate(pop):
        if ia % nparts != part:
            continue
        ev = query_event(t)
        ev["cls"] = cls
        ev["exc"] = ""
        ev["how"] = "meth"
        ev["ctx"] = "si"
        out.write(ev, nontrivial_key=["q", ev["A"]], outcome="q" if not ev["qexc"] else "qexc",
                  sample={"k": "q", "A": ev["A"], "card": ev["card"], "mm": ev["mm"]})
    return None


def gen_triple(job, out, rng):
    """least_upper_bound of three intervals and widen chains widen(widen(a,b),c)"""
    from claripy.backends.backend_vsa import StridedInterval
    W = job["W"]
    pop = job.get("popA") or wf_population(W, bottom=False)
    rec = Rec(out, 1 if job.get("cls") else 0)
    part, nparts = job.get("part", 0), job.get("nparts", 1)
    rate = job.get("rate", 1.0)
    i = 0
    for ta in pop:
        for tb in pop:
            i += 1
            if i % nparts != part:
                continue
            for ic, tc in enumerate(pop):
                if rate < 1.0 and rng.random() >= rate:
                    continue
                if job.get("slice3") and (i * len(pop) + ic) % 97 != 0:
                    continue
                fresh = lambda: (mk(ta), mk(tb), mk(tc))  # noqa: E731
                base = {"A": [strip(ta)], "B": [strip(tb)], "C": [strip(tc)], "n": 3}
                rec.emit({"k": "join", "op": "lub3", **base},
                         run2(None, lambda a, b, c: StridedInterval.least_upper_bound(a, b, c), fresh))
                rec.emit({"k": "join", "op": "widen2", **base},
                         run2(None, lambda a, b, c: a.widen(b).widen(c), fresh))
    return rec



# ----------------------------------------------------------------------------------------------
# C23: DiscreteStridedIntervalSet
# ----------------------------------------------------------------------------------------------

def mk_dsis(ts):
    from claripy.backends.backend_vsa import DiscreteStridedIntervalSet
    if len(ts) == 1:
        return mk(ts[0])
    return DiscreteStridedIntervalSet(bits=ts[0][0], si_set={mk(t) for t in ts})


def dsis_population(W, mod3):
    """member lists: every 2-subset of WFSet(W), and every mod3-th 3-subset (deterministic)"""
    pop = wf_population(W)
    out = [list(c) for c in itertools.combinations(pop, 2)]
    out += [list(c) for i, c in enumerate(itertools.combinations(pop, 3)) if i % mod3 == 0]
    return out


# raised (or returned) when an operand combination is simply not implemented for discrete sets / value sets
UNSUPPORTED = ("TypeError", "AssertionError", "NotImplementedType", "NotImplementedError", "ClaripyVSAOperationError",
               "BackendUnsupportedError", "BackendError")

DSIS_BIN = {"add": "__add__", "sub": "__sub__", "mul": "__mul__", "udiv": "__floordiv__", "mod": "__mod__",
            "and": "__and__", "or": "__or__", "xor": "__xor__", "shl": "__lshift__", "lshr": "LShR",
            "ashr": "__rshift__"}


def dsis_events(rec, A, B, ops, ctx, kinds):
    """A, B: member lists (a 1-element list is a plain interval)"""
    sa, sb = [strip(t) for t in A], [strip(t) for t in B]
    fresh = lambda: (mk_dsis(A), mk_dsis(B))  # noqa: E731
    if "bin" in kinds:
        for op, beop in DSIS_BIN.items():
            if ops and op not in ops:
                continue
            rec.emit({"k": "bin", "op": op, "A": sa, "B": sb, "ctx": ctx},
                     run2(lambda a, b, o=beop: be_call(o, (a, b)), None, fresh))
    if "cmp" in kinds:
        for op, (beop, _m) in CMP.items():
            if ops and op not in ops:
                continue
            rec.emit({"k": "cmp", "op": op, "A": sa, "B": sb, "ctx": ctx},
                     run2(lambda a, b, o=beop: be_call(o, (a, b)), None, fresh))
    if "cat" in kinds and (not ops or "concat" in ops):
        rec.emit({"k": "cat", "op": "concat", "A": sa, "B": sb, "ctx": ctx},
                 run2(lambda a, b: be_call("Concat", (a, b)), None, fresh))
    if "join" in kinds:
        for name in ("union", "widen"):
            if ops and name not in ops:
                continue
            rec.emit({"k": "join", "op": name, "A": sa, "B": sb, "C": [], "n": 2, "ctx": ctx},
                     run2(None, lambda a, b, nm=name: getattr(a, nm)(b), fresh))
    if "meet" in kinds and (not ops or "intersection" in ops):
        rec.emit({"k": "meet", "op": "intersection", "A": sa, "B": sb, "ctx": ctx},
                 run2(None, lambda a, b: a.intersection(b), fresh))


def dsis_unary(rec, A, ctx, maxw):
    sa = [strip(t) for t in A]
    w = A[0][0]
    fresh = lambda: (mk_dsis(A),)  # noqa: E731
    rec.emit({"k": "un", "op": "neg", "A": sa, "p": [], "ctx": ctx}, run2(lambda a: be_call("__neg__", (a,)), None, fresh))
    rec.emit({"k": "un", "op": "not", "A": sa, "p": [], "ctx": ctx}, run2(lambda a: be_call("__invert__", (a,)), None, fresh))
    for w2 in range(w + 1, maxw + 1):
        rec.emit({"k": "un", "op": "zext", "A": sa, "p": [w2], "ctx": ctx},
                 run2(lambda a, n=w2 - w: be_call("ZeroExt", (n, a)), None, fresh))
        rec.emit({"k": "un", "op": "sext", "A": sa, "p": [w2], "ctx": ctx},
                 run2(lambda a, n=w2 - w: be_call("SignExt", (n, a)), None, fresh))
    for hi in range(w):
        for lo in range(hi + 1):
            rec.emit({"k": "un", "op": "extract", "A": sa, "p": [hi, lo], "ctx": ctx},
                     run2(lambda a, h=hi, l=lo: be_call("Extract", (h, l, a)), None, fresh))


def set_query_event(obj_factory, members, w, ctx, single=True):
    """queries on a DSIS / ValueSet: enumerations may be partial, cardinality an upper bound"""
    m = 1 << w
    qexc, evals = [], []
    for n in [0, 1, 2, 3, m, m + 1]:
        exc, v = guarded(lambda: obj_factory().eval(n))
        if exc:
            qexc.append("eval:" + exc)
        else:
            evals.append([n, [I(z) for z in v]])
    card = []
    exc, v = guarded(lambda: obj_factory().cardinality)
    if exc:
        qexc.append("card:" + exc)
    else:
        card = [I(v)]
    mm, none = [], 0
    if single:
        vals = []
        x = obj_factory()
        for f in (lambda: x.min(), lambda: x.max(), lambda: x.min(signed=True), lambda: x.max(signed=True)):
            exc, v = guarded(f)
            if exc:
                qexc.append("minmax:" + exc)
            vals.append(None if exc else v)
        if all(v is None for v in vals):
            none = 1
        elif all(v is not None for v in vals):
            mm = [I(v) for v in vals]
    return {"k": "q", "op": "query", "mode": "set" if single else "multi", "A": [strip(t) for t in members], "evals": evals, "sevals": [],
            "mm": mm, "none": none, "card": card, "sols": [], "qexc": sorted(set(qexc)), "cls": 0, "exc": "",
            "how": "meth", "ctx": ctx}


def gen_dsis(job, out, rng):
    import claripy.backends.backend_vsa as vsa
    import claripy.backends.backend_vsa.discrete_strided_interval_set as dmod
    W = job["W"]
    ctx = "dsis"
    if job.get("collapse"):
        # lower the collapse threshold for the run: results that grow past it collapse to one interval
        dmod.DEFAULT_MAX_CARDINALITY_WITHOUT_COLLAPSING = job["collapse"]
        vsa.DEFAULT_MAX_CARDINALITY_WITHOUT_COLLAPSING = job["collapse"]
        ctx = "dsis-c%d" % job["collapse"]
    popD = dsis_population(W, job.get("mod3", 13))
    popD0 = popD
    popD = [A for i, A in enumerate(popD) if i % job.get("mod_pop", 1) == 0]
    if job.get("sample"):
        popD = rng.sample(popD, min(job["sample"], len(popD)))
    popS = [[t] for t in wf_population(W)]
    rec = Rec(out, 0, unsupported=UNSUPPORTED)
    part, nparts = job.get("part", 0), job.get("nparts", 1)
    ops = job.get("ops")
    kinds = set(job.get("kinds", ["bin", "cmp", "cat", "join", "meet"]))
    modp = job.get("mod_dd", 1)
    i = 0
    for A in popD:
        i += 1
        if i % nparts != part:
            continue
        if "un" in job.get("extra", ["un", "q"]):
            dsis_unary(rec, A, ctx, job.get("maxw", 4))
        if "q" in job.get("extra", ["un", "q"]):
            ev = set_query_event(lambda: mk_dsis(A), A, W, ctx)
            out.write(ev, nontrivial_key=["q", ev["A"], ctx], outcome="q" if not ev["qexc"] else "qexc")
        for B in (popS if not job.get("sample") else rng.sample(popS, min(12, len(popS)))):
            dsis_events(rec, A, B, ops, ctx, kinds)            # DSIS op SI
            if not job.get("no_reflect"):
                dsis_events(rec, B, A, ops, ctx, kinds & {"bin", "cmp", "join", "meet"})   # SI op DSIS
        for B in popD0:
            if stable([A, B], modp):
                dsis_events(rec, A, B, ops, ctx, kinds)        # DSIS op DSIS (deterministic slice)
    # union of plain intervals with the DSIS switch on (StridedInterval.union -> DSIS)
    if job.get("union_si") and part == 0:
        from claripy.backends.backend_vsa.strided_interval import _allow_dsis
        with _allow_dsis(True):
            for a in popS:
                for b in popS:
                    rec.emit({"k": "join", "op": "union", "A": [strip(a[0])], "B": [strip(b[0])], "C": [], "n": 2,
                              "ctx": ctx + "-flag"},
                             run2(None, lambda x, y: x.union(y), lambda: (mk(a[0]), mk(b[0]))))
    return rec


# ----------------------------------------------------------------------------------------------
# C23: ValueSet
# ----------------------------------------------------------------------------------------------

def mk_vs(spec, W):
    """spec: [[region, base, tuple], ...] -> ValueSet built the way BackendVSA.apply_annotation builds it"""
    from claripy.backends.backend_vsa import ValueSet
    vs = ValueSet.empty(W)
    for region, base, t in spec:
        vs._merge_si(region, base, mk(t))
    return vs


def vs_enc(spec):
    rg = sorted({r for r, _, _ in spec})
    return {"rg": rg, "si": [[strip(t) for r, _, t in spec if r == g] for g in rg]}


def vs_population(W, mod2):
    pop = wf_population(W)
    out = []
    for t in pop:
        out.append([["global", 0, t]])
        out.append([["stack", 1, t]])
    k = 0
    for a in pop:
        for b in pop:
            k += 1
            if k % mod2 == 0:
                out.append([["global", 0, a], ["stack", 1, b]])
    return out


EMPTY_VS = {"rg": [], "si": []}


def vs_emit(out, base, outcomes, stats):
    merged = []
    for how, exc, kind, payload in outcomes:
        if exc in UNSUPPORTED or (not exc and kind == "other" and payload in UNSUPPORTED):
            stats["unsupported"] = stats.get("unsupported", 0) + 1
            continue
        for m in merged:
            if m[1:] == [exc, kind, payload]:
                m[0] += "+" + how
                break
        else:
            merged.append([how, exc, kind, payload])
    for how, exc, kind, payload in merged:
        ev = dict(base)
        ev.update({"how": how, "exc": exc, "cls": 0, "rt": kind or "none", "R": [], "Rv": EMPTY_VS, "rb": [1, 1]})
        ev.setdefault("p", [])
        ev.setdefault("wb", 0)
        if not exc:
            if kind == "si":
                ev["R"] = payload
            elif kind == "vs":
                ev["Rv"] = payload
            elif kind == "bool":
                ev["rb"] = payload
            else:
                ev["exc"] = "ResultType:" + str(payload)
        out.write(ev, nontrivial_key=["vs", ev["op"], ev["Av"], ev["bt"], ev["B"], ev["Bv"], ev["p"]],
                  outcome=(ev["exc"] or "ok"),
                  sample={kk: ev[kk] for kk in ("k", "op", "how", "Av", "bt", "B", "Bv", "rt", "R", "Rv", "rb")})


VS_BIN = {"add": "__add__", "sub": "__sub__", "and": "__and__", "mod": "__mod__", "lshr": "LShR"}


def gen_vs(job, out, rng):
    W = job["W"]
    popV = vs_population(W, job.get("mod2", 5))
    popV0 = vs_population(W, job.get("mod2_right", 5))
    popS = wf_population(W)
    part, nparts = job.get("part", 0), job.get("nparts", 1)
    stats = {}
    modvv = job.get("mod_vv", 7)
    for i, sa in enumerate(popV):
        if i % nparts != part:
            continue
        Av = vs_enc(sa)
        members = [t for _, _, t in sa]
        ev = set_query_event(lambda: mk_vs(sa, W), members, W, "vs", single=len(sa) == 1)
        out.write(ev, nontrivial_key=["q", ev["A"], "vs", Av["rg"]], outcome="q" if not ev["qexc"] else "qexc")
        for hi in range(W):
            for lo in range(hi + 1):
                vs_emit(out, {"k": "vs", "op": "extract", "w": W, "Av": Av, "bt": "none", "B": [], "Bv": EMPTY_VS,
                              "p": [hi, lo], "ctx": "vs"},
                        run2(lambda a, h=hi, l=lo: be_call("Extract", (h, l, a)), None, lambda: (mk_vs(sa, W),)), stats)
        for tb in popS:
            B = [strip(tb)]
            base = {"k": "vs", "w": W, "Av": Av, "bt": "si", "B": B, "Bv": EMPTY_VS, "ctx": "vs"}
            fresh = lambda: (mk_vs(sa, W), mk(tb))  # noqa: E731
            for op, beop in VS_BIN.items():
                vs_emit(out, {**base, "op": op}, run2(lambda a, b, o=beop: be_call(o, (a, b)), None, fresh), stats)
            # interval + value set (reflected operand)
            vs_emit(out, {**base, "op": "add"},
                    [("be-r", *x[1:]) for x in run2(lambda a, b: be_call("__add__", (b, a)), None, fresh)], stats)
            for op in ("eq", "ne", "ULT", "SGE"):
                vs_emit(out, {**base, "op": op},
                        run2(lambda a, b, o=CMP[op][0]: be_call(o, (a, b)), None, fresh), stats)
            for name in ("union", "widen", "intersection"):
                vs_emit(out, {**base, "op": name}, run2(None, lambda a, b, nm=name: getattr(a, nm)(b), fresh), stats)
            vs_emit(out, {**base, "op": "concat", "wb": W},
                    run2(lambda a, b: be_call("Concat", (a, b)), None, fresh), stats)
        for sb0 in popV0:
            if not stable([sa, sb0], modvv):
                continue
            # two-region right operands are assembled in the opposite region order on every second pair: operations
            # must pair the regions by name, not by insertion position
            rev = len(sb0) > 1 and stable([sb0, sa, "order"], 2)
            sb = list(reversed(sb0)) if rev else sb0
            base = {"k": "vs", "w": W, "Av": Av, "bt": "vs", "B": [], "Bv": vs_enc(sb), "ctx": "vs-rev" if rev else "vs"}
            fresh = lambda: (mk_vs(sa, W), mk_vs(sb, W))  # noqa: E731
            vs_emit(out, {**base, "op": "sub"}, run2(lambda a, b: be_call("__sub__", (a, b)), None, fresh), stats)
            for op in ("eq", "ne", "ULE"):
                vs_emit(out, {**base, "op": op},
                        run2(lambda a, b, o=CMP[op][0]: be_call(o, (a, b)), None, fresh), stats)
            for name in ("union", "widen", "intersection"):
                vs_emit(out, {**base, "op": name}, run2(None, lambda a, b, nm=name: getattr(a, nm)(b), fresh), stats)
        if len(sa) > 1:
            # difference of two value sets over the same regions, the right one assembled in the opposite order
            for sb0 in popV0:
                if len(sb0) < 2 or not stable([sa, sb0, "sub-rev"], job.get("mod_rev", 1)):
                    continue
                sb = list(reversed(sb0))
                vs_emit(out, {"k": "vs", "w": W, "Av": Av, "bt": "vs", "B": [], "Bv": vs_enc(sb), "ctx": "vs-rev",
                              "op": "sub"},
                        run2(lambda a, b: be_call("__sub__", (a, b)), None, lambda: (mk_vs(sa, W), mk_vs(sb, W))), stats)
    return stats



# ----------------------------------------------------------------------------------------------
# C24 / C25: expression terms over variables that carry intervals
# ----------------------------------------------------------------------------------------------

T_BIN = ["__add__", "__sub__", "__mul__", "__floordiv__", "__mod__", "__and__", "__or__", "__xor__", "__lshift__",
         "__rshift__", "LShR"]
T_CMP = ["__eq__", "__ne__", "ULT", "ULE", "UGT", "UGE", "SLT", "SLE", "SGT", "SGE"]
T_UN = ["__neg__", "__invert__"]
# operator families whose interval transfer functions are sound on the pinned tree for every well-formed operand of
# width <= 4 (established by the exhaustive C21 tiers); the seeded random tiers draw only from these
SOUND_BIN = ["__add__", "__sub__"]
SOUND_CMP = ["ULT", "ULE", "UGT", "UGE"]
SOUND_UN = ["__invert__"]


def top(w):
    return [w, 1, 0, (1 << w) - 1, 0, []]


def var_ast(name, w, t):
    import claripy
    v = claripy.BVS(name, w, explicit_name=True)
    if t is None or (t[1] == 1 and t[2] == 0 and t[3] == (1 << w) - 1 and not t[4]):
        return v
    return v.annotate(claripy.annotation.StridedIntervalAnnotation(t[1], t[2], t[3]))


def build_ann(t, env):
    op = t[0]
    if op == "BVS":
        return env[t[1]]
    if op in ("BVV", "BoolV", "BoolS"):
        return TM.build(t)
    a = [build_ann(x, env) for x in t[3]]
    return TM.build_std(op, t, a)


def conv_event(out, t, vars_, ctx, stats, solver=False, keep=None, truth=True):
    """vars_: [[name, w, tuple-or-None]]"""
    import claripy
    env = {n: var_ast(n, w, si) for n, w, si in vars_}
    exc, ast = guarded(lambda: build_ann(t, env))
    if exc:
        stats["build-failed"] = stats.get("build-failed", 0) + 1
        return
    used = TM.free_vars(t)
    vv = [[n, w, [strip(si) if si else top(w)]] for n, w, si in vars_ if n in used]
    for n, w in used.items():
        if w == 0:
            vv.append([n, 0, []])
    if keep is not None:
        keep.append(ast)
    exc, r = guarded(lambda: claripy.backends.vsa.convert(ast))
    if exc in ("BackendError", "BackendUnsupportedError"):
        stats["unsupported"] = stats.get("unsupported", 0) + 1
        return
    ev = {"k": "conv", "op": t[0], "t": t, "vars": vv, "rt": "si", "R": [], "rb": [1, 1], "exc": exc, "how": "convert",
          "cls": 0, "ctx": ctx, "sv_on": 0, "sv_eval": [], "sv_mm": [], "sv_exc": "", "tq": []}
    if not exc:
        kind, payload = value(r)
        if kind == "si":
            ev["R"] = payload
            if TM.is_bool(t):
                ev["exc"] = "ResultType:si-for-bool"
        elif kind == "bool":
            ev["rt"] = "bool"
            ev["rb"] = payload
            if not TM.is_bool(t):
                ev["exc"] = "ResultType:bool-for-bv"
        else:
            ev["exc"] = "ResultType:" + str(payload if kind == "other" else kind)
    if solver and not ev["exc"] and ev["rt"] == "si" and TM.width(t) <= 6:
        # the same expression through the light frontend (SolverVSA): eval / min / max must not exclude a value
        w = TM.width(t)
        sv = claripy.SolverVSA()
        e1, vals = guarded(lambda: sv.eval(ast, (1 << w) + 1))
        e2, mn = guarded(lambda: sv.min(ast))
        e3, mx = guarded(lambda: sv.max(ast))
        if e1 or e2 or e3:
            ev["sv_exc"] = e1 or e2 or e3
        else:
            ev["sv_on"] = 1
            ev["sv_eval"] = [I(v) for v in vals]
            ev["sv_mm"] = [I(mn), I(mx)] if mn is not None and mx is not None else []
    if truth and not ev["exc"] and ev["rt"] == "bool" and ast.op not in ("BoolV",):
        # truth queries on the backend-wide caches, in both orders, each followed by the solver queries
        # tq row = [order, is_true, is_false, satisfiable(extra=[c]), satisfiable() after add(c), eval has True]
        be = claripy.backends.vsa

        def b(f):
            e_, v = guarded(f)
            return -1 if e_ else (1 if v else 0)
        for order in (0, 1):
            be.downsize()                      # both orders start from empty is_true / is_false caches
            s1, s2 = claripy.SolverVSA(), claripy.SolverVSA()
            if order == 0:
                it = b(lambda: s1.is_true(ast))
                if_ = b(lambda: be.is_false(ast))
            else:
                if_ = b(lambda: s1.is_false(ast))
                it = b(lambda: be.is_true(ast))
            sat1 = b(lambda: s2.satisfiable(extra_constraints=[ast]))
            e_, _ = guarded(lambda: s1.add(ast))
            sat2 = b(lambda: s1.satisfiable()) if not e_ else -1
            e_, vals = guarded(lambda: s2.eval(ast, 2))
            evt = -1 if e_ else (1 if True in vals else 0)
            ev["tq"].append([order, it, if_, sat1, sat2, evt])
        be.downsize()
    rewritten = (not exc) and TM.ser(ast) != t
    out.write(ev, nontrivial_key=[t, vv], outcome=(ev["exc"] or "ok"),
              sample={"t": t, "vars": vv, "rt": ev["rt"], "R": ev["R"], "rb": ev["rb"]})
    if rewritten:
        stats["rewritten"] = stats.get("rewritten", 0) + 1


def d1_terms(W, maxw=6):
    """depth-1 operator shapes over x, y (width W) and a few depth-2 shapes that exercise If/excavation"""
    x, y = TM.BVS("x", W), TM.BVS("y", W)
    for op in T_BIN:
        yield TM.T(op, x, y)
    for op in T_CMP:
        yield TM.T(op, x, y)
    for op in T_UN:
        yield TM.T(op, x)
    for n in range(1, maxw - W + 1):
        yield TM.T("ZeroExt", x, ints=(n,))
        yield TM.T("SignExt", x, ints=(n,))
    for hi in range(W):
        for lo in range(hi + 1):
            if not (hi == W - 1 and lo == 0):
                yield TM.T("Extract", x, ints=(hi, lo))
    yield TM.T("Concat", x, y)
    for c in ("ULT", "SLE", "__eq__"):
        cond = TM.T(c, x, y)
        yield TM.T("If", cond, x, y)
        yield TM.T("If", cond, TM.BVV(1, W), TM.BVV(0, W))
        yield TM.T("__add__", TM.T("If", cond, x, TM.BVV(1, W)), y)          # excavated by convert
        yield TM.T("If", cond, TM.T("ULE", x, TM.BVV(1, W)), TM.T("UGT", y, TM.BVV(1, W)))   # Boolean If
        yield TM.T("Not", cond)
        yield TM.T("And", cond, TM.T("ULE", x, TM.BVV((1 << W) - 2, W)))
        yield TM.T("Or", cond, TM.T("UGE", y, TM.BVV(1, W)))
        yield TM.T("If", TM.T("Not", cond), TM.T("If", TM.T("UGT", x, y), x, y), TM.BVV(0, W))   # nested If
    # an If whose branch holds (directly, or under an arithmetic node so that only ITE excavation exposes it) a second
    # If guarded by the negated / the same condition; the branch values are pairwise different constants or variables
    one, top_ = TM.BVV(1, W), TM.BVV((1 << W) - 1, W)
    for c in ("ULT", "__eq__"):
        cond = TM.T(c, x, y)
        ncond = TM.T("Not", cond)
        for inner_c in (ncond, cond):
            inner = TM.T("If", inner_c, x, top_)
            yield TM.T("If", cond, y, inner)                                   # in the else branch, direct
            yield TM.T("If", cond, inner, y)                                   # in the then branch, direct
            yield TM.T("If", cond, y, TM.T("__add__", one, inner))             # else branch, under +
            yield TM.T("If", cond, TM.T("__add__", one, inner), y)             # then branch, under +
            yield TM.T("If", ncond, y, TM.T("__xor__", inner, one))            # outer negated, under ^


class TermGen:
    def __init__(self, rng, Wb, names, sound_only):
        self.rng, self.Wb, self.names = rng, Wb, names
        self.bin = SOUND_BIN if sound_only else T_BIN
        self.cmp = SOUND_CMP if sound_only else T_CMP
        self.un = SOUND_UN if sound_only else T_UN
        self.sound = sound_only

    def leaf(self, w):
        r = self.rng
        if w == self.Wb and r.random() < 0.7:
            return TM.BVS(r.choice(self.names), w)
        if w > self.Wb and not self.sound and r.random() < 0.5:
            return TM.T(r.choice(["ZeroExt", "SignExt"]), TM.BVS(r.choice(self.names), self.Wb), ints=(w - self.Wb,))
        if w > self.Wb and self.sound and r.random() < 0.5:
            return TM.T("ZeroExt", TM.BVS(r.choice(self.names), self.Wb), ints=(w - self.Wb,))
        return TM.BVV(r.getrandbits(w), w)

    def bv(self, w, d):
        r = self.rng
        if d <= 0:
            return self.leaf(w)
        c = r.random()
        if c < 0.45:
            return TM.T(r.choice(self.bin), self.bv(w, d - 1), self.bv(w, d - 1))
        if c < 0.55:
            return TM.T(r.choice(self.un), self.bv(w, d - 1))
        if c < 0.75:
            return TM.T("If", self.boolean(d - 1), self.bv(w, d - 1), self.bv(w, d - 1))
        if c < 0.85 and w < 2 * self.Wb and not self.sound:
            w2 = r.choice([x for x in (self.Wb, 2 * self.Wb) if x > w] or [w])
            if w2 > w:
                lo = r.randint(0, w2 - w)
                return TM.T("Extract", self.bv(w2, d - 1), ints=(lo + w - 1, lo))
        if c < 0.95 and w > self.Wb and not self.sound:
            return TM.T("Concat", self.bv(w - self.Wb, d - 1), self.bv(self.Wb, d - 1))
        return self.leaf(w)

    def boolean(self, d):
        r = self.rng
        c = r.random()
        if d <= 0 or c < 0.6:
            w = self.Wb
            return TM.T(r.choice(self.cmp), self.bv(w, max(d - 1, 0)), self.bv(w, max(d - 1, 0)))
        if c < 0.75:
            return TM.T("Not", self.boolean(d - 1))
        if c < 0.9:
            return TM.T(r.choice(["And", "Or"]), self.boolean(d - 1), self.boolean(d - 1))
        return TM.T("If", self.boolean(d - 1), self.boolean(d - 1), self.boolean(d - 1))


def gen_conv(job, out, rng):
    stats = {}
    mode = job["mode"]
    part, nparts = job.get("part", 0), job.get("nparts", 1)
    if mode == "d1":
        W = job["W"]
        pop = wf_population(W)
        mod = job.get("slice_mod", 1)
        terms = list(d1_terms(W, job.get("maxw", 6)))
        k = 0
        for ia, sx in enumerate(pop):
            if ia % nparts != part:
                continue
            for ib, sy in enumerate(pop):
                k += 1
                if (ia * len(pop) + ib) % mod != 0:
                    continue
                for t in terms:
                    if "y" not in TM.free_vars(t) and ib != 0:
                        continue        # single-variable shapes once per x
                    conv_event(out, t, [["x", W, sx], ["y", W, sy]], "d1", stats, solver=True)
    elif mode == "seq":
        # one variable name, the same bounds, strides from coarse to fine, converted one after the other in this
        # process: first with every earlier expression still alive, then after dropping them (gc): a conversion must
        # never be served from an expression / cached backend object that differs only in the stride
        import gc
        W = job["W"]
        groups = {}
        for t in wf_population(W):
            groups.setdefault((t[2], t[3]), []).append(t)
        x = TM.BVS("v", W)
        terms = [x, TM.T("__add__", x, TM.BVV(1, W)), TM.T("ULE", x, TM.BVV(1, W))]
        for alive in (True, False):
            keep = []
            for (lb, ub), g in sorted(groups.items()):
                if len(g) < 2:
                    continue
                for si in sorted(g, key=lambda t: -t[1]):          # coarsest stride first
                    for t in terms:
                        conv_event(out, t, [["v", W, si]], "seq-alive" if alive else "seq-gc", stats, keep=keep)
                    if not alive:
                        del keep[:]
                        gc.collect()
    else:
        sound = job.get("ops") == "sound"
        ctx = "rand-sound" if sound else "cat"
        for i in range(job["n"]):
            Wb = rng.choice(job.get("widths", [2, 3, 4]))
            nv = rng.choice([1, 2, 2, 3]) if Wb <= 3 else rng.choice([1, 2])
            names = ["x", "y", "z"][:nv]
            pop = _pop_cache(Wb)
            vars_ = [[n, Wb, rng.choice(pop) if rng.random() < 0.85 else None] for n in names]
            g = TermGen(rng, Wb, names, sound)
            d = rng.choice(job.get("depths", [2, 2, 3]))
            want_bool = rng.random() < 0.35
            w = Wb if rng.random() < 0.8 or sound else rng.choice([Wb, 2 * Wb]) if 2 * Wb <= 8 else Wb
            t = g.boolean(d) if want_bool else g.bv(w, d)
            if i % nparts != part:
                continue
            conv_event(out, t, vars_, ctx, stats)
    return stats


_POP = {}


def _pop_cache(W):
    if W not in _POP:
        _POP[W] = wf_population(W)
    return _POP[W]


# ---- C25 ----

def c2si_event(out, c, vars_, shape, stats):
    import claripy
    env = {n: var_ast(n, w, si) for n, w, si in vars_}
    exc, ast = guarded(lambda: build_ann(c, env))
    if exc:
        stats["build-failed"] = stats.get("build-failed", 0) + 1
        return
    if ast.op == "BoolV":
        stats["folded"] = stats.get("folded", 0) + 1      # claripy folded the constraint to a constant: still test it
    used = TM.free_vars(c)
    vv = [[n, w, [strip(si) if si else top(w)]] for n, w, si in vars_ if n in used]
    ev = {"k": "c2si", "op": shape, "c": c, "vars": vv, "sat": True, "reps": [], "exc": "", "how": "constraint_to_si",
          "cls": 0, "ctx": "c2si"}
    exc, r = guarded(lambda: claripy.constraint_to_si(ast))
    if exc:
        ev["exc"] = exc
    else:
        sat, reps = r
        ev["sat"] = bool(sat)
        declared = {n for n, _, _ in vv}
        for expr, bound in reps:
            te = TM.ser(expr)
            if not set(TM.free_vars(te)) <= declared:
                ev["exc"] = "foreign-variable"
                break
            exc2, b = guarded(lambda: claripy.backends.vsa.convert(bound))
            if exc2:
                ev["exc"] = "bound-convert:" + exc2
                break
            kind, payload = value(b)
            if kind != "si":
                ev["exc"] = "bound-type:" + kind
                break
            ev["reps"].append([te, payload])
        if ev["exc"]:
            ev["reps"] = []
    nt = bool(ev["reps"]) or not ev["sat"]
    out.write(ev, nontrivial_key=[c, vv] if nt else None, outcome=(ev["exc"] or ("sat" if ev["sat"] else "unsat")),
              sample={"c": c, "vars": vv, "sat": ev["sat"], "reps": ev["reps"]})


def c2si_shapes(W):
    """(shape name, lhs term, lhs width) over x (and y) of width W, constants enumerated exhaustively"""
    x, y = TM.BVS("x", W), TM.BVS("y", W)
    yield "var", x, W
    for k in range(1 << W):
        kk = TM.BVV(k, W)
        yield "add-k", TM.T("__add__", x, kk), W
        yield "sub-k", TM.T("__sub__", x, kk), W
        yield "k-sub", TM.T("__sub__", kk, x), W
        yield "and-k", TM.T("__and__", x, kk), W
    for k in range(W + 1):
        yield "shl-k", TM.T("__lshift__", x, TM.BVV(k, W)), W
    yield "add-xy", TM.T("__add__", x, y), W
    yield "sub-xy", TM.T("__sub__", x, y), W
    for hi in range(W):
        for lo in range(hi + 1):
            if not (hi == W - 1 and lo == 0):
                yield "extract", TM.T("Extract", x, ints=(hi, lo)), hi - lo + 1
    for n in (1, 2):
        yield "zext", TM.T("ZeroExt", x, ints=(n,)), W + n
        yield "sext", TM.T("SignExt", x, ints=(n,)), W + n
        for k in (range(1 << n) if n == 1 else (0, 3)):
            yield "concat-kx", TM.T("Concat", TM.BVV(k, n), x), W + n
            yield "concat-xk", TM.T("Concat", x, TM.BVV(k, n)), W + n
    # ZeroExt(n, x) & m with m a contiguous low-ones mask narrower than / as wide as / wider than x
    for n in (1, 2):
        for mb in (W - 1, W, W + 1):
            if 1 <= mb <= W + n:
                yield "zext-and", TM.T("__and__", TM.T("ZeroExt", x, ints=(n,)), TM.BVV((1 << mb) - 1, W + n)), W + n
    for k in (0, 1, (1 << W) - 1):
        for c in ("ULT", "SGE", "__eq__"):
            yield "if", TM.T("If", TM.T(c, y, TM.BVV(1, W)), x, TM.BVV(k, W)), W


def gen_c2si(job, out, rng):
    stats = {}
    W = job["W"]
    part, nparts = job.get("part", 0), job.get("nparts", 1)
    mod = job.get("slice_mod", 1)
    mode = job.get("mode", "shapes")
    pop = _pop_cache(W)
    i = 0
    if mode == "shapes":
        for shape, lhs, lw in c2si_shapes(W):
            for cmp_ in T_CMP:
                for c in range(1 << lw):
                    i += 1
                    if i % nparts != part or (i // nparts) % mod != 0:
                        continue
                    t = TM.T(cmp_, lhs, TM.BVV(c, lw))
                    c2si_event(out, t, [["x", W, None], ["y", W, None]], shape, stats)
    elif mode == "annot":
        # variables that carry intervals, compared with a constant or with another interval variable
        for ia, sx in enumerate(pop):
            for cmp_ in T_CMP:
                for c in range(1 << W):
                    i += 1
                    if i % nparts != part or (i // nparts) % mod != 0:
                        continue
                    c2si_event(out, TM.T(cmp_, TM.BVS("x", W), TM.BVV(c, W)), [["x", W, sx]], "annot-k", stats)
                    c2si_event(out, TM.T(cmp_, TM.T("__add__", TM.BVS("x", W), TM.BVV(1, W)), TM.BVV(c, W)),
                               [["x", W, sx]], "annot-add-k", stats)
                for ib, sy in enumerate(pop):
                    i += 1
                    if i % nparts != part or (i // nparts) % (mod * 8) != 0:
                        continue
                    c2si_event(out, TM.T(cmp_, TM.BVS("x", W), TM.BVS("y", W)), [["x", W, sx], ["y", W, sy]],
                               "annot-var", stats)
    elif mode == "plaincmp":
        # seeded: a comparison between a plain variable (optionally zero-extended) and a constant
        for _ in range(job["n"]):
            i += 1
            n = rng.choice([0, 0, 1, 2])
            lhs = TM.BVS("x", W) if n == 0 else TM.T("ZeroExt", TM.BVS("x", W), ints=(n,))
            t = TM.T(rng.choice(T_CMP), lhs, TM.BVV(rng.getrandbits(W + n), W + n))
            if i % nparts != part:
                continue
            c2si_event(out, t, [["x", W, None]], "plaincmp", stats)
    elif mode == "bool":
        # And / Or / Not of two simple constraints (deterministic catalogue from a fixed seed)
        r2 = random.Random(job.get("catseed", 4242))
        simple = []
        for shape, lhs, lw in c2si_shapes(W):
            if shape in ("var", "add-k", "sub-k", "extract", "zext", "and-k"):
                simple.append((lhs, lw))
        for _ in range(job["n"]):
            i += 1
            parts = []
            for _k in range(2):
                lhs, lw = r2.choice(simple)
                parts.append(TM.T(r2.choice(T_CMP), lhs, TM.BVV(r2.getrandbits(lw), lw)))
            form = r2.choice(["And", "Or", "NotAnd", "NotOr", "Not"])
            if form == "And":
                t = TM.T("And", *parts)
            elif form == "Or":
                t = TM.T("Or", *parts)
            elif form == "NotAnd":
                t = TM.T("Not", TM.T("And", *parts))
            elif form == "NotOr":
                t = TM.T("Not", TM.T("Or", *parts))
            else:
                t = TM.T("Not", parts[0])
            if i % nparts != part:
                continue
            c2si_event(out, t, [["x", W, None], ["y", W, None]], "bool-" + form, stats)
    return stats


# ----------------------------------------------------------------------------------------------
# wide widths (8..64 bits): random well-formed intervals, sampled member pairs, values as LSB-first bit lists
# ----------------------------------------------------------------------------------------------

def wide_enc(x):
    w = x.bits
    big = x.stride >= (1 << w)
    return {"w": w, "s": TM.bits(0 if big else x.stride, w), "lb": TM.bits(x.lower_bound, w),
            "ub": TM.bits(x.upper_bound, w), "bot": 1 if x.is_empty else 0, "sbig": 1 if big else 0}


def rand_wide(rng, w):
    """a random well-formed interval with wrapping / stride edge forms; returns (StridedInterval, member sampler)"""
    from claripy.backends.backend_vsa import StridedInterval
    m = 1 << w
    form = rng.choice(["single", "top", "dense", "pow2", "odd", "wrap", "pole"])
    if form == "single":
        lb, s, k = rng.getrandbits(w), 0, 0
    elif form == "top":
        lb, s, k = 0, 1, m - 1
    elif form == "dense":
        lb, s, k = rng.getrandbits(w), 1, rng.getrandbits(rng.randint(1, w - 1))
    elif form == "pow2":
        s = 1 << rng.randint(0, w - 2)
        lb, k = rng.getrandbits(w), rng.randint(1, max(1, (m // s) - 1))
    elif form == "odd":
        s = rng.getrandbits(rng.randint(1, w - 1)) | 1
        lb, k = rng.getrandbits(w), rng.randint(1, max(1, (m // s) - 1))
    elif form == "wrap":
        s = rng.choice([1, 2, 3, 4, 7, 8, 255, 256]) % m or 1
        lb = m - rng.randint(1, min(m - 1, 1000))
        k = rng.randint(1, max(1, min((m // s) - 1, 5000)))
    else:
        s = rng.choice([1, 2, 3, 5, 16])
        lb = (m >> 1) - rng.randint(0, min((m >> 1) - 1, 40))
        k = rng.randint(1, max(1, min((m // s) - 1, 200)))
    k = min(k, (m - 1) // s) if s else 0
    ub = (lb + k * s) % m
    x = StridedInterval(bits=w, stride=s, lower_bound=lb, upper_bound=ub)
    if x.stride == 0:
        k = 0

    def member():
        j = rng.choice([0, k, rng.randint(0, k)]) if k else 0
        return (lb + j * s) % m
    return x, member


WIDE_BIN = {"add": lambda a, b: be_call("__add__", (a, b)), "sub": lambda a, b: be_call("__sub__", (a, b)),
            "union": lambda a, b: a.union(b)}
WIDE_CMP = {"ULT": lambda a, b: be_call("ULT", (a, b)), "ULE": lambda a, b: be_call("ULE", (a, b)),
            "UGT": lambda a, b: be_call("UGT", (a, b)), "UGE": lambda a, b: be_call("UGE", (a, b))}


def gen_wide(job, out, rng):
    npairs = job.get("pairs", 16)
    stats = {}
    for i in range(job["n"]):
        w = rng.choice(job.get("widths", [8, 16, 32, 64]))
        a, ma = rand_wide(rng, w)
        b, mb = rand_wide(rng, w)
        xs = [[TM.bits(ma(), w), TM.bits(mb(), w)] for _ in range(npairs)]
        base = {"k": "wide", "a": wide_enc(a), "b": wide_enc(b), "xs": xs, "how": "be", "cls": 0, "ctx": "wide",
                "rb": [1, 1]}
        ops = list(WIDE_BIN.items()) + list(WIDE_CMP.items()) + [("not", lambda x, y: be_call("__invert__", (x,)))]
        if a.is_integer and w >= 16:
            ops.append(("rev", lambda x, y: be_call("Reverse", (x,))))
        for op, f in ops:
            exc, r = guarded(lambda: f(a.copy(), b.copy()))
            ev = dict(base, op=op, exc=exc, r=wide_enc(a))
            if not exc:
                from claripy.backends.backend_vsa import BoolResult, StridedInterval
                if isinstance(r, BoolResult):
                    ev["rb"] = [1 if False in r.value else 0, 1 if True in r.value else 0]
                elif isinstance(r, StridedInterval) and type(r) is StridedInterval:
                    if r._reversed:
                        r = r._reverse()
                    ev["r"] = wide_enc(r)
                else:
                    ev["exc"] = "ResultType:" + type(r).__name__
            out.write(ev, nontrivial_key=[op, ev["a"], ev["b"]], outcome=(ev["exc"] or "ok"),
                      sample={"op": op, "a": [w, a.stride, a.lower_bound, a.upper_bound],
                              "b": [w, b.stride, b.lower_bound, b.upper_bound]} if i < 2 else None)
    return stats


def gen_replay(job, out, rng):
    """re-execute the inputs of recorded events on the current tree (./check --replay)"""
    rec = Rec(out, 0)
    stats = {}
    for ev in job["events"]:
        k = ev["k"]
        if k in ("bin", "cmp", "cat", "join", "meet") and len(ev["A"]) == 1 and len(ev.get("B", [])) == 1 \
                and ev.get("n", 2) == 2 and ev.get("ctx", "si") == "si":
            op = ev["op"]
            pair_events(rec, {k}, [op], ev["A"][0], ev["B"][0])
        elif k in ("bin", "cmp", "cat", "join", "meet"):
            rec2 = Rec(out, 0, unsupported=UNSUPPORTED)
            dsis_events(rec2, ev["A"], ev["B"], [ev["op"]], ev.get("ctx", "dsis"), {k})
        elif k == "conv":
            conv_event(out, ev["t"], [[n, w, (v[0] if v else None)] for n, w, v in ev["vars"]], ev.get("ctx", "replay"),
                       stats)
        elif k == "c2si":
            c2si_event(out, ev["c"], [[n, w, (v[0] if v else None)] for n, w, v in ev["vars"]], ev["op"], stats)
        elif k == "q" and ev.get("mode") == "si":
            e2 = query_event(ev["A"][0])
            e2.update({"cls": 0, "exc": "", "how": "meth", "ctx": "si"})
            out.write(e2, outcome="q")
        elif k == "un" and len(ev["A"]) == 1:
            r3 = gen_unary({"W": ev["A"][0][0], "popA": [ev["A"][0]], "maxw": max(6, ev["A"][0][0] + 2)}, out, rng)
            r3.flush()
        if k in ("bin", "cmp", "cat", "join", "meet") and not (len(ev["A"]) == 1 and len(ev.get("B", [])) == 1):
            rec2.flush()
    return rec


GENS = {"replay": gen_replay, "wide": gen_wide, "pairs": gen_pairs, "unary": gen_unary, "concatx": gen_concat_x, "query": gen_query, "triple": gen_triple,
        "dsis": gen_dsis, "vs": gen_vs, "conv": gen_conv, "c2si": gen_c2si}


def main():
    job = json.load(open(sys.argv[1]))
    logging.disable(logging.CRITICAL)
    sys.setrecursionlimit(job.get("reclimit", 150))     # runaway recursion in a transfer function fails fast
    signal.signal(signal.SIGPROF, _alarm)     # CPU time, not wall clock: a loaded machine must not look like a hang
    rng = random.Random(job.get("seed", 0))
    out = ShardWriter(sys.argv[2], job.get("shard", 20000))
    subjobs = job["jobs"] if job["gen"] == "multi" else [job]
    extra = {"closure": [], "closure_x": [], "nexc": 0, "unsupported": 0, "inputs": 0}
    seen = set()
    sub_outcomes = {}
    real_write = out.write
    for sub in subjobs:
        tag = sub.get("tag", "det")

        def tagged_write(ev, *a, _tag=tag, **k):
            ev["tg"] = _tag
            extra["ev_" + _tag] = extra.get("ev_" + _tag, 0) + 1
            return real_write(ev, *a, **k)
        # operations of a harvest job are executed only to collect the closure intervals, nothing is recorded
        out.write = (lambda *a, **k: None) if sub.get("harvest") else tagged_write
        rec = GENS[sub["gen"]](sub, out, random.Random(sub.get("seed", 0)))
        if isinstance(rec, Rec):
            rec.flush()
            if sub.get("harvest"):
                extra["harvested_calls"] = extra.get("harvested_calls", 0) + rec.nsub
                rec.ninputs = rec.nexc = rec.nunsupported = 0
            else:
                extra["subevents"] = extra.get("subevents", 0) + rec.nsub
                extra["nontrivial_sub"] = extra.get("nontrivial_sub", 0) + rec.nontrivial
                for k2, v2 in rec.outcomes.items():
                    sub_outcomes[k2] = sub_outcomes.get(k2, 0) + v2
            for nm, d in (("closure", rec.closure), ("closure_x", rec.closure_x)):
                for t in d.values():
                    if (nm, key(t)) not in seen:
                        seen.add((nm, key(t)))
                        extra[nm].append(t)
            extra["nexc"] += rec.nexc
            extra["unsupported"] += rec.nunsupported
            extra["inputs"] += rec.ninputs
        elif isinstance(rec, dict):
            for k, v in rec.items():
                extra[k] = extra.get(k, 0) + v
    out.write = real_write
    extra["sub_outcomes"] = sub_outcomes
    out.close(extra)


if __name__ == "__main__":
    main()
