"""Worker: solver histories over WIDE bit-vectors (32 / 64 bits; arithmetic, masks, shifts, If, Concat / Extract), recorded
by harness/recorder.py (the same wrapper that records the repository's test-suite) and validated by spec/Knowledge.tla:
at these widths TLC cannot enumerate models, but what the solver itself answered earlier must never be contradicted.

job: {"seed", "n", "classes": [[cls, kw]...], "len"}        output: ndjson traces (one per history) + stats
"""
from __future__ import annotations

import json
import os
import random
import sys


def main():
    job = json.load(open(sys.argv[1]))
    prefix = sys.argv[2]
    out = prefix + ".0.ndjson"
    from . import recorder
    claripy = recorder.install(out)
    rng = random.Random(job.get("seed", 0))
    calls = 0
    n_hist = 0
    for h in range(job["n"]):
        W = rng.choice([32, 64, 16, 128])
        M = (1 << W) - 1
        x, y = claripy.BVS("x", W, explicit_name=True), claripy.BVS("y", W, explicit_name=True)
        k = lambda: claripy.BVV(rng.choice([0, 1, 2, 3, 5, 7, 16, 255, 256, 1000, M, M - 1, M >> 1, (M >> 1) + 1, rng.getrandbits(W)]) & M, W)  # noqa: E731

        def cons():
            v = rng.choice([x, y])
            r = rng.random()
            if r < 0.12:
                return claripy.ULE(v, k())
            if r < 0.24:
                return claripy.UGE(v, k())
            if r < 0.32:
                return claripy.SLT(v, k())
            if r < 0.40:
                return (v & claripy.BVV(rng.choice([1, 3, 0xf, 0xff, 0xf0]), W)) == claripy.BVV(rng.choice([0, 1, 2, 0x10]), W)
            if r < 0.50:
                return v == k()
            if r < 0.58:
                return v != k()
            if r < 0.66:
                return x + y == k()
            if r < 0.72:
                return x * 3 + 1 == k()
            if r < 0.78:
                return claripy.LShR(v, rng.randrange(1, W)) == claripy.BVV(rng.randrange(4), W)
            if r < 0.84:
                return claripy.If(claripy.ULT(x, y), x, y) == k()
            if r < 0.90:
                return v[W // 2 - 1:0] == claripy.BVV(rng.randrange(8), W // 2)
            if r < 0.95:
                return claripy.Or(x == k(), x == k(), y == k())
            return claripy.UGT(x - y, k())

        def expr():
            return rng.choice([x, y, x + y, x & 0xff, x ^ y, claripy.LShR(x, 3), claripy.If(claripy.ULT(x, y), x, y),
                               claripy.Concat(x[7:0], y[7:0]), x * 3, x - 1, claripy.ZeroExt(8, x[7:0])])

        cls, kw = rng.choice(job["classes"])
        S = [getattr(claripy, cls)(**kw)]
        for _ in range(rng.randint(3, job.get("len", 12))):
            s = rng.choice(S)
            r = rng.random()
            try:
                if r < 0.30:
                    s.add(cons())
                elif r < 0.45:
                    s.eval(expr(), rng.choice([1, 2, 5, 20]), extra_constraints=([cons()] if rng.random() < 0.2 else ()))
                elif r < 0.60:
                    getattr(s, rng.choice(["min", "max"]))(expr(), signed=rng.random() < 0.4,
                                                            extra_constraints=([cons()] if rng.random() < 0.2 else ()))
                elif r < 0.70:
                    e_ = expr()
                    s.solution(e_, claripy.BVV(k().args[0] & ((1 << e_.length) - 1), e_.length),
                               extra_constraints=([cons()] if rng.random() < 0.2 else ()))
                elif r < 0.80:
                    s.satisfiable(extra_constraints=([cons()] if rng.random() < 0.3 else ()))
                elif r < 0.88 and len(S) < 4:
                    S.append(s.branch())
                elif r < 0.94:
                    s.simplify()
                else:
                    s.downsize()
            except claripy.errors.UnsatError:
                pass
            except claripy.errors.ClaripyError:
                pass
        # closing battery on every solver: the same queries twice, optima, then exhaustive-looking evals
        es = [x, y, x + y, x & 0xff]
        for s in S:
            for e in es:
                for q in ("min", "max"):
                    for sg in (False, True):
                        try:
                            getattr(s, q)(e, signed=sg)
                        except claripy.errors.ClaripyError:
                            pass
                try:
                    vs = s.eval(e, 6)
                    for v in vs[:2]:
                        s.solution(e, v)
                    s.eval(e, 3)
                except claripy.errors.ClaripyError:
                    pass
            try:
                s.satisfiable()
            except claripy.errors.ClaripyError:
                pass
        recorder.flush(f"wide-{job.get('seed', 0)}-{h}")
        n_hist += 1
    n_ev = 0
    if os.path.exists(out):
        with open(out) as f:
            for line in f:
                n_ev += len(json.loads(line)["ev"])
    else:
        open(out, "w").close()
    with open(prefix + ".stats.json", "w") as f:
        json.dump({"events": n_hist, "calls": n_ev, "nontrivial": n_hist, "outcomes": {"wide": n_hist}, "samples": [],
                   "files": [[out, n_hist]]}, f)


if __name__ == "__main__":
    main()
