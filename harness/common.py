"""Shared machinery: paths, seeds, TLC runner, evidence files, known findings, verdict/exit policy."""
from __future__ import annotations

import hashlib
import json
import os
import re
import shutil
import subprocess
import sys
import tempfile
import time
from concurrent.futures import ThreadPoolExecutor

VERIF = os.path.dirname(os.path.dirname(os.path.abspath(__file__)))
REPO = os.environ.get("VERIF_REPO", "/repo")
SPEC = os.path.join(VERIF, "spec")
EVID = os.environ.get("VERIF_EVID") or os.path.join(VERIF, "evidence")   # try_seed.sh redirects it: /verif/evidence only ever describes /repo
REPLAY = os.path.join(VERIF, "replay")
PY = "/venv/bin/python"
TLA_CP = "/opt/veriftools/tla/tla2tools.jar:/opt/veriftools/tla/CommunityModules-deps.jar"
NPROC = int(os.environ.get("VERIF_NPROC", str(os.cpu_count() or 4)))


def seed() -> int:
    try:
        return int(os.environ.get("VERIF_SEED", "0"))
    except ValueError:
        return 0


class MachineryError(Exception):
    """exit 2: the checker itself failed (TLC crash, vacuity, spec/second-opinion disagreement)"""


class SutCrash(Exception):
    """the interpreter running the code under verification died of SIGSEGV / SIGABRT / SIGBUS / SIGILL / SIGFPE while it
    executed claripy: that is behaviour of the code under verification (a violation of whatever property the worker was
    exercising), not a failure of the checker.  SIGKILL (out of memory, timeouts) stays a machinery failure."""

    def __init__(self, worker, job, signum, stderr):
        super().__init__(f"worker {worker} died of signal {signum}")
        self.worker, self.job, self.signum, self.stderr = worker, job, signum, stderr


# ----------------------------------------------------------------------------------------------
# scratch space (outside /repo and /verif, removed afterwards)
# ----------------------------------------------------------------------------------------------

_scratch = None


def scratch() -> str:
    global _scratch
    if _scratch is None:
        _scratch = tempfile.mkdtemp(prefix="claripy-verif-")
    return _scratch


def cleanup():
    global _scratch
    if _scratch and os.path.isdir(_scratch):
        shutil.rmtree(_scratch, ignore_errors=True)
    _scratch = None


# ----------------------------------------------------------------------------------------------
# TLC
# ----------------------------------------------------------------------------------------------

def tlc_cmd(module, cfg=None, workers=1, extra=(), xmx="3g"):
    # SerialGC + C1-only JIT: measured 12 s vs 20 s (ParallelGC) for 16 concurrent short event-validation runs
    # small young generation: measured 1.6-2x faster for 16 concurrent JVMs (default young gen of a 3g heap thrashes)
    return ["java", "-XX:+UseSerialGC", "-XX:TieredStopAtLevel=1", "-Xmn24m", "-Xss512m", f"-Xmx{xmx}", "-cp", TLA_CP,
            "tlc2.TLC",
            "-workers", str(workers), "-noGenerateSpecTE", *extra,
            *(["-config", cfg] if cfg else []), module]


def run_tlc(module, cfg=None, env=None, workers=1, extra=(), timeout=1800, xmx="3g", cwd=SPEC):
    """run one TLC process; returns (returncode, stdout)"""
    md = tempfile.mkdtemp(prefix="md-", dir=scratch())
    e = dict(os.environ)
    e.pop("JAVA_TOOL_OPTIONS", None)
    if env:
        e.update({k: str(v) for k, v in env.items()})
    cmd = tlc_cmd(module, cfg, workers, ["-metadir", md, *extra], xmx)
    try:
        p = subprocess.run(cmd, cwd=cwd, env=e, capture_output=True, text=True, timeout=timeout)
        return p.returncode, p.stdout + p.stderr
    except subprocess.TimeoutExpired as ex:
        return 124, (ex.stdout or b"").decode(errors="replace") if isinstance(ex.stdout, bytes) else (ex.stdout or "")
    finally:
        shutil.rmtree(md, ignore_errors=True)


_BAD = re.compile(r'^<<"BAD", (\d+), "([^"]*)"(?:, (.*))?>>$')
_DONE = re.compile(r'^<<"DONE", (\d+)(?:, (.*))?>>$')


def parse_event_output(out):
    """lines  <<"BAD", i, "clause">>  and  <<"DONE", n>>  printed by the Trace* modules"""
    bad, done = [], None
    for line in out.splitlines():
        line = line.strip()
        m = _BAD.match(line)
        if m:
            bad.append((int(m.group(1)), m.group(2), m.group(3)))
            continue
        m = _DONE.match(line)
        if m:
            done = int(m.group(1))
    return bad, done


def validate_events(module, events, shard_size=4000, timeout=1800, cfg=None, label="ev"):
    """Write events to ndjson shards, run one single-worker TLC per shard (NPROC in parallel).

    Returns list of (event_index, clause).  Raises MachineryError when TLC did not consume every event.
    """
    if not events:
        return []
    nshards = max(1, min((len(events) + shard_size - 1) // shard_size, 10 ** 6))
    # balance shards
    per = (len(events) + nshards - 1) // nshards
    d = tempfile.mkdtemp(prefix=label + "-", dir=scratch())
    jobs = []
    for k in range(nshards):
        chunk = events[k * per:(k + 1) * per]
        if not chunk:
            continue
        p = os.path.join(d, f"s{k}.ndjson")
        with open(p, "w") as f:
            for ev in chunk:
                f.write(json.dumps(ev, separators=(",", ":")))
                f.write("\n")
        jobs.append((k * per, len(chunk), p))

    def one(job):
        base, n, path = job
        rc, out = run_tlc(module, cfg=cfg, env={"TRACE_FILE": path}, timeout=timeout)
        bad, done = parse_event_output(out)
        if done != n:
            raise MachineryError(f"TLC {module} consumed {done} of {n} events (rc={rc}) shard={path}\n" + out[-3000:])
        return [(base + i - 1, c, x) for (i, c, x) in bad]

    res = []
    with ThreadPoolExecutor(max_workers=NPROC) as ex:
        for r in ex.map(one, jobs):
            res.extend(r)
    shutil.rmtree(d, ignore_errors=True)
    return sorted(res)


_STATES = re.compile(r"(\d+) states generated, (\d+) distinct states found")


def tlc_stats(out):
    m = None
    for m in _STATES.finditer(out):
        pass
    if not m:
        return None
    return {"generated": int(m.group(1)), "distinct": int(m.group(2))}


# ----------------------------------------------------------------------------------------------
# known findings
# ----------------------------------------------------------------------------------------------

def load_findings(pid):
    """entries of known_findings.json for a property. Each: {property, id, what, status, match:{...}}"""
    p = os.path.join(VERIF, "known_findings.json")
    if not os.path.exists(p):
        return []
    with open(p) as f:
        data = json.load(f)
    skip = set(filter(None, os.environ.get("VERIF_TRIAGE_UNLIST", "").split(",")))   # triage aid only: show listed findings as violations
    return [e for e in data.get("findings", []) if e.get("property") == pid and not str(e.get("status", "")).startswith("fixed")
            and e.get("id") not in skip]


def load_set(name):
    """exact failing-input set findings/<name> : one canonical signature per line"""
    p = os.path.join(VERIF, "findings", name)
    if not os.path.exists(p):
        return set()
    with open(p) as f:
        return {l.rstrip("\n") for l in f if l.strip()}


def sig(obj) -> str:
    """canonical signature of a failing input"""
    s = json.dumps(obj, sort_keys=True, separators=(",", ":"))
    return hashlib.sha256(s.encode()).hexdigest()[:20]


# ----------------------------------------------------------------------------------------------
# evidence + exit
# ----------------------------------------------------------------------------------------------

class Result:
    def __init__(self, pid, level, tier):
        self.pid, self.level, self.tier = pid, level, tier
        self.t0 = time.time()
        self.coverage = {}
        self.assumptions = []
        self.violations = []       # list of dict(replay payloads)
        self.known = {}            # finding id -> (what, count)
        self.notes = []

    def add_known(self, fid, what):
        w, c = self.known.get(fid, (what, 0))
        self.known[fid] = (w, c + 1)

    def add_violation(self, payload):
        self.violations.append(payload)

    def finish(self):
        os.makedirs(EVID, exist_ok=True)
        cov = dict(self.coverage)
        cov.setdefault("known_findings_matched", {k: v[1] for k, v in self.known.items()})
        ev = {
            "property_id": self.pid,
            "tier": self.tier,
            "seed": seed(),
            "level": self.level,
            "coverage": cov,
            "assumptions": self.assumptions,
            "wall_s": round(time.time() - self.t0, 2),
            "violations": len(self.violations),
        }
        if self.notes:
            ev["notes"] = self.notes
        with open(os.path.join(EVID, self.pid + ".json"), "w") as f:
            json.dump(ev, f, indent=1, default=str)
        for fid, (what, cnt) in sorted(self.known.items()):
            print(f"KNOWN-FINDING: property={self.pid} {fid}: {what} ({cnt} instance(s) this run)")
        os.makedirs(REPLAY, exist_ok=True)
        for fn in os.listdir(REPLAY):
            if fn.startswith(f"{self.pid}-{self.tier}-"):
                os.unlink(os.path.join(REPLAY, fn))
        if self.violations:
            for i, v in enumerate(self.violations[:5]):
                path = os.path.join(REPLAY, f"{self.pid}-{self.tier}-{i}.json")
                with open(path, "w") as f:
                    json.dump(v, f, indent=1, default=str)
                print(f"VIOLATION property={self.pid} replay={path}")
                print("  " + json.dumps(v, default=str)[:600])
            if len(self.violations) > 5:
                print(f"  ... {len(self.violations)} violations in total")
                with open(os.path.join(REPLAY, f"{self.pid}-{self.tier}-all.json"), "w") as f:
                    json.dump(self.violations[:20000], f, default=str)
            return 1
        print(f"OK property={self.pid} tier={self.tier} wall={ev['wall_s']}s " +
              " ".join(f"{k}={v}" for k, v in cov.items() if isinstance(v, (int, bool))))
        return 0


def run_workers(script_module, jobs, nproc=None, env=None, timeout=3600):
    """Run `python -m harness.<script_module> <jobfile> <outfile>` for each job in parallel fresh interpreters.

    Each job is a JSON-able dict; output is an ndjson file of events. Returns list of lists of events (per job).
    """
    nproc = nproc or NPROC
    d = tempfile.mkdtemp(prefix="job-", dir=scratch())
    e = dict(os.environ)
    e["PYTHONPATH"] = VERIF + os.pathsep + REPO
    e.setdefault("PYTHONHASHSEED", "0")
    e["CLARIPY_VERIF"] = "1"
    if env:
        e.update(env)

    def one(ix_job):
        ix, job = ix_job
        jf = os.path.join(d, f"j{ix}.json")
        of = os.path.join(d, f"o{ix}.ndjson")
        with open(jf, "w") as f:
            json.dump(job, f)
        p = subprocess.run([PY, "-m", "harness." + script_module, jf, of], cwd=VERIF, env=e, capture_output=True,
                           text=True, timeout=timeout)
        if p.returncode != 0:
            raise MachineryError(f"worker {script_module} job {ix} failed rc={p.returncode}\n{p.stderr[-3000:]}")
        out = []
        with open(of) as f:
            for line in f:
                out.append(json.loads(line))
        os.unlink(of)
        return out

    with ThreadPoolExecutor(max_workers=nproc) as ex:
        res = list(ex.map(one, enumerate(jobs)))
    shutil.rmtree(d, ignore_errors=True)
    return res


def pipeline(worker_module, jobs, tla_module, cfg="Empty.cfg", nproc=None, env=None, wtimeout=3600, ttimeout=1800,
             keep_events=False):
    """For each job: run `python -m harness.<worker_module> job.json outprefix` in a fresh interpreter (the worker
    writes ndjson shards + stats), then validate every shard with one single-worker TLC (module tla_module).
    NPROC jobs run in parallel.  Returns (bad, stats) where bad = [(job_index, event_dict, clause, extra)], stats =
    list of per-job stats dicts.  Only the events TLC flagged are parsed by this process."""
    nproc = nproc or NPROC
    d = tempfile.mkdtemp(prefix="pipe-", dir=scratch())
    e = dict(os.environ)
    e["PYTHONPATH"] = VERIF + os.pathsep + REPO
    e.setdefault("PYTHONHASHSEED", "0")
    e["CLARIPY_VERIF"] = "1"
    if env:
        e.update(env)

    def one(ix_job):
        ix, job = ix_job
        jf = os.path.join(d, f"j{ix}.json")
        prefix = os.path.join(d, f"o{ix}")
        with open(jf, "w") as f:
            json.dump(job, f)
        je = dict(e)
        je.update(job.get("env", {}))
        p = subprocess.run([PY, "-m", "harness." + worker_module, jf, prefix], cwd=VERIF, env=je,
                           capture_output=True, text=True, timeout=wtimeout)
        if p.returncode in (-11, -6, -7, -4, -8):
            raise SutCrash(worker_module, job, -p.returncode, p.stderr[-2000:])
        if p.returncode != 0:
            raise MachineryError(f"worker {worker_module} job {ix} failed rc={p.returncode}\n{p.stderr[-3000:]}")
        with open(prefix + ".stats.json") as f:
            st = json.load(f)
        bad = []
        for path, n in st["files"]:
            if n == 0:
                continue
            rc, out = run_tlc(tla_module, cfg=cfg, env={"TRACE_FILE": path}, timeout=ttimeout)
            b, done = parse_event_output(out)
            if done != n:
                keep = os.path.join(VERIF, "replay", "machinery-" + os.path.basename(path))
                os.makedirs(os.path.dirname(keep), exist_ok=True)
                shutil.copy(path, keep)
                raise MachineryError(f"TLC {tla_module} consumed {done} of {n} events (rc={rc}) shard kept at {keep}\n"
                                     + out[-3000:])
            if b:
                want = {}
                for (i, c, x) in b:
                    want.setdefault(i, []).append((c, x))
                with open(path) as f:
                    for ln, line in enumerate(f, 1):
                        if ln in want:
                            evd = json.loads(line)
                            for (c, x) in want[ln]:
                                bad.append((ix, evd, c, x))
            if not keep_events:
                os.unlink(path)
        return bad, st

    allbad, stats = [], []
    with ThreadPoolExecutor(max_workers=nproc) as ex:
        for b, st in ex.map(one, enumerate(jobs)):
            allbad.extend(b)
            stats.append(st)
    if not keep_events:
        shutil.rmtree(d, ignore_errors=True)
    return allbad, stats


def merge_stats(stats):
    out = {"events": 0, "outcomes": {}, "nontrivial": 0, "samples": []}
    for st in stats:
        out["events"] += st.get("events", 0)
        out["nontrivial"] += st.get("nontrivial", 0)
        for k, v in st.get("outcomes", {}).items():
            out["outcomes"][k] = out["outcomes"].get(k, 0) + v
        for sm in st.get("samples", []):
            if len(out["samples"]) < 4:
                out["samples"].append(sm)
        for k, v in st.items():
            if k not in ("events", "outcomes", "nontrivial", "samples", "files") and isinstance(v, int):
                out[k] = out.get(k, 0) + v
    return out


def main_wrapper(fn, pid="?", tier="quick"):
    """run a check function returning an exit code; map machinery failures to exit 2"""
    try:
        rc = fn()
    except SutCrash as ex:
        os.makedirs(REPLAY, exist_ok=True)
        path = os.path.join(REPLAY, f"{pid}-{tier}-crash.json")
        with open(path, "w") as f:
            json.dump({"property": pid, "clause": "interpreter-crash", "signal": ex.signum, "worker": ex.worker,
                       "job": ex.job, "stderr_tail": ex.stderr}, f, indent=1, default=str)
        print(f"VIOLATION property={pid} replay={path}")
        print(f"  the interpreter executing claripy died of signal {ex.signum} in worker {ex.worker} (job in the replay file)")
        rc = 1
    except MachineryError as ex:
        print("MACHINERY-ERROR:", str(ex)[:4000])
        rc = 2
    finally:
        cleanup()
    sys.exit(rc)
