"""C19 - GC stays disabled exactly while Z3 calls are in progress.

K1      TLC explores spec/GcGuard.tla (PlusCal, one label per source-line event of _enter_z3/_exit_z3) for several
        thread/script configurations and both initial values of the collector flag; invariants and the step property
        come from spec/GcGuardAbs.tla.  `-dump dot,actionlabels` exports the labelled state graph.
Binding a path cover of the graph (every edge on at least one root path) is replayed on the REAL functions with the
        deterministic line-level scheduler (harness/sched.py, fresh interpreters); after every step the projection of
        the real state is compared with the node TLC predicted, and the runnable set with the model's enabled set.
        The same paths are driven through the real `condom` wrapper (nested bodies, bodies that raise).
        Every recorded run is validated by TLC against the abstract spec (spec/TraceGc.tla).
Drift   a mismatch = the code no longer follows the line-level model: SPEC-DRIFT (evidence, not a verdict), and the
        harness explores the line interleavings of the real code itself (re-execution + state-hash pruning) and has
        TLC validate every explored run against the abstract spec only.
Verdict VIOLATION only from spec/TraceGc.tla (GcGuardAbs clauses), with the schedule in the replay file.
"""
from __future__ import annotations

import itertools
import json
import os
import random
import re
import subprocess
import tempfile
import time
from concurrent.futures import ThreadPoolExecutor

from . import common as C
from . import sched as S

LABELS = ["start", "e70", "e73", "e74", "e75", "e76", "e77", "e78", "e73x",
          "x81", "x84", "x85", "x86", "x87", "x89", "x90", "x91", "x92", "x93", "x84x", "ev"]
DEF_LINE = {"e": 70, "x": 81}
FUNC = {"e": S.ENTER, "x": S.EXIT}

CLAUSE_TEXT = {
    "neg": "the in-progress counter went negative",
    "gc-on": "the collector is enabled while a call is in flight",
    "ufl": "the underflow branch was taken by balanced clients",
    "count": "counter differs from the number of calls in flight while no thread is inside the guard",
    "restore": "all calls have returned (guard idle) and the collector flag is not what it was before the first call of "
               "this busy period (= what the application last set)",
    "uflcount": "number of underflow reports differs from the number of unmatched exits",
    "fl": "in-flight bookkeeping inconsistent with the script position",
    "crash": "a thread died with an unexpected exception inside the guard",
    "dead": "deadlock/hang: no thread can move and not all have terminated",
    "init": "initial observable state is not the specified one",
    "step": "observable step not allowed by the abstract step relation",
}


INTEGRITY = {"fl", "init", "step"}     # bookkeeping of the recorder itself, not clauses of the property


def label_proj(lab):
    """model label -> [kind, function, line offset from the def line] as the scheduler reports it"""
    if lab == "start":
        return ["start", "", 0]
    if lab == "Done":
        return ["fin", "", 0]
    if lab == "ev":
        return ["ev", "", 0]
    m = re.fullmatch(r"([ex])(\d+)(x?)", lab)
    if not m:
        raise C.MachineryError("unknown label " + lab)
    off = int(m.group(2)) - DEF_LINE[m.group(1)]
    return ["call" if off == 0 else "line", FUNC[m.group(1)], off]


# ----------------------------------------------------------------------------------------------------------------
# condom drivers: structures whose flattening is the model's script
# ----------------------------------------------------------------------------------------------------------------
def _C(*body):
    return ["C", list(body)]


RZ, RT = ["R", "z3"], ["R", "rt"]
DRIVERS = {
    "EX": [None, [_C()], [_C(RZ)], [_C(RT)], [_C(RZ, _C())]],
    "EEXX": [None, [_C(_C())], [_C(_C(RZ))], [_C(_C(RT))], [_C(_C(), RZ)], [_C(_C(), RT)], [_C(_C(RZ), _C())]],
    "EXEX": [None, [_C(), _C()], [_C(RZ), _C(RT)]],
    "EEXXEX": [None, [_C(_C()), _C()], [_C(_C(RZ)), _C(RT)], [_C(_C(), RT), _C(RZ, _C())]],
}


def driver_combos(scripts):
    per = []
    for s in scripts:
        ds = DRIVERS.get(s, [None])
        for d in ds:
            if d is not None and S.flatten(d) != s:
                raise C.MachineryError(f"driver {d} does not flatten to {s}")
        per.append(ds)
    combos = [list(c) for c in itertools.product(*per)]
    return [c for c in combos if any(d is not None for d in c)]


# ----------------------------------------------------------------------------------------------------------------
# TLC model run + graph
# ----------------------------------------------------------------------------------------------------------------
_EDGE = re.compile(r'^(-?\d+) -> (-?\d+) \[label="([^"]*)"')
_NODE = re.compile(r'^(-?\d+) \[label="((?:[^"\\]|\\.)*)"(.*)$')
_DEPTH = re.compile(r"depth of the complete state graph search is (\d+)")


def _tla_value(txt):
    t = txt.replace("<<", "[").replace(">>", "]").replace("TRUE", "true").replace("FALSE", "false")
    return json.loads(t)


def run_model(name, timeout=1800):
    dot = os.path.join(C.scratch(), f"GcGuard_{name}.dot")
    rc, out = C.run_tlc("GcGuard.tla", cfg=f"GcGuard_{name}.cfg", extra=["-dump", "dot,actionlabels", dot],
                        timeout=timeout)
    st = C.tlc_stats(out)
    if rc != 0 or st is None or "No error has been found" not in out:
        raise C.MachineryError(f"TLC on GcGuard_{name}.cfg failed (rc={rc}): the line-level model itself violates its "
                               "properties or TLC crashed\n" + out[-3000:])
    m = re.search(r'<<"SCRIPTS", (.*), (\d+)>>\s*$', out, re.M)
    if not m:
        raise C.MachineryError("SCRIPTS line missing in TLC output")
    scripts = ["".join(s) for s in _tla_value(m.group(1))]
    flips = int(m.group(2))
    dm = _DEPTH.search(out)
    nodes, edges, roots = {}, [], []
    with open(dot) as f:
        for line in f:
            em = _EDGE.match(line)
            if em:
                lab = em.group(3)
                if lab == "Terminating":
                    continue
                lm = re.fullmatch(r"(\w+)\((\d+)\)", lab)
                if lab == "ev":          # the environment process (id = number of threads + 1)
                    edges.append((em.group(1), "ev", len(scripts) + 1, em.group(2)))
                    continue
                if not lm:
                    raise C.MachineryError("edge label " + lab)
                edges.append((em.group(1), lm.group(1), int(lm.group(2)), em.group(2)))
                continue
            nm = _NODE.match(line)
            if nm and nm.group(1) not in nodes:
                txt = nm.group(2).replace('\\"', '"').replace("\\\\", "\\")
                d = {}
                for part in txt.split("\\n"):
                    part = part.strip()
                    if part.startswith("/\\"):
                        part = part[2:].strip()
                    k, _, v = part.partition(" = ")
                    d[k] = _tla_value(v)
                nodes[nm.group(1)] = d
                if "style = filled" in nm.group(3):
                    roots.append(nm.group(1))
    os.unlink(dot)
    if len(nodes) != st["distinct"]:
        raise C.MachineryError(f"dump has {len(nodes)} nodes, TLC reports {st['distinct']} distinct states")
    edges = sorted(set(edges))
    out_e = {n: [] for n in nodes}
    for e in edges:
        out_e[e[0]].append(e)
    proj = {}
    for nid, d in nodes.items():
        proj[nid] = {"active": d["active"], "saved": d["saved"], "gc": d["gc"], "lock": d["lock"], "ufl": d["ufl"],
                     "pos": d["pos"], "inflight": d["inflight"], "ins": d["ins"], "base": d["base"], "flips": d["flips"],
                     "pc": [label_proj(x) for x in d["pc"]], "labels": d["pc"], "gc0": d["gc0"]}
    return {"name": name, "scripts": scripts, "flips": flips, "nodes": proj, "edges": edges, "out": out_e, "roots": sorted(roots),
            "states": st["distinct"], "generated": st["generated"], "transitions": len(edges),
            "depth": int(dm.group(1)) if dm else 0}


def path_cover(G, rng):
    """root paths to terminal nodes such that every edge lies on at least one (greedy on the acyclic graph)"""
    out = G["out"]
    covered = set()
    exhausted = set()      # nodes below which no uncovered edge is left (monotone)

    def has_unc(v):
        stack = [(v, iter(out[v]))]
        seen_here = set()
        while stack:
            n, it = stack[-1]
            if n in exhausted:
                stack.pop()
                continue
            found = False
            for e in it:
                if e not in covered:
                    return True
                c = e[3]
                if c not in exhausted and c not in seen_here:
                    seen_here.add(c)
                    stack.append((c, iter(out[c])))
                    found = True
                    break
            if not found:
                exhausted.add(n)
                stack.pop()
        return False

    paths = []
    for root in G["roots"]:
        while has_unc(root):
            cur, steps = root, []
            while out[cur]:
                es = out[cur]
                unc = [e for e in es if e not in covered]
                if unc:
                    e = unc[rng.randrange(len(unc))] if len(unc) > 1 else unc[0]
                else:
                    live = [e for e in es if has_unc(e[3])]
                    e = live[0] if live else es[0]
                covered.add(e)
                steps.append(e)
                cur = e[3]
            paths.append({"root": root, "gc0": G["nodes"][root]["gc0"], "edges": steps})
    if len(covered) != len(G["edges"]):
        raise C.MachineryError("path cover incomplete")
    return paths


# ----------------------------------------------------------------------------------------------------------------
# workers
# ----------------------------------------------------------------------------------------------------------------
def run_jobs(jobs, timeout):
    """each job in a fresh interpreter: python -m harness.sched job.json out ; returns [(result json, traces path)]"""
    d = tempfile.mkdtemp(prefix="gcjob-", dir=C.scratch())
    e = dict(os.environ)
    e["PYTHONPATH"] = C.VERIF + os.pathsep + C.REPO
    e["PYTHONHASHSEED"] = "0"
    e["CLARIPY_VERIF"] = "1"

    def one(ix_job):
        ix, job = ix_job
        jf, of = os.path.join(d, f"j{ix}.json"), os.path.join(d, f"o{ix}")
        with open(jf, "w") as f:
            json.dump(job, f)
        try:
            p = subprocess.run(["timeout", "-k", "5", str(timeout), C.PY, "-m", "harness.sched", jf, of], cwd=C.VERIF,
                               env=e, capture_output=True, text=True, timeout=timeout + 30)
        except subprocess.TimeoutExpired as ex:
            raise C.MachineryError(f"scheduler worker {ix} timed out") from ex
        if p.returncode != 0 or not os.path.exists(of + ".json"):
            raise C.MachineryError(f"scheduler worker {ix} failed rc={p.returncode}\n{p.stderr[-3000:]}")
        with open(of + ".json") as f:
            res = json.load(f)
        if "harness_error" in res:
            raise C.MachineryError("code under test lacks an anchor of the property: " + res["harness_error"])
        return res, of + ".traces.ndjson"

    with ThreadPoolExecutor(max_workers=C.NPROC) as ex:
        return list(ex.map(one, enumerate(jobs)))


def validate_traces(files, shard=400, timeout=900):
    """TLC (spec/TraceGc.tla) on every recorded trace; returns (n_traces, [(trace dict, clause, state index)]).
    Traces of all workers are pooled into few shards (JVM start-up dominates small shards)."""
    d = tempfile.mkdtemp(prefix="gctr-", dir=C.scratch())
    lines = []
    for path in files:
        with open(path) as f:
            lines.extend(f.readlines())
    nsh = max(1, min(C.NPROC, (len(lines) + shard - 1) // shard))
    per = (len(lines) + nsh - 1) // nsh if lines else 1
    shards = []
    for k in range(0, len(lines), per):
        sp = os.path.join(d, f"t{k}.ndjson")
        with open(sp, "w") as g:
            g.writelines(lines[k:k + per])
        shards.append((sp, len(lines[k:k + per])))

    def one(sh):
        sp, n = sh
        rc, out = C.run_tlc("TraceGc.tla", cfg="Empty.cfg", env={"TRACE_FILE": sp}, timeout=timeout)
        bad, done = C.parse_event_output(out)
        if done != n:
            raise C.MachineryError(f"TLC TraceGc consumed {done} of {n} traces (rc={rc})\n" + out[-3000:])
        res = []
        if bad:
            with open(sp) as f:
                lines = f.readlines()
            for (i, clause, x) in bad:
                res.append((json.loads(lines[i - 1]), clause, int(x) if x and x.strip().isdigit() else 0))
        return res

    allbad = []
    with ThreadPoolExecutor(max_workers=C.NPROC) as ex:
        for r in ex.map(one, shards):
            allbad.extend(r)
    return sum(n for _, n in shards), allbad


def validator_selftest(files):
    """vacuity guard for the trace validator: corrupt ONE field of a recorded, accepted run in three ways and demand
    that TLC rejects each copy with the expected clause"""
    base = None
    for path in files:
        with open(path) as f:
            for line in f:
                tr = json.loads(line)
                st = tr["st"]
                if (len(tr["cfg"]["scripts"]) >= 2 and st[-1]["fin"] and all(st[-1]["fin"])
                        and any(any(x > 0 for x in s["fl"]) for s in st)):
                    base = tr
                    break
        if base:
            break
    if base is None:
        return {"corruptions": 0, "note": "no complete conforming run available (drift)"}
    k = next(i for i, s in enumerate(base["st"]) if any(x > 0 for x in s["fl"]))
    cases = []
    for field, idx, val, clause in (("gc", k, True, "gc-on"), ("act", k, -1, "neg"),
                                    ("gc", len(base["st"]) - 1, not base["st"][-1]["base"], "restore")):
        c = json.loads(json.dumps(base))
        c["st"][idx][field] = val
        cases.append((c, clause, idx + 1))
    d = tempfile.mkdtemp(prefix="gcself-", dir=C.scratch())
    sp = os.path.join(d, "corrupt.ndjson")
    with open(sp, "w") as f:
        f.write(json.dumps(base) + "\n")
        for c, _, _ in cases:
            f.write(json.dumps(c) + "\n")
    rc, out = C.run_tlc("TraceGc.tla", cfg="Empty.cfg", env={"TRACE_FILE": sp}, timeout=300)
    bad, done = C.parse_event_output(out)
    if done != len(cases) + 1:
        raise C.MachineryError("validator self-test: TLC did not consume the corrupted traces\n" + out[-2000:])
    got = {(i, c): x for i, c, x in bad}
    if any(i == 1 for i, _c in got):
        raise C.MachineryError("validator self-test: the uncorrupted run is rejected: " + str(bad))
    for n, (_c, clause, idx) in enumerate(cases):
        if (n + 2, clause) not in got or int(got[(n + 2, clause)]) != idx:
            raise C.MachineryError(f"validator self-test: corruption #{n + 1} (expect {clause} at state {idx}) not rejected: {bad}")
    return {"corruptions": len(cases), "rejected": len(cases),
            "cases": [f"{clause} at state {idx}" for _c, clause, idx in cases]}


# ----------------------------------------------------------------------------------------------------------------
# tiers
# ----------------------------------------------------------------------------------------------------------------
def tier_plan(tier):
    """model configs: (cfg name, max plain paths or None=all, condom paths: number or 'all' combos).
    The number of environment flips is part of the .cfg (MaxFlips)."""
    if tier == "quick":
        return [("EX", None, 40), ("EEXX", None, 40), ("EXEX", None, 40), ("EEXXEX", None, 40),
                ("EX_EX", None, 100), ("EEXX_EX", None, 150), ("EXEX_EX", None, 150),
                ("EEXX_EX_EX", 600, 150), ("XEXX", None, 0), ("XEX_X", None, 0)]
    return [("EX", None, "all"), ("EEXX", None, "all"), ("EXEX", None, "all"), ("EEXXEX", None, "all"),
            ("EX_EX", None, "all"), ("EEXX_EX", None, "all"), ("EXEX_EX", None, "all"), ("EXEX_EXEX", None, 3000),
            ("EEXXEX_EX", None, 3000), ("EX_EX_EX", None, 3000), ("EEXX_EX_EX", None, 3000), ("XEXX", None, 0),
            ("XEX_X", None, 0)]


def explore_plan(tier):
    """fallback exploration: (scripts, drivers, nparts, environment flips)"""
    P = []
    for scripts, fl in ((["EX"], 2), (["EEXX"], 2), (["EXEX"], 2), (["EEXXEX"], 2), (["XEXX"], 2), (["EX", "EX"], 1),
                        (["EEXX", "EX"], 1), (["XEX", "X"], 1)):
        P.append((scripts, None, 1, fl))
    P.append((["EXEX", "EX"], None, 2, 1))
    P.append((["EX", "EX", "EX"], None, 6, 1))
    P.append((["EX"], [[_C(RZ)]], 1, 1))
    P.append((["EEXX"], [[_C(_C(RT))]], 1, 1))
    P.append((["EXEX"], [[_C(RZ), _C()]], 1, 2))
    P.append((["EX", "EX"], [[_C(RZ)], [_C()]], 1, 1))
    P.append((["EEXX", "EX"], [[_C(_C(RZ))], [_C(RT)]], 1, 1))
    P.append((["EEXX", "EX"], [[_C(_C(), RT)], None], 1, 1))
    if tier == "thorough":
        P.append((["EEXX", "EX", "EX"], None, 14, 1))
        P.append((["EXEX", "EXEX"], None, 4, 1))
        P.append((["EEXXEX", "EX"], None, 4, 1))
        P.append((["EEXX", "EX"], [[_C(_C(RZ), _C())], [_C(RZ, _C())]], 1, 1))
        P.append((["EX", "EX", "EX"], [[_C(RZ)], [_C()], [_C(RT)]], 6, 1))
    return P


def _chunks(lst, n):
    n = max(1, n)
    k = (len(lst) + n - 1) // n
    return [lst[i:i + k] for i in range(0, len(lst), k)] if lst else []


def check(pid, tier, regen=False):
    R = C.Result(pid, "model_checking", tier)
    rng = random.Random(C.seed() * 7919 + 19)
    t0 = time.time()

    # ---- K1: TLC on the line-level model -------------------------------------------------------------------
    plan = tier_plan(tier)
    with ThreadPoolExecutor(max_workers=min(C.NPROC, len(plan))) as ex:
        graphs = list(ex.map(lambda p: run_model(p[0]), plan))
    t_model = time.time() - t0
    model_cov = {lab: 0 for lab in LABELS}
    per_cfg = {}
    for G in graphs:
        for e in G["edges"]:
            model_cov[e[1]] = model_cov.get(e[1], 0) + 1
        per_cfg[G["name"]] = {"scripts": "|".join(G["scripts"]), "env_flips": G["flips"], "states": G["states"], "transitions": G["transitions"],
                              "generated": G["generated"], "depth": G["depth"], "initial_states": len(G["roots"])}
    never = [lab for lab in LABELS if model_cov.get(lab, 0) == 0]
    if never or set(model_cov) - set(LABELS):
        raise C.MachineryError(f"vacuity: model actions never taken {never}; unknown actions {set(model_cov) - set(LABELS)}")

    # ---- binding: path cover -> replay on the real functions ---------------------------------------------------
    jobs, jobmeta = [], []
    gdir = tempfile.mkdtemp(prefix="gcgraph-", dir=C.scratch())
    cover_stats = {}
    for G, (name, maxplain, ncondom) in zip(graphs, plan):
        gfile = os.path.join(gdir, name + ".json")
        with open(gfile, "w") as f:
            json.dump({"nodes": G["nodes"], "enabled": {n: sorted({e[2] for e in es}) for n, es in G["out"].items()}}, f)
        paths = path_cover(G, rng)
        full = len(paths)
        plain = paths
        if maxplain is not None and len(paths) > maxplain:
            plain = rng.sample(paths, maxplain)
        combos = driver_combos(G["scripts"])
        cpaths = []
        if combos and ncondom:
            if ncondom == "all":
                for c in combos:
                    cpaths.extend((p, c) for p in paths)
            else:
                off = rng.randrange(len(combos))
                sel = paths if len(paths) <= ncondom else rng.sample(paths, ncondom)
                # every combination at least once when there are enough paths
                cpaths = [(p, combos[(off + i) % len(combos)]) for i, p in enumerate(sel)]
        todo = [{"root": p["root"], "gc0": p["gc0"], "steps": [[e[2], e[3]] for e in p["edges"]],
                 "labels": [e[1] for e in p["edges"]]} for p in plain]
        todo += [{"root": p["root"], "gc0": p["gc0"], "steps": [[e[2], e[3]] for e in p["edges"]],
                  "labels": [e[1] for e in p["edges"]], "drivers": c} for p, c in cpaths]
        cover_stats[name] = {"cover_paths": full, "plain_paths_replayed": len(plain), "condom_paths_replayed": len(cpaths),
                             "edge_cover_complete": len(plain) == full}
        nsteps = sum(len(p["steps"]) for p in todo)
        nb = max(1, min(C.NPROC, nsteps // 6000 + 1))
        for ch in _chunks(todo, nb):
            jobs.append({"kind": "replay", "scripts": G["scripts"], "flips": G["flips"], "graph": gfile, "paths": ch})
            jobmeta.append((G, ch))
    t1 = time.time()
    results = run_jobs(jobs, timeout=1800 if tier == "quick" else 3600)
    t_replay = time.time() - t1

    impl_cov = {lab: 0 for lab in LABELS}
    drifts, nsteps, nprobes, npaths, ncondom = [], 0, 0, 0, 0
    edges_replayed = {}
    sample = None
    for (G, ch), (res, _tf) in zip(jobmeta, results):
        nsteps += res["steps"]
        nprobes += res["probes"]
        for r in res["results"]:
            p = ch[r["path"]]
            npaths += 1
            ncondom += 1 if p.get("drivers") else 0
            for lab in p["labels"][:r["steps"]]:
                impl_cov[lab] += 1
            es = edges_replayed.setdefault(G["name"], set())
            cur = p["root"]
            for k in range(r["steps"]):
                es.add((cur, p["steps"][k][0]))
                cur = p["steps"][k][1]
            if r["drift"]:
                drifts.append({"config": "|".join(G["scripts"]), "gc0": p["gc0"], "drivers": p.get("drivers"),
                               "schedule_prefix": [s[0] for s in p["steps"][:r["steps"] + 1]], **r["drift"]})
            elif sample is None and len(G["scripts"]) > 1:
                sample = {"config": "|".join(G["scripts"]), "gc0": p["gc0"], "env_flips": G["flips"],
                          "note": "thread id %d = environment flip of the collector flag" % (len(G["scripts"]) + 1),
                          "schedule": [s[0] for s in p["steps"]],
                          "labels": p["labels"]}
        if len(res["results"]) != len(ch):
            drifts.append({"config": "|".join(G["scripts"]), "what": "worker stopped after a hang",
                           "paths_done": len(res["results"]), "paths": len(ch)})
    files = [tf for _, tf in results]
    t2 = time.time()
    with ThreadPoolExecutor(max_workers=2) as ex:
        fut = ex.submit(validator_selftest, files)
        ntr, bad = validate_traces(files)
        selftest = fut.result()
    t_validate = time.time() - t2

    # ---- drift: fall back to the harness's own exploration, abstract spec only ---------------------------------
    explore = None
    if drifts:
        for d in drifts[:3]:
            print("SPEC-DRIFT property=C19 " + json.dumps(d, default=str)[:900])
        print(f"SPEC-DRIFT property=C19 {len(drifts)} of {npaths} replayed paths left the line-level model; exploring "
              "the line interleavings of the code itself and validating them against the abstract spec")
        t3 = time.time()
        explore = {"executions": 0, "states": 0, "transitions": 0, "steps": 0, "deadlocks": 0, "hangs": 0,
                   "incomplete": [], "configs": 0, "phases": []}
        # phase 1: one and two threads (complete); phase 2: three threads - only needed while nothing was rejected
        eplan = explore_plan(tier)
        for phase, sel in (("<=2 threads", [p for p in eplan if len(p[0]) <= 2]),
                           ("3 threads", [p for p in eplan if len(p[0]) > 2])):
            if bad and phase == "3 threads":
                explore["phases"].append(phase + ": skipped, a rejection is already established")
                break
            ejobs, emeta = [], []
            for scripts, drivers, nparts, nflips in sel:
                for gc0 in (True, False):
                    for part in range(nparts):
                        ejobs.append({"kind": "explore", "scripts": scripts, "gc0": gc0, "drivers": drivers, "flips": nflips,
                                      "nparts": nparts, "part": part, "split_depth": 6 if nparts > 1 else 0,
                                      "budget_s": 45 if tier == "quick" else 900})
                        emeta.append(("|".join(scripts), gc0, drivers))
            eres = run_jobs(ejobs, timeout=900 if tier == "quick" else 3000)
            explore["configs"] += len(ejobs)
            explore["phases"].append(phase)
            for (res, _tf), meta in zip(eres, emeta):
                for k in ("executions", "states", "transitions", "steps", "deadlocks", "hangs"):
                    explore[k] += res[k]
                if not res["complete"]:
                    explore["incomplete"].append(meta[0])
            n2, bad2 = validate_traces([tf for _, tf in eres])
            ntr += n2
            bad.extend(bad2)
        explore["wall_s"] = round(time.time() - t3, 1)
        explore["incomplete"] = sorted(set(explore["incomplete"]))

    # ---- verdicts: only clauses of the abstract spec -----------------------------------------------------------
    integrity = [b for b in bad if b[1] in INTEGRITY]
    if integrity and len(integrity) == len(bad):
        tr, clause, k = integrity[0]
        raise C.MachineryError(f"recorded run rejected only by the bookkeeping clause '{clause}' ({CLAUSE_TEXT[clause]}) at "
                               f"state {k}: harness/trace integrity problem, not a verdict\n"
                               + json.dumps({"cfg": tr["cfg"], "drv": tr["drv"], "sched": tr["sched"]})[:1500])
    best = {}
    for tr, clause, k in bad:
        key = (clause, json.dumps(tr["cfg"]["scripts"]), tr["drv"])
        if key not in best or len(tr["sched"]) < len(best[key][0]["sched"]):
            best[key] = (tr, clause, k)
    for (tr, clause, k) in sorted(best.values(), key=lambda x: (len(x[0]["sched"]), x[1])):
        R.add_violation({"property": pid, "clause": clause, "meaning": CLAUSE_TEXT.get(clause, clause),
                         "state_index": k, "scripts": ["".join(s) for s in tr["cfg"]["scripts"]],
                         "gc0": tr["cfg"]["gc0"], "flips": tr["cfg"].get("flips", 0), "drivers": json.loads(tr["drv"]) if tr["drv"] else None,
                         "schedule": tr["sched"], "failing_state": tr["st"][k - 1] if 0 < k <= len(tr["st"]) else None,
                         "trace": tr["st"]})

    # ---- vacuity on the implementation side ------------------------------------------------------------------
    if not drifts:
        never = [lab for lab in LABELS if impl_cov[lab] == 0]
        if never:
            raise C.MachineryError(f"vacuity: model actions never replayed on the code: {never}")
    states = sum(G["states"] for G in graphs)
    transitions = sum(G["transitions"] for G in graphs)
    for G in graphs:
        cover_stats[G["name"]]["edges_replayed"] = len(edges_replayed.get(G["name"], ()))
        cover_stats[G["name"]]["edges"] = G["transitions"]
    R.coverage = {
        "states": states,
        "transitions": transitions,
        "traces_validated_against_impl": ntr,
        "samples": [sample] if sample else [{"note": "no conforming multi-thread path", "drift": drifts[:1]}],
        "configs": per_cfg,
        "model_action_coverage": model_cov,
        "impl_action_coverage": impl_cov,
        "path_cover": cover_stats,
        "paths_replayed": npaths,
        "condom_paths_replayed": ncondom,
        "line_steps_replayed": nsteps,
        "disabled_step_probes": nprobes,
        "abstract_rejections": len(bad),
        "validator_selftest": selftest,
        "drift": len(drifts),
        "drift_first": drifts[:2],
        "fallback_exploration": explore if explore else "not needed (code follows the line-level model)",
        "timing_s": {"tlc_model": round(t_model, 1), "replay": round(t_replay, 1), "trace_validation": round(t_validate, 1)},
        "exhaustive": tier == "thorough" and not drifts,
        "tlc_modules": "GcGuard.tla + GcGuardAbs.tla (K1), TraceGc.tla (verdicts)",
    }
    R.assumptions = [
        "CPython 3.12 line-event granularity: a thread switch can happen between any two line events of "
        "_enter_z3/_exit_z3 but one source line (e.g. `_active_z3_calls += 1`) is atomic, as in the PlusCal model",
        "only _gc_lock blocks; gc/log/_gc_lock are the module globals looked up at call time",
        "condom is driven off the main thread, so install_sigint_handler() returns False: SIGINT handling is not covered",
        "at most 3 threads, nesting depth 2, at most 2 busy periods per thread",
        "the application changes the collector flag itself only while the guard is idle (environment step `ev`, 1-2 per "
        "behaviour); a flip during a busy period is outside the property (nothing well-defined to restore)",
    ]
    if drifts:
        R.notes.append("SPEC-DRIFT: the code does not follow spec/GcGuard.tla line by line; verdict from the harness's "
                       "own exploration + abstract spec")
    return R.finish()


def replay(pid, path):
    """re-run the schedule of a replay file on the current tree and re-validate it with TLC (TraceGc.tla)"""
    with open(path) as f:
        v = json.load(f)
    job = {"kind": "run", "scripts": v["scripts"], "gc0": v["gc0"], "flips": v.get("flips", 0),
           "drivers": v.get("drivers"), "sched": v["schedule"],
           "check_dead": bool(v.get("trace") and v["trace"][-1].get("dead"))}
    (res, tf), = run_jobs([job], timeout=900)
    n, bad = validate_traces([tf])
    info = res["info"]
    print(f"replay: scripts={'|'.join(v['scripts'])} gc0={v['gc0']} drivers={v.get('drivers')} "
          f"executed {len(res['executed'])} of {len(v['schedule'])} steps"
          + (f"; diverged: {info['diverged']}" if info.get("diverged") else ""))
    if bad:
        for tr, clause, k in bad:
            print(f"VIOLATION property={pid} replay={path}")
            print(f"  clause={clause} ({CLAUSE_TEXT.get(clause, clause)}) at state {k}: "
                  + json.dumps(tr["st"][k - 1] if 0 < k <= len(tr["st"]) else None))
        return 1
    print(f"replay: the schedule is accepted by spec/TraceGc.tla on this tree ({n} trace validated) - not reproduced")
    return 0
