"""Worker for C03: apply string operators to constant strings / 64-bit integers and record what claripy produces.

usage: python -m harness.w_str job.json outprefix          (fresh interpreter, PYTHONPATH=/verif:$VERIF_REPO)

job = {"mode": "claripy" | "z3ref",     z3ref: self-test of spec/Str.tla (value from an independent z3 API term; claripy
                                        is not imported)
       "gen": "pool" | "rand" | "list", "group": "pairs"|"indexof"|"replace"|"unary"|"substr"|"eq"|"d2",
       "pool": "quick" | "full", "part": k, "nparts": n, "solved": N (every N-th case; 0 never), "fresh_every": N,
       "seed": s, "n": count, "cases": [...]}

Event (one ndjson line, validated by spec/TraceStr.tla; all fields always present):
  op  s=[cps,cps,cps]  i=[bits64,bits64]  n (number of string arguments passed)  ann=[k1,k2] (annotation ids, 0 none)
  iop is ii ipos  fold out  sv solved sout sm  lv z3lit  zs
Results are integer lists: code points (string), [0]/[1] (Bool), 64 bits LSB-first (bit-vector).
"""
from __future__ import annotations

import json
import random
import sys

from .wlib import ShardWriter

STR_RESULT = ("concat", "substr", "replace", "from_int", "lit")
INT_RESULT = ("len", "indexof", "to_int")
BOOL_RESULT = ("contains", "prefixof", "suffixof", "eq", "ne")
M64 = (1 << 64) - 1
NINTS = {"substr": 2, "indexof": 1, "from_int": 1}


def bits(v, w=64):
    return [(v >> i) & 1 for i in range(w)]


def unbits(b):
    return sum(x << i for i, x in enumerate(b))


def cps(s):
    return [ord(ch) for ch in s]


def uncps(c):
    return "".join(chr(x) for x in c)


# ----------------------------------------------------------------------------------------------
# pools
# ----------------------------------------------------------------------------------------------

QUICK_STRINGS = [
    "", "a", "ab", "abc", "abcabc", "bc", "c", "a.", ".", "(", "[", "*", "+", "a+", "?", "\\", "^", "$", "a$", "|", "a|b",
    ".*", "\x00", "a\x00b", "\n", "a\nb", "\\u{48}", "H", "\u00e9", "a\u00e9", "\U0001f600", "5", "-5", "12",
    # escape look-alikes (a backslash followed by text that Z3's literal syntax would interpret), also inside longer strings
    "\\u0041", "x\\u00e9y", "\\x41", "a\\b\\u{1f600}",
]
MORE_STRINGS = [
    "b", "ba", "aa", "aaa", "abcab", "\\\\", "\\d", "a\\", "[a-z]", "a{2}", "(a)", "a)", "^a", "\\x41", "A", "\\u0048",
    "\\u{1f600}", "\u4e2d\u6587", "a\U0001f600b", "\u00e9\u00e9", "\x7f", "\r\n", "\t", " ", "  ",
]
NUMERALS = ["0", "5", "-5", "+5", " 5", "5 ", "\t5", "5\n", "007", "12", "1_000", "0x10", "1e3", "1.0", "\uff11\uff12",
            "\u0663", "12345678901234567890", "18446744073709551615", "18446744073709551616",
            "123456789012345678901234", "99999999999999999999", "-0", "--5", "5a", "\u00b2"]
INT_VALUES = [0, 1, 9, 10, 99, 100, 255, 1 << 31, (1 << 32) - 1, 1 << 32, (1 << 63) - 1, 1 << 63, M64, M64 - 1,
              12345678901234567890, 10 ** 19, 10 ** 19 - 1, 10 ** 18, 1000000007]


def pool_str(level):
    xs = list(QUICK_STRINGS)
    if level != "quick":
        xs += MORE_STRINGS + NUMERALS
    out, seen = [], set()
    for x in xs:
        if x not in seen:
            seen.add(x)
            out.append(x)
    return out


def pool_numerals(level):
    return NUMERALS if level != "quick" else NUMERALS        # cheap: always all


def idx_pool(s):
    n = len(s)
    out = []
    for v in (0, 1, (n - 1) & M64, n, n + 1, 1 << 63, M64):
        if v not in out:
            out.append(v)
    return out


def case(op, s=(), i=(), ann=(0, 0), inner=None):
    s = list(s)
    c = {"op": op, "s": (s + ["", "", ""])[:3], "n": len(s), "i": (list(i) + [0, 0])[:2], "ann": list(ann),
         "iop": "", "is": ["", "", ""], "isn": 0, "ii": [0, 0], "ipos": ""}
    if inner:
        c.update(inner)
    return c


def gen_pool(job):
    grp, level = job["group"], job.get("pool", "quick")
    P = pool_str(level)
    if grp == "pairs":
        for a in P:
            for b in P:
                yield case("concat", [a, b])
                yield case("contains", [a, b])
                yield case("prefixof", [a, b])
                yield case("suffixof", [a, b])
    elif grp == "indexof":
        for a in P:
            for b in P:
                for i in idx_pool(a):
                    yield case("indexof", [a, b], [i])
    elif grp == "replace":
        for a in P:
            for b in P:
                for u in ("", "X", "\\1$&\x00\u00e9"):
                    yield case("replace", [a, b, u])
    elif grp == "substr":
        for a in P:
            for i in idx_pool(a):
                for n in idx_pool(a):
                    yield case("substr", [a], [i, n])
    elif grp == "unary":
        for a in P + [x for x in pool_numerals(level) if x not in P]:
            yield case("len", [a])
            yield case("to_int", [a])
            yield case("lit", [a])
        for v in INT_VALUES:
            yield case("from_int", [], [v])
        for a in P[:12]:
            for b in P[:6]:
                for c in ("", "z", "\x00"):
                    yield case("concat", [a, b, c])
    elif grp == "eq":
        Q = P[:14] if level == "quick" else P[:30]
        for a in Q:
            for b in Q:
                for ann in ((0, 0), (1, 1), (1, 2), (1, 0)):
                    if ann != (0, 0) and a != b and (len(a) + len(b)) % 3:
                        continue
                    yield case("eq", [a, b], ann=ann)
                    yield case("ne", [a, b], ann=ann)
    elif grp == "d2":
        rng = random.Random(777)
        for _ in range(job.get("n", 1000)):
            yield rand_d2(rng, P, pool_numerals(level))


def rand_d2(rng, P, NUM):
    k = rng.random()
    a, b, u = rng.choice(P), rng.choice(P), rng.choice(P)
    if k < 0.55:        # string-valued inner operation feeds the first string operand
        iop = rng.choice(("concat", "substr", "replace", "from_int"))
        if iop == "concat":
            inner = {"iop": iop, "is": [a, b, ""], "isn": 2}
            base = a + b
        elif iop == "substr":
            inner = {"iop": iop, "is": [a, "", ""], "isn": 1, "ii": [rng.choice(idx_pool(a)), rng.choice(idx_pool(a))]}
            base = a
        elif iop == "replace":
            inner = {"iop": iop, "is": [a, b, u], "isn": 3}
            base = a
        else:
            inner = {"iop": iop, "ii": [rng.choice(INT_VALUES), 0]}
            base = "123"
        inner["ipos"] = "s"
        op = rng.choice(("len", "to_int", "contains", "prefixof", "suffixof", "indexof", "substr", "concat", "replace"))
        o = rng.choice(P + NUM[:6])
        if op in ("len", "to_int"):
            return case(op, [""], inner=inner)
        if op in ("contains", "prefixof", "suffixof", "concat"):
            return case(op, ["", o], inner=inner)
        if op == "indexof":
            return case(op, ["", o], [rng.choice(idx_pool(base))], inner=inner)
        if op == "substr":
            return case(op, [""], [rng.choice(idx_pool(base)), rng.choice(idx_pool(base))], inner=inner)
        return case(op, ["", o, rng.choice(("", "X"))], inner=inner)
    # integer-valued inner operation feeds the first integer operand
    iop = rng.choice(("len", "indexof", "to_int"))
    if iop == "len":
        inner = {"iop": iop, "is": [a, "", ""], "isn": 1}
    elif iop == "indexof":
        inner = {"iop": iop, "is": [a, b, ""], "isn": 2, "ii": [rng.choice(idx_pool(a)), 0]}
    else:
        inner = {"iop": iop, "is": [rng.choice(NUM), "", ""], "isn": 1}
    inner["ipos"] = "i"
    op = rng.choice(("from_int", "substr", "indexof"))
    if op == "from_int":
        return case(op, [], [0], inner=inner)
    if op == "substr":
        return case(op, [u], [0, rng.choice(idx_pool(u))], inner=inner)
    return case(op, [u, rng.choice(P)], [0], inner=inner)


def gen_rand(job):
    """seeded extra operands restricted to the regions in which the pinned tree folds correctly (see eng_str.py):
    concat / contains / replace / len / substr / from_int on arbitrary strings over a small alphabet incl. NUL,
    backslash, non-ASCII; prefixof / suffixof only with patterns free of regex metacharacters and newlines;
    indexof with start <= |s|; to_int on digit strings of at most 18 digits without leading zeros-only ambiguity and
    on strings containing an ASCII letter.  Solved side only for printable-ASCII results (no escapes on the way back)."""
    rng = random.Random(job["seed"])
    plain = "abcxyzABC019 _-"
    wide = "ab\x00\\\n.\u00e9\U0001f600(*"

    def rs(alpha, lo=0, hi=6):
        return "".join(rng.choice(alpha) for _ in range(rng.randint(lo, hi)))

    for _ in range(job["n"]):
        k = rng.random()
        if k < 0.2:
            yield case("concat", [rs(wide), rs(wide)])
        elif k < 0.35:
            s = rs("ab\x00\\", 0, 8)
            yield case("contains", [s, rs("ab\x00\\", 0, 3)])
        elif k < 0.5:
            s = rs("ab.\u00e9", 0, 8)
            yield case("replace", [s, rs("ab.\u00e9", 0, 2), rs(wide, 0, 3)])
        elif k < 0.6:
            s = rs(wide, 0, 9)
            yield case("substr", [s], [rng.randint(0, len(s) + 2), rng.choice((0, 1, 2, len(s), M64, rng.getrandbits(64)))])
        elif k < 0.7:
            s = rs("abc", 0, 8)
            yield case(rng.choice(("prefixof", "suffixof")), [rs("abc", 0, 3), s])
        elif k < 0.8:
            s = rs("abc", 0, 8)
            yield case("indexof", [s, rs("abc", 0, 2)], [rng.randint(0, len(s))])
        elif k < 0.9:
            yield case("to_int", [rng.choice((str(rng.getrandbits(rng.randint(1, 59))), rs("12a", 1, 6) + "a"))])
        elif k < 0.95:
            yield case("from_int", [], [rng.getrandbits(rng.choice((8, 32, 64)))])
        else:
            yield case("len", [rs(wide, 0, 12)])


def gen_cases(job):
    g = job["gen"]
    if g == "pool":
        yield from gen_pool(job)
    elif g == "rand":
        yield from gen_rand(job)
    else:
        yield from job["cases"]


# ----------------------------------------------------------------------------------------------
# claripy side
# ----------------------------------------------------------------------------------------------

_cl = {}


def _claripy():
    if not _cl:
        import claripy

        class Tag(claripy.Annotation):
            """an uneliminatable, unrelocatable annotation distinguished by an id"""

            def __init__(self, n):
                self.n = n

            @property
            def eliminatable(self):
                return False

            @property
            def relocatable(self):
                return False

            def __hash__(self):
                return hash(("Tag", self.n))

            def __eq__(self, o):
                return isinstance(o, Tag) and o.n == self.n

        _cl.update(c=claripy, Tag=Tag)
    return _cl["c"], _cl["Tag"]


def apply_op(op, S, I, n):
    """build op over claripy ASTs S (strings) and I (64-bit BVs) through the public constructors"""
    claripy, _ = _claripy()
    if op == "concat":
        return claripy.StrConcat(*S[:n])
    if op == "substr":
        return claripy.StrSubstr(I[0], I[1], S[0])
    if op == "replace":
        return claripy.StrReplace(S[0], S[1], S[2])
    if op == "len":
        return claripy.StrLen(S[0])
    if op == "contains":
        return claripy.StrContains(S[0], S[1])
    if op == "prefixof":
        return claripy.StrPrefixOf(S[0], S[1])
    if op == "suffixof":
        return claripy.StrSuffixOf(S[0], S[1])
    if op == "indexof":
        return claripy.StrIndexOf(S[0], S[1], I[0])
    if op == "to_int":
        return claripy.StrToInt(S[0])
    if op == "from_int":
        return claripy.IntToStr(I[0])
    if op == "eq":
        return S[0] == S[1]
    if op == "ne":
        return S[0] != S[1]
    if op == "lit":
        return S[0]
    raise ValueError(op)


def value_ints(v, op):
    if isinstance(v, bool):
        return "ok", [1 if v else 0]
    if isinstance(v, str):
        return "ok", cps(v)
    if isinstance(v, int):
        if v < 0 or v >> 64:
            return "IntOutOfWidth", []
        return "ok", bits(v)
    return "Value:" + type(v).__name__, []


def result_ints(r, op):
    claripy, _ = _claripy()
    if isinstance(r, claripy.ast.Base) and r.op in ("StringV", "BVV", "BoolV"):
        return value_ints(r.args[0], op)
    if isinstance(r, claripy.ast.Base):
        # not folded at construction (e.g. annotated operands): the concrete backend's value of the built AST
        return value_ints(claripy.backends.concrete.eval(r, 1)[0], op)
    return "NotAST:" + type(r).__name__, []


def conc_args(s, i, ann=(0, 0)):
    claripy, Tag = _claripy()
    S = []
    for k, x in enumerate(s):
        a = claripy.StringV(x)
        if k < 2 and ann[k]:
            a = a.annotate(Tag(ann[k]))
        S.append(a)
    return S, [claripy.BVV(v, 64) for v in i]


def fold(c):
    claripy, _ = _claripy()
    try:
        S, I = conc_args(c["s"], c["i"], c["ann"])
        if c["iop"]:
            iS, iI = conc_args(c["is"], c["ii"])
            inner = apply_op(c["iop"], iS, iI, c["isn"])
            if c["ipos"] == "s":
                S[0] = inner
            else:
                I[0] = inner
        return result_ints(apply_op(c["op"], S, I, c["n"]), c["op"])
    except Exception as ex:  # noqa: BLE001
        return "PyError:" + type(ex).__name__, []


_solver = {}


def solved(c, fresh):
    """operands as StringS / BVS pinned by equality with the constants; value through a claripy solver"""
    claripy, Tag = _claripy()
    try:
        if "sy" not in _solver:
            _solver["sy"] = ([claripy.StringS("s%d" % k, explicit_name=True) for k in range(3)],
                             [claripy.BVS("i%d" % k, 64, explicit_name=True) for k in range(2)],
                             [claripy.StringS("t%d" % k, explicit_name=True) for k in range(3)],
                             [claripy.BVS("j%d" % k, 64, explicit_name=True) for k in range(2)])
            _solver["st"] = claripy.SolverStrings()
        S0, I0, T0, J0 = _solver["sy"]
        S, I = list(S0), list(I0)
        for k in range(2):
            if c["ann"][k]:
                S[k] = S[k].annotate(Tag(c["ann"][k]))
        pins = []
        skip_s0 = skip_i0 = False
        if c["iop"]:
            inner = apply_op(c["iop"], list(T0), list(J0), c["isn"])
            pins += [T0[k] == claripy.StringV(c["is"][k]) for k in range(c["isn"])]
            pins += [J0[k] == claripy.BVV(c["ii"][k], 64) for k in range(NINTS.get(c["iop"], 0))]
            if c["ipos"] == "s":
                S[0] = inner
                skip_s0 = True
            else:
                I[0] = inner
                skip_i0 = True
        pins += [S0[k] == claripy.StringV(c["s"][k]) for k in range(c["n"]) if not (k == 0 and skip_s0)]
        pins += [I0[k] == claripy.BVV(c["i"][k], 64) for k in range(NINTS.get(c["op"], 0)) if not (k == 0 and skip_i0)]
        expr = apply_op(c["op"], S, I, c["n"])
        if fresh:
            s = claripy.Solver()
            for p in pins:
                s.add(p)
            v = s.eval(expr, 1)[0]
        else:
            v = _solver["st"].eval(expr, 1, extra_constraints=pins)[0]
        return value_ints(v, c["op"])
    except Exception as ex:  # noqa: BLE001
        return "PyError:" + type(ex).__name__, []


def z3_code_points(zt):
    """code points of a Z3 string constant term, read through Z3's own str.len / str.to_code"""
    import z3
    n = z3.simplify(z3.Length(zt))
    if not z3.is_int_value(n):
        return None
    out = []
    for k in range(n.as_long()):
        v = z3.simplify(z3.StrToCode(z3.SubString(zt, k, 1)))
        if not z3.is_int_value(v):
            return None
        out.append(v.as_long())
    return out


def z3lit(s):
    """the characters Z3 holds for claripy.StringV(s) after claripy's translation"""
    claripy, _ = _claripy()
    try:
        zt = claripy.backends.z3.convert(claripy.StringV(s))
        r = z3_code_points(zt)
        return [] if r is None else r
    except Exception:  # noqa: BLE001
        return [-1]


# ----------------------------------------------------------------------------------------------
# independent Z3 reference (self-test of Str.tla / second opinion); never touches claripy
# ----------------------------------------------------------------------------------------------

def z3_str(s):
    import z3
    # every character as an explicit \u{..} escape: independent of any literal-escaping convention
    return z3.StringVal("".join("\\u{%x}" % ord(ch) for ch in s))


def z3_term(op, S, I, n):
    import z3
    bv = lambda t: z3.Int2BV(t, 64)     # noqa: E731
    if op == "concat":
        return z3.Concat(*S[:n]) if n > 1 else S[0]
    if op == "substr":
        return z3.SubString(S[0], z3.BV2Int(I[0]), z3.BV2Int(I[1]))
    if op == "replace":
        return z3.Replace(S[0], S[1], S[2])
    if op == "len":
        return bv(z3.Length(S[0]))
    if op == "contains":
        return z3.Contains(S[0], S[1])
    if op == "prefixof":
        return z3.PrefixOf(S[0], S[1])
    if op == "suffixof":
        return z3.SuffixOf(S[0], S[1])
    if op == "indexof":
        return bv(z3.IndexOf(S[0], S[1], z3.BV2Int(I[0])))
    if op == "to_int":
        return bv(z3.StrToInt(S[0]))
    if op == "from_int":
        return z3.IntToStr(z3.BV2Int(I[0]))
    if op == "eq":
        return S[0] == S[1]
    if op == "ne":
        return S[0] != S[1]
    if op == "lit":
        return S[0]
    raise ValueError(op)


def z3_ref(c):
    import z3
    S = [z3_str(x) for x in c["s"]]
    I = [z3.BitVecVal(v, 64) for v in c["i"]]
    if c["iop"]:
        inner = z3_term(c["iop"], [z3_str(x) for x in c["is"]], [z3.BitVecVal(v, 64) for v in c["ii"]], c["isn"])
        if c["ipos"] == "s":
            S[0] = inner
        else:
            I[0] = inner
    t = z3_term(c["op"], S, I, c["n"])
    r = _z3_value(z3.simplify(t))
    if r is None:
        # the rewriter left the term unevaluated (e.g. str.indexof with a huge start index): ask for a model
        sol = z3.Solver()
        v = z3.Const("__v", t.sort())
        sol.add(v == t)
        if sol.check() == z3.sat:
            r = _z3_value(sol.model().eval(v, model_completion=True))
    return (1, r) if r is not None else (0, [])


def _z3_value(r):
    import z3
    if z3.is_true(r):
        return [1]
    if z3.is_false(r):
        return [0]
    if z3.is_bv_value(r):
        return bits(r.as_long())
    if z3.is_string_value(r):
        return z3_code_points(r)
    return None


# ----------------------------------------------------------------------------------------------

def event_of(c):
    return {"op": c["op"], "s": [cps(x) for x in c["s"]], "n": c["n"], "i": [bits(v) for v in c["i"]], "ann": c["ann"],
            "iop": c["iop"], "is": [cps(x) for x in c["is"]], "isn": c["isn"], "ii": [bits(v) for v in c["ii"]],
            "ipos": c["ipos"], "fold": [], "out": "ok", "sv": 0, "solved": [], "sout": "", "sm": "", "lv": 0, "z3lit": [],
            "zs": 2}


def case_of_event(ev):
    return {"op": ev["op"], "s": [uncps(x) for x in ev["s"]], "n": ev["n"], "i": [unbits(b) for b in ev["i"]],
            "ann": ev["ann"], "iop": ev["iop"], "is": [uncps(x) for x in ev["is"]], "isn": ev["isn"],
            "ii": [unbits(b) for b in ev["ii"]], "ipos": ev["ipos"]}


def run_case(c, mode, want_solved, fresh):
    ev = event_of(c)
    if mode == "z3ref":
        ev["zs"], ev["fold"] = z3_ref(c)
        if not ev["zs"]:
            ev["out"] = "z3-not-a-value"
        return ev
    ev["out"], ev["fold"] = fold(c)
    if c["op"] == "lit":
        ev["lv"] = 1
        ev["z3lit"] = z3lit(c["s"][0])
    if want_solved:
        ev["sv"] = 1
        ev["sm"] = "solver" if fresh else "strings"
        ev["sout"], ev["solved"] = solved(c, fresh)
    return ev


def main():
    job = json.load(open(sys.argv[1]))
    mode = job.get("mode", "claripy")
    part, nparts = job.get("part", 0), job.get("nparts", 1)
    fresh_every = job.get("fresh_every", 0)
    sev = job.get("solved", 1)
    out = ShardWriter(sys.argv[2], job.get("shard", 5000))
    cnt = {}
    for i, c in enumerate(gen_cases(job)):
        if i % nparts != part:
            continue
        want = bool(sev) and i % sev == 0
        if job["gen"] == "rand" and want:
            # seeded extras: the solved route un-escapes nothing on the way back (known finding), so it is only
            # recorded when every string involved is printable ASCII without a backslash
            allc = "".join(c["s"]) + "".join(c["is"])
            want = all(32 <= ord(ch) < 127 and ch != "\\" for ch in allc)
        ev = run_case(c, mode, want, bool(fresh_every) and i % fresh_every == 0)
        ev["gi"] = i
        cnt["n_" + c["op"]] = cnt.get("n_" + c["op"], 0) + 1
        if ev["sv"]:
            cnt["solved"] = cnt.get("solved", 0) + 1
            if ev["sm"] == "solver":
                cnt["fresh"] = cnt.get("fresh", 0) + 1
        key = [c["op"], c["s"], c["i"], c["ann"], c["iop"], c["is"], c["ii"], c["n"]]
        nt = ev["out"] != "ok" or ev["fold"] not in ev["s"]
        out.write(ev, nontrivial_key=key if nt else None, outcome=ev["out"] if ev["zs"] == 2 else "z3:%d" % ev["zs"],
                  sample={"op": c["op"], "s": c["s"][:c["n"]], "i": [hex(v) for v in c["i"]], "out": ev["out"],
                          "fold": ev["fold"][:24], "sout": ev["sout"], "solved": ev["solved"][:24]} if nt else None)
    out.close(cnt)


if __name__ == "__main__":
    main()
