"""Worker for C10 (cheap truth checks).  One worker = one interpreter = one HISTORY: Boolean terms are built and
queried (claripy.is_true / is_false, Bool.is_true() / is_false(), and the memoising Backend.is_true / is_false of the
concrete and Z3 backends), interleaved with the construction of structurally related terms (same shape with another
constant, annotated copies, renamed variables, negations), re-queries (answers re-served from the per-backend caches)
and backend.downsize().  Every answer is recorded; spec/UtilSem.tla (UTruths) decides whether a True answer holds
on every assignment.

usage: python -m harness.w_truth job.json outprefix
"""
from __future__ import annotations

import json
import random
import resource
import sys

from . import gen_expr as G
from . import gen_util as U
from . import term as TM
from .w_util import guarded, build, vars_asgs, c01_terms, sampled, parts
from .wlib import ShardWriter


class Hist:
    def __init__(self, job, out, rng):
        self.job, self.out, self.rng = job, out, rng
        self.det = bool(job.get("det", False))
        self.n = 0
        self.counts = {"answers": 0, "answers_true": 0, "answers_reserved_from_cache": 0, "downsizes": 0,
                       "related_terms_built": 0, "queries_after_downsize": 0}

    def query(self, a, phase):
        """ask every truth check about AST a; one event carrying all answers"""
        import claripy
        bc, bz = claripy.backends.concrete, claripy.backends.z3
        w = TM.ser(a)
        qs = []
        h = a.hash()
        for f in ("is_true", "is_false"):
            calls = [("fn", lambda f=f: getattr(claripy, f)(a), bc),
                     ("method", lambda f=f: getattr(a, f)(), bc),
                     ("z3", lambda f=f: getattr(bz, f)(a), bz)]
            for via, call, backend in calls:
                cache = backend._true_cache if f == "is_true" else backend._false_cache     # observation only
                cached = h in cache
                oc, ans = guarded(call)
                if oc == "ok" and not isinstance(ans, bool):
                    oc = "NotABool"
                if oc.startswith("PyError:Backend") and via == "z3":
                    oc, ans = "ok", False          # a backend may decline (BackendError); that claims nothing
                qs.append({"f": f, "via": via, "out": oc, "ans": bool(ans) if oc == "ok" else False, "cached": cached})
                self.counts["answers"] += 1
                self.counts["answers_true"] += 1 if (oc == "ok" and ans) else 0
                self.counts["answers_reserved_from_cache"] += 1 if cached else 0
        nbits_job = dict(self.job)
        if self.job.get("wide"):
            nbits_job["asgs"] = 64
        vs, asgs = vars_asgs([w], nbits_job, self.rng)
        ev = {"k": "truths", "out": "ok", "w": w, "vars": vs, "asgs": asgs, "qs": qs, "phase": phase, "det": self.det,
              "gi": self.n, "sampled": len(asgs) > 0}
        self.n += 1
        anytrue = any(q["ans"] for q in qs)
        self.out.write(ev, nontrivial_key=["truth", w] if anytrue and w[0] != "BoolV" else None,
                       outcome="truths:" + phase,
                       sample={"term": w, "phase": phase, "answers": [[q["f"], q["via"], q["ans"], "cached" if q["cached"] else "computed"]
                                                                      for q in qs]} if anytrue and w[0] != "BoolV" else None)


def related(hist, t, a):
    """structurally related constructions: (label, AST)"""
    import claripy
    rng = hist.rng
    out = []
    m = U.mutate_const(rng, t)
    if m is not None:
        oc, b = build(m)
        if oc == "ok":
            out.append(("const-changed", b))
    oc, b = build(U.rename(t, {"x": "y", "y": "x", "c": "d", "d": "c"}))
    if oc == "ok" and b is not a:
        out.append(("renamed", b))

    class TA(claripy.Annotation):
        eliminatable, relocatable = False, True

        def __init__(self, k):
            self.k = k

        def __hash__(self):
            return hash(("TA", self.k))

        def __eq__(self, o):
            return type(o).__name__ == "TA" and o.k == self.k

    oc, b = guarded(lambda: a.annotate(TA(rng.randrange(2))))
    if oc == "ok":
        out.append(("annotated", b))
    oc, b = guarded(lambda: claripy.Not(a))
    if oc == "ok":
        out.append(("negated", b))
    return out


def stream_truth(hist):
    import claripy
    job, rng = hist.job, hist.rng
    recent = []
    k = 0
    every = job.get("downsize_every", 20)
    for t in parts(hist, sampled(job, c01_terms(job, rng))):
        if not TM.is_bool(t):
            continue
        oc, a = build(t)
        if oc != "ok" or not isinstance(a, claripy.ast.Bool):
            continue
        hist.query(a, "first")
        for label, b in related(hist, t, a):
            if isinstance(b, claripy.ast.Bool):
                hist.counts["related_terms_built"] += 1
                hist.query(b, label)
        hist.query(a, "requery")
        recent.append(a)
        recent = recent[-6:]
        k += 1
        if k % every == 0:
            for b in (claripy.backends.concrete, claripy.backends.z3, claripy.backends.vsa):
                guarded(b.downsize)
            hist.counts["downsizes"] += 1
            for b in recent:
                hist.counts["queries_after_downsize"] += 1
                hist.query(b, "after-downsize")


def main():
    job = json.load(open(sys.argv[1]))
    if job.get("rlimit_gb"):
        lim = int(job["rlimit_gb"] * (1 << 30))
        resource.setrlimit(resource.RLIMIT_AS, (lim, lim))
    out = ShardWriter(sys.argv[2], job.get("shard", 8000))
    totals = {}
    for sub in job.get("multi") or [job]:
        h = Hist(sub, out, random.Random(sub.get("seed", 0)))
        stream_truth(h)
        for k, v in h.counts.items():
            totals[k] = totals.get(k, 0) + v
    out.close(extra=totals)


if __name__ == "__main__":
    main()
