"""Generators of *written* BV/Bool terms (the caller's operation tree) for the expression engine."""
from __future__ import annotations

import random

from .term import BVS, BVV, BoolS, BoolV, T, width, is_bool, bits

BIN = ["__add__", "__sub__", "__mul__", "__floordiv__", "__mod__", "SDiv", "SMod", "__and__", "__or__", "__xor__",
       "__lshift__", "__rshift__", "LShR", "RotateLeft", "RotateRight"]
CMP = ["__eq__", "__ne__", "ULT", "ULE", "UGT", "UGE", "SLT", "SLE", "SGT", "SGE"]
UN = ["__neg__", "__invert__"]


def pool(w):
    """edge/boundary constants for width w"""
    m = (1 << w) - 1
    c = {0, 1, m, m - 1, 1 << (w - 1), (1 << (w - 1)) - 1, (1 << (w - 1)) + 1, w - 1, w, w + 1, 2, 3, 7, 8, 0xff,
         0x55555555_55555555_55555555_55555555 & m, 0xf0f0f0f0_f0f0f0f0_f0f0f0f0_f0f0f0f0 & m}
    return sorted(x & m for x in c)


def bv_leaves(W, consts=None, names=("x", "y")):
    cs = range(1 << W) if consts is None else consts
    return [BVS(n, W) for n in names] + [BVV(c, W) for c in cs]


def bool_leaves():
    return [BoolS("c"), BoolV(True), BoolV(False)]


def d1_bv(W, L=None, B=None):
    """all depth-1 (one operator over leaves) BV terms whose operands have width W.  Yields terms of any width."""
    L = L or bv_leaves(W)
    B = B or bool_leaves()
    for op in BIN:
        for a in L:
            for b in L:
                yield T(op, a, b)
    for op in UN:
        for a in L:
            yield T(op, a)
    for c in B:
        for a in L:
            for b in L:
                yield T("If", c, a, b)
    for a in L:
        for hi in range(W):
            for lo in range(hi + 1):
                yield T("Extract", a, ints=(hi, lo))
        for n in range(0, 3):
            yield T("ZeroExt", a, ints=(n,))
            yield T("SignExt", a, ints=(n,))
    for a in L:
        for b in L:
            yield T("Concat", a, b)
    if W % 8 == 0:
        for a in L:
            yield T("Reverse", a)


def d1_bool(W, L=None, B=None):
    L = L or bv_leaves(W)
    B = B or bool_leaves()
    for op in CMP:
        for a in L:
            for b in L:
                yield T(op, a, b)
    for a in B:
        yield T("Not", a)
        for b in B:
            yield T("And", a, b)
            yield T("Or", a, b)
            yield T("__eq__", a, b)
            yield T("__ne__", a, b)
            for c in B:
                yield T("If", a, b, c)


def concat_n(W):
    """n-ary Concat of slices: all triples (and quadruples at W <= 2) of {Extract(hi,lo,v) : v in x,y} + 1-bit constants.
    (the Concat simplifier merges adjacent Extracts of one variable; seeded defect C01/1 needed a third operand between)"""
    x, y = BVS("x", W), BVS("y", W)
    parts = [T("Extract", v, ints=(hi, lo)) for v in (x, y) for hi in range(W) for lo in range(hi + 1)]
    parts += [BVV(0, 1), BVV(1, 1), x]
    for a in parts:
        for b in parts:
            for c in parts:
                yield T("Concat", a, b, c)
    if W <= 2:
        for a in parts:
            for b in parts:
                for c in parts:
                    for d in parts:
                        yield T("Concat", a, b, c, d)


def d2(W, L=None, B=None, inner_bv=None, inner_bool=None):
    """depth-2 terms: one operator applied to (depth-1 term, leaf) in every position"""
    L = L or bv_leaves(W)
    B = B or bool_leaves()
    ibv = inner_bv if inner_bv is not None else list(d1_bv(W, L, B))
    ibo = inner_bool if inner_bool is not None else list(d1_bool(W, L, B))
    for s in ibv:
        ws = width(s)
        Ls = L if ws == W else [BVS("v%d" % ws, ws), BVV(0, ws), BVV((1 << ws) - 1, ws), BVV(1, ws)] if ws <= 8 else []
        for op in BIN:
            for l in Ls:
                yield T(op, s, l)
                yield T(op, l, s)
        for op in UN:
            yield T(op, s)
        for op in CMP:
            for l in Ls:
                yield T(op, s, l)
                yield T(op, l, s)
        for hi in range(ws):
            for lo in range(hi + 1):
                yield T("Extract", s, ints=(hi, lo))
        for n in (0, 1, 2):
            yield T("ZeroExt", s, ints=(n,))
            yield T("SignExt", s, ints=(n,))
        for l in L[:3]:
            yield T("Concat", s, l)
            yield T("Concat", l, s)
        for c in B:
            for l in Ls:
                yield T("If", c, s, l)
                yield T("If", c, l, s)
    for s in ibo:
        yield T("Not", s)
        for b in B:
            yield T("And", s, b)
            yield T("Or", b, s)
            yield T("__eq__", s, b)
            yield T("__ne__", b, s)
        for a in L:
            for b in L:
                yield T("If", s, a, b)
        for b1 in B:
            for b2 in B:
                yield T("If", s, b1, b2)


# ----------------------------------------------------------------------------------------------
# rule-directed shapes: left-hand sides of the rewrite rules in simplifications.py / If
# ----------------------------------------------------------------------------------------------

def rule_instances(rng: random.Random, widths=(1, 2, 3, 4, 8, 16, 32, 64), per=6):
    """instances of the shapes that claripy's construction-time simplifiers look for"""
    out = []
    for W in widths:
        x, y = BVS("x", W), BVS("y", W)
        c = BoolS("c")
        P = pool(W)

        def K():
            return BVV(rng.choice(P) if rng.random() < 0.7 else rng.getrandbits(W), W)

        for _ in range(per):
            a, b, k = K(), K(), K()
            sh = ["__lshift__", "__rshift__", "LShR"]
            for s1 in sh:
                for s2 in sh:
                    out.append(T(s1, T(s2, x, a), b))                     # nested shifts
            out.append(T("__eq__", T("__xor__", T("__and__", x, a), a), BVV(0, W)))   # ((e&m)^m)==0
            out.append(T("__ne__", T("__xor__", T("__and__", x, a), a), BVV(0, W)))
            out.append(T("__eq__", T("__xor__", T("__and__", x, a), b), BVV(0, W)))
            out.append(T("__eq__", T("__xor__", x, BVV(1, W)), BVV(0, W)))
            out.append(T("__invert__", T("If", c, BVV(1, W), BVV(0, W))))          # ~If(c,1,0)
            out.append(T("__invert__", T("If", c, a, b)))
            out.append(T("__neg__", T("If", c, a, b)))
            out.append(T("__eq__", T("If", c, a, b), k))
            out.append(T("__ne__", T("If", c, a, b), k))
            out.append(T("__eq__", T("If", c, BVV(1, W), BVV(0, W)), BVV(1, W)))
            out.append(T("__eq__", T("If", c, BVV(1, W), BVV(0, W)), BVV(0, W)))
            out.append(T("__ne__", T("If", c, BVV(1, W), BVV(0, W)), BVV(0, W)))
            out.append(T("__and__", T("If", c, a, b), k))
            out.append(T("__sub__", T("__sub__", x, y), a))
            out.append(T("__sub__", T("__add__", x, a), b))
            out.append(T("__add__", T("__sub__", x, a), b))
            out.append(T("__sub__", T("__sub__", x, a), b))
            out.append(T("__add__", T("__add__", x, a), b))
            out.append(T("__mul__", T("__mul__", x, a), b))
            out.append(T("__and__", T("__and__", x, a), b))
            out.append(T("__or__", T("__or__", x, a), b))
            out.append(T("__xor__", T("__xor__", x, a), b))
            out.append(T("__xor__", T("__xor__", x, y), y))
            out.append(T("__xor__", T("__xor__", x, y), x))
            out.append(T("__or__", x, x))
            out.append(T("__and__", x, T("__invert__", x)))
            for cmp in CMP:
                out.append(T(cmp, T("__add__", x, a), b))
                out.append(T(cmp, T("__sub__", x, a), b))
                out.append(T(cmp, x, a))
            # zero-extension compared with a constant
            for n in (1, W):
                for kv in (0, 1, (1 << W) - 1, 1 << W, (1 << (W + n)) - 1, rng.getrandbits(W + n)):
                    for cmp in CMP:
                        out.append(T(cmp, T("ZeroExt", x, ints=(n,)), BVV(kv, W + n)))
                        out.append(T(cmp, T("SignExt", x, ints=(n,)), BVV(kv, W + n)))
            # shifts of zero-extended / zero-concatenated values by amounts around the inner width
            for n in (1, W, 3 * W):
                for sh in ("LShR", "__rshift__", "__lshift__"):
                    for amt in (W - 1, W, W + 1, W + n - 1, W + n):
                        if amt >= 0:
                            out.append(T(sh, T("ZeroExt", x, ints=(n,)), BVV(amt, W + n)))
                            out.append(T(sh, T("Concat", BVV(0, n), x), BVV(amt, W + n)))
            # Extract / Concat interplay
            if W >= 2:
                hi = rng.randrange(W)
                lo = rng.randrange(hi + 1)
                z0 = BVV(0, W)
                out.append(T("Extract", T("Concat", x, y), ints=(W + hi, W + lo)))
                out.append(T("Extract", T("Concat", x, y), ints=(hi, lo)))
                out.append(T("Extract", T("Concat", x, y), ints=(W + lo, lo)))
                out.append(T("Extract", T("Concat", z0, x), ints=(W + lo, lo)))
                out.append(T("Extract", T("ZeroExt", x, ints=(W,)), ints=(W + lo, lo)))
                out.append(T("Extract", T("SignExt", x, ints=(W,)), ints=(W + lo, lo)))
                out.append(T("Extract", T("Extract", T("Concat", x, y), ints=(2 * W - 1, lo)), ints=(hi, 0)))
                out.append(T("Extract", T("__and__", x, a), ints=(hi, lo)))
                out.append(T("Extract", T("__or__", x, a), ints=(hi, lo)))
                out.append(T("Extract", T("__xor__", x, a), ints=(hi, lo)))
                out.append(T("Extract", T("__add__", x, a), ints=(hi, 0)))
                out.append(T("Extract", T("__lshift__", x, BVV(lo, W)), ints=(hi, lo)))
                out.append(T("Extract", T("LShR", x, BVV(lo, W)), ints=(hi - lo, 0)))
                out.append(T("Extract", T("If", c, x, a), ints=(hi, lo)))
                out.append(T("Concat", T("Extract", x, ints=(W - 1, hi)), T("Extract", x, ints=(hi - 1, 0))) if hi > 0 else
                           T("Concat", x, x))
                out.append(T("Concat", T("Extract", x, ints=(W - 1, lo + 0)), BVV(0, 1)))
                if hi > 0:
                    out.append(T("Concat", T("Extract", x, ints=(W - 1, hi)), y, T("Extract", x, ints=(hi - 1, 0))))
                    out.append(T("Concat", T("Extract", x, ints=(W - 1, hi)), T("Extract", x, ints=(hi - 1, 0)), y))
                    out.append(T("Concat", y, T("Extract", x, ints=(W - 1, hi)), a, T("Extract", x, ints=(hi - 1, 0))))
                    out.append(T("Concat", T("Extract", x, ints=(W - 1, hi)), T("Extract", y, ints=(hi - 1, 0)),
                                 T("Extract", x, ints=(hi - 1, 0))))
                for cmp in ("__eq__", "__ne__"):
                    kk = BVV(rng.getrandbits(hi + 1), hi + 1)
                    out.append(T(cmp, T("Extract", T("Concat", z0, x), ints=(hi, 0)), kk))
                    out.append(T(cmp, T("Extract", T("ZeroExt", x, ints=(W,)), ints=(hi, 0)), kk))
                    out.append(T(cmp, T("Concat", x, y), BVV(rng.getrandbits(2 * W), 2 * W)))
                    out.append(T(cmp, T("Concat", BVV(rng.choice([0, rng.getrandbits(W)]), W), y),
                                 BVV(rng.choice([0, rng.getrandbits(2 * W)]), 2 * W)))
                    out.append(T(cmp, T("__and__", x, a), b))
                    out.append(T(cmp, T("__and__", T("ZeroExt", T("Extract", x, ints=(hi, lo)), ints=(W - (hi - lo + 1),)), a), b))
            # rotate / shift / mask rule
            if W in (32, 64):
                n = rng.randrange(1, W)
                out.append(T("__and__", T("__or__", T("LShR", x, BVV(W - n, W)), T("__lshift__", x, BVV(n, W))),
                             BVV((1 << n) - 1, W)))
                out.append(T("__and__", T("RotateLeft", x, BVV(n, W)), BVV((1 << rng.randrange(1, W)) - 1, W)))
            if W % 8 == 0:
                out.append(T("Reverse", T("Reverse", x)))
                out.append(T("Reverse", T("Concat", T("Reverse", T("Extract", x, ints=(W - 1, W // 2))) if (W // 2) % 8 == 0 else x, y)))
                out.append(T("Extract", T("Reverse", x), ints=(7, 0)))
                out.append(T("Reverse", T("Extract", T("Reverse", T("Concat", x, y)), ints=(W - 1, 0))))
                out.append(T("__eq__", T("Reverse", x), k))
                out.append(T("__and__", T("Reverse", x), k))
            # boolean rules
            b1, b2 = BoolS("c"), BoolS("d")
            out.append(T("And", b1, T("Not", b1)))
            out.append(T("Or", b1, T("Not", b1)))
            out.append(T("And", T("ULT", x, a), T("UGE", x, a)))
            out.append(T("Or", T("ULT", x, a), T("UGE", x, a)))
            out.append(T("And", T("__eq__", x, a), T("__ne__", x, a)))
            out.append(T("Not", T("__eq__", x, a)))
            out.append(T("Not", T("Not", b1)))
            for cmp in CMP:
                out.append(T("Not", T(cmp, x, a)))
                out.append(T("And", T(cmp, x, a), T(cmp, x, b)))
                out.append(T("Or", T(cmp, x, a), T(cmp, x, b)))
            out.append(T("If", T("Not", b1), x, y))
            out.append(T("If", b1, T("If", b1, x, y), a))
            out.append(T("If", b1, T("If", T("Not", b1), x, y), a))
            out.append(T("If", b1, a, T("If", b1, x, y)))
            out.append(T("If", b1, a, T("If", T("Not", b1), x, y)))
            out.append(T("If", b1, b2, BoolV(False)))
            out.append(T("If", b1, BoolV(False), BoolV(True)))
            out.append(T("If", b1, BoolV(True), b2))
            out.append(T("__eq__", T("If", b1, x, y), T("If", b1, a, b)))
            # Concat of parts of DIFFERENT sizes masked / shifted / extracted at the part boundary (the width bookkeeping
            # of the Concat rules in bitwise_and_simplifier / extract_simplifier / shift rules)
            if W >= 2:
                for lo_w in {1, W - 1, W // 2} - {0}:
                    hi = BVS("x", W)
                    lo = T("Extract", BVS("y", W), ints=(lo_w - 1, 0)) if lo_w < W else BVS("y", W)
                    cat = T("Concat", hi, lo)
                    tw = W + lo_w
                    for mk in ((1 << lo_w) - 1, (1 << W) - 1, ((1 << tw) - 1) ^ ((1 << lo_w) - 1), (1 << (lo_w + 1)) - 1):
                        out.append(T("__and__", cat, BVV(mk & ((1 << tw) - 1), tw)))
                        out.append(T("__and__", BVV(mk & ((1 << tw) - 1), tw), T("Concat", lo, hi)))
                    out.append(T("LShR", cat, BVV(lo_w, tw)))
                    out.append(T("__lshift__", cat, BVV(W, tw)))
                    out.append(T("Extract", cat, ints=(lo_w - 1, 0)))
                    out.append(T("Extract", cat, ints=(tw - 1, lo_w)))
            # flattened n-ary sums / products with constants in every position, then +/- a constant (bitwise_sub_simplifier,
            # bitwise_add_simplifier: the branches for two terms and for three or more differ)
            for inner in (T("__add__", x, y, a), T("__add__", x, a, y), T("__add__", a, x, y), T("__add__", x, y, x, a),
                          T("__sub__", x, y, a), T("__sub__", T("__add__", x, y), a), T("__add__", T("__sub__", x, y), a),
                          T("__mul__", x, y, a), T("__xor__", x, y, a), T("__or__", x, y, a), T("__and__", x, y, a)):
                out.append(T("__sub__", inner, b))
                out.append(T("__add__", inner, b))
                out.append(T("__sub__", b, inner))
                out.append(T(inner[0], inner, b) if inner[0] not in ("__sub__",) else T("__sub__", inner, y))
            # And over one variable: eq/eq, eq/ne lists, UGE && != (boolean_and_simplifier)
            out.append(T("And", T("__eq__", x, a), T("__eq__", x, b)))
            out.append(T("And", T("__eq__", x, a), T("__eq__", x, a)))
            out.append(T("And", T("UGE", x, a), T("__ne__", x, a)))
            out.append(T("And", T("UGE", x, a), T("__ne__", x, b)))
            out.append(T("And", T("__eq__", x, a), T("__ne__", x, b), T("__ne__", x, k)))
            out.append(T("And", T("__ne__", x, b), T("__eq__", x, a), T("__eq__", x, a)))
            out.append(T("And", T("__eq__", x, y), T("__ne__", x, y)))
            out.append(T("And", T("__eq__", a, x), T("__ne__", x, a)))
            out.append(T("__ne__", T("__xor__", x, BVV(1, W)), BVV(0, W)))
            out.append(T("__ne__", T("__xor__", BVV(1, W), x), BVV(0, W)))
            # branch-free signed max / min idioms (bitwise_xor_simplifier_minmax), q, r symbolic or constant
            for q, r in ((x, y), (x, a), (a, y)):
                t = T("__xor__", q, r)
                for (s_, u2) in ((T("__sub__", q, r), q), (T("__sub__", r, q), r)):
                    u = T("__xor__", s_, u2)
                    v = T("__and__", u, t)
                    w_ = T("__xor__", v, s_)
                    sh_ = T("__rshift__", w_, BVV(W - 1, W))
                    out.append(T("__xor__", q, T("__and__", sh_, t)))
                    out.append(T("__xor__", T("__and__", t, sh_), q))
    return [t for t in out if t is not None]


# ----------------------------------------------------------------------------------------------
# random deep trees at mixed widths
# ----------------------------------------------------------------------------------------------

def rand_term(rng: random.Random, W, depth, want_bool=False, names=("x", "y", "z")):
    def const(w):
        r = rng.random()
        if r < 0.6:
            return BVV(rng.choice(pool(w)), w)
        return BVV(rng.getrandbits(w), w)

    def bv(w, d):
        if d <= 1 or rng.random() < 0.15:
            return BVS(rng.choice(names) + (str(w) if w != W else ""), w) if rng.random() < 0.6 else const(w)
        r = rng.random()
        if r < 0.5:
            op = rng.choice(BIN)
            return T(op, bv(w, d - 1), bv(w, d - 1))
        if r < 0.58:
            return T(rng.choice(UN), bv(w, d - 1))
        if r < 0.68:
            return T("If", bo(d - 1), bv(w, d - 1), bv(w, d - 1))
        if r < 0.78:
            extra = rng.choice([0, 1, 2, 8, w])
            lo = rng.randrange(extra + 1)
            return T("Extract", bv(w + extra, d - 1), ints=(lo + w - 1, lo))
        if r < 0.86 and w >= 2:
            n = rng.randrange(1, w)
            return T(rng.choice(["ZeroExt", "SignExt"]), bv(w - n, d - 1), ints=(n,))
        if r < 0.94 and w >= 2:
            n = rng.randrange(1, w)
            return T("Concat", bv(w - n, d - 1), bv(n, d - 1))
        if w % 8 == 0 and r < 0.97:
            return T("Reverse", bv(w, d - 1))
        return T(rng.choice(["__add__", "__xor__", "__and__", "__or__", "__mul__"]), bv(w, d - 1), bv(w, d - 1),
                 bv(w, d - 1))

    def bo(d):
        if d <= 1 or rng.random() < 0.1:
            return BoolS(rng.choice(["c", "d"])) if rng.random() < 0.8 else BoolV(rng.random() < 0.5)
        r = rng.random()
        if r < 0.6:
            w = rng.choice([W, W, 1, 8]) if rng.random() < 0.3 else W
            return T(rng.choice(CMP), bv(w, d - 1), bv(w, d - 1))
        if r < 0.7:
            return T("Not", bo(d - 1))
        if r < 0.9:
            return T(rng.choice(["And", "Or"]), bo(d - 1), bo(d - 1))
        if r < 0.95:
            return T("If", bo(d - 1), bo(d - 1), bo(d - 1))
        return T(rng.choice(["__eq__", "__ne__"]), bo(d - 1), bo(d - 1))

    return bo(depth) if want_bool else bv(W, depth)


def rand_asgs(rng, vars_, n):
    """n assignments mixing edge values and random ones: list of [[name, bits], ...]"""
    out = []
    for i in range(n):
        a = []
        for nm, w in sorted(vars_.items()):
            if w == 0:
                a.append([nm, [rng.getrandbits(1)]])
            else:
                v = rng.choice(pool(w)) if (i < n // 2 and rng.random() < 0.7) else rng.getrandbits(w)
                a.append([nm, bits(v, w)])
        out.append(a)
    return out


# ----------------------------------------------------------------------------------------------
# C04: boundary constructions (extreme shift amounts, odd widths, mixed If operands, non-byte Reverse)
# ----------------------------------------------------------------------------------------------

def boundary_terms(rng: random.Random, n):
    out = []
    widths = [1, 7, 8, 9, 16, 63, 64, 65, 128]
    for W in widths:
        x, y = BVS("x", W), BVS("y", W)
        c = BoolS("c")
        m = (1 << W) - 1
        big = sorted({v & m for v in (m, m - 1, 1 << (W - 1), (1 << (W - 1)) - 1, W - 1, W, W + 1, 2 * W, 1 << min(W - 1, 62),
                                      (1 << min(W, 64)) - 1, 0, 1, 2)})
        consts = [BVV(v, W) for v in big]
        for op in ("__lshift__", "__rshift__", "LShR", "RotateLeft", "RotateRight"):
            for k in consts:
                for a in (x, BVV(1, W), BVV(m, W), BVV(1 << (W - 1), W)):
                    out.append(T(op, a, k))
                    out.append(T(op, T(op, a, k), k))
        for op in BIN:
            for k in consts[:6] + consts[-3:]:
                out.append(T(op, BVV(m, W), k))
                out.append(T(op, k, BVV(1 << (W - 1), W)))
                out.append(T(op, x, k))
        mixed = [T("If", c, BVV(1, W), T("__add__", x, y)), T("If", c, T("__add__", x, y), BVV(0, W)),
                 T("If", c, BVV(1, W), BVV(0, W)), T("If", c, x, BVV(m, W)), T("If", T("Not", c), BVV(0, W), y)]
        for t in mixed:
            for op in UN:
                out.append(T(op, t))
            for op in BIN + CMP:
                out.append(T(op, t, BVV(1, W)))
                out.append(T(op, BVV(m, W), t))
                out.append(T(op, t, t))
            out.append(T("Extract", t, ints=(W - 1, W // 2)))
            out.append(T("ZeroExt", t, ints=(W,)))
            out.append(T("SignExt", t, ints=(1,)))
            out.append(T("Concat", t, t))
            out.append(T("Reverse", t))
        # rotate / shift / mask shapes with extreme amounts (the 32/64-bit rotate-mask rule computes masks with them)
        for k1 in consts:
            for k2 in (consts[-1], consts[len(consts) // 2], BVV(1, W), BVV(W - 1 if W > 1 else 0, W)):
                rot = T("__or__", T("__lshift__", x, k2), T("LShR", x, k1))
                out.append(T("__and__", rot, BVV(0xff & m, W)))
                out.append(T("__and__", T("__or__", T("LShR", x, k2), T("__lshift__", x, k1)), BVV(m >> 1, W)))
                out.append(T("__and__", T("RotateLeft", x, k1), BVV(1, W)))
        out.append(T("Reverse", x))
        out.append(T("Reverse", BVV(m >> 1, W)))
        out.append(T("Reverse", T("Concat", x, BVV(0, 1))))
        out.append(T("Extract", T("Reverse", T("Concat", x, y)), ints=(W - 1, 0)))
        for cmp in CMP:
            out.append(T(cmp, T("ZeroExt", x, ints=(64,)), BVV(rng.getrandbits(W + 64), W + 64)))
            out.append(T(cmp, T("Concat", BVV(0, 64), x), BVV(m, W + 64)))
    for _ in range(n):
        W = rng.choice(widths)
        out.append(rand_term(rng, W, rng.randint(2, 5), want_bool=rng.random() < 0.3))
    return out
