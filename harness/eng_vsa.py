"""VSA engine: C21 (strided-interval transfer functions), C22 (join/meet/widen/queries), C23 (discrete interval sets,
value sets), C24 (BackendVSA.convert over annotated variables), C25 (constraint_to_si).

The worker (harness/w_vsa.py) drives the real claripy code and records events; every verdict is computed by TLC from
spec/TraceSI.tla (domain semantics in spec/SI.tla, expression semantics in spec/Term.tla).  This module only plans the
populations, maps TLC's rejected events to known findings / violations and writes the evidence.

Populations
  * exhaustive / deterministic tiers (tag "det"): failing inputs must be listed in findings/<pid>-exact.txt
    (signature = C.sig of operation + entry point + operands + clause); anything else that fails is a VIOLATION.
    `./check <pid> --regen` re-records that file from the *thorough* deterministic populations (a superset of quick).
  * seeded tiers (tag "seeded", VERIF_SEED): restricted to operator families that are sound on the pinned tree for the
    whole population they are drawn from (SOUND_* below, established by exhaustive runs), so every failure there is a
    VIOLATION for every seed.
"""
from __future__ import annotations

import json
import os
import time

from . import common as C

N = C.NPROC

# operators whose transfer functions are sound on the pinned tree on ALL ordered pairs of well-formed intervals of
# width <= 4 (exhaustive TLC runs, see findings/vsa-measurements.txt); seeded samples use only these
SOUND_PAIR_OPS = ["add", "sub", "ULT", "ULE", "UGT", "UGE", "union", "lub"]
SOUND_KINDS = ["bin", "cmp", "join"]

WHAT = {
    "neg": "-x dispatches to bitwise_not (StridedInterval.__neg__): the result is ~x, not 0-x",
    "shl": "shift range taken from the shifted operand instead of the amount (_get_shift_range reads self) / wrapping",
    "lshr": "shift range taken from the shifted operand instead of the amount (_get_shift_range reads self)",
    "ashr": "shift range taken from the shifted operand (_get_shift_range reads self); RecursionError on pole-straddling operands",
    "mod": "unsigned remainder: (s - s/t)*t formula and [0, ub-1] bound are wrong; ZeroDivisionError escapes",
    "mul": "wrapping multiplication loses values; ClaripyVSAError/ZeroDivisionError escape from _wrapped_*_mul / lcm",
    "and": "sign-bit AND shortcut returns 0 / wrong stride; De Morgan over unsound or",
    "or": "Warren bounds combined with wrapping strides lose values; ZeroDivisionError escapes",
    "xor": "built from or/not: inherits the lost values; ZeroDivisionError escapes",
    "udiv": "wrapped unsigned division loses values on wrapping strided operands",
    "sdiv": "wrapped signed division loses values / ZeroDivisionError although the divisor interval has no 0",
    "concat": "concat = lshift + or on the zero-extended operand inherits lost values for wrapping strides",
    "zext": "zero_extend keeps bounds of a wrapping interval: members past the old modulus are lost",
    "sext": "sign_extend of wrapping strided intervals loses members",
    "extract": "extract = rshift_logical + cast_low loses members of strided / wrapping intervals",
    "eq": "== decided via intersection: the integer-membership test is not modular ((lb - v) % stride)",
    "ne": "!= is the negation of the unsound ==",
    "SLT": "signed bounds of intervals that wrap with a stride (_nsplit) are wrong: definite answer although both occur",
    "SLE": "signed bounds of intervals that wrap with a stride (_nsplit) are wrong",
    "SGT": "signed bounds of intervals that wrap with a stride (_nsplit) are wrong",
    "SGE": "signed bounds of intervals that wrap with a stride (_nsplit) are wrong",
    "widen": "widen compares bounds as plain unsigned numbers and ignores the phase of the stride: result omits operands",
    "intersection": "meet with a singleton uses a non-modular stride test; wrapped cases lose common values",
    "union": "join loses members, only for closure operands that are not well-formed",
    "lub": "least_upper_bound loses members, only for closure operands that are not well-formed",
    "lub3": "least_upper_bound of three loses members",
    "widen2": "widen chain omits operands (see widen)",
    "query": "eval/min/max/cardinality/solution disagree with the member set (signed enumeration and signed extrema of "
             "wrapping intervals, solution() via the non-modular intersection)",
    "sub": "subtraction loses members, only for closure operands that are not well-formed (stride exceeds the span)",
    "not": "bitwise not loses members, only for closure operands that are not well-formed",
    "operands": "an operation changed one of its operand objects in place",
    "add": "addition loses members, only for closure operands that are not well-formed (stride exceeds the span)",
}
WHAT_SETS = {
    "sub": "reflected subtraction on a discrete set (x - set) computes set - x (__rsub__ calls __sub__)",
    "udiv": "reflected division on a discrete set (x // set) computes set // x (__rfloordiv__ calls __floordiv__)",
    "mod": "reflected remainder on a discrete set computes set % x; plus the interval-level % defect",
    "query": "min/max of a discrete set / value set are read from hull bounds that ignore wrapping members",
}


# ----------------------------------------------------------------------------------------------
# signatures
# ----------------------------------------------------------------------------------------------

def _v(V):
    return [t[:5] for t in V]


def signature(ev, clause):
    k = ev["k"]
    if k in ("bin", "cmp", "cat", "meet"):
        return [k, ev["op"], ev["how"], ev.get("ctx", "si"), _v(ev["A"]), _v(ev["B"]), clause]
    if k == "join":
        return [k, ev["op"], ev["how"], ev.get("ctx", "si"), _v(ev["A"]), _v(ev["B"]), _v(ev.get("C", [])), clause]
    if k == "un":
        return [k, ev["op"], ev["how"], ev.get("ctx", "si"), _v(ev["A"]), ev["p"], clause]
    if k == "q":
        return [k, ev.get("ctx", "si"), ev["mode"], _v(ev["A"]), clause]
    if k == "vs":
        enc = lambda v: [v["rg"], [_v(x) for x in v["si"]]]  # noqa: E731
        return [k, ev["op"], ev["how"], enc(ev["Av"]), ev["bt"], _v(ev["B"]), enc(ev["Bv"]), ev["p"], clause]
    if k == "conv":
        seq = [ev["ctx"]] if str(ev.get("ctx", "")).startswith("seq") else []
        return [k, ev["t"], [[n, w, _v(v)] for n, w, v in ev["vars"]], *seq, clause]
    if k == "c2si":
        return [k, ev["c"], [[n, w, _v(v)] for n, w, v in ev["vars"]], clause]
    if k == "operands":
        return [k, ev.get("ctx", "si"), _v(ev["A"]), _v(ev["B"]), clause]
    if k == "opset":
        return [k, ev["W"], clause]
    return [k, clause]


def finding_id(pid, ev):
    k = ev["k"]
    if k == "conv":
        return f"{pid}-conv-{ev['op'].strip('_')}"
    if k == "c2si":
        return f"{pid}-{ev['op']}"
    if k == "q":
        return f"{pid}-query" + ("" if ev.get("ctx", "si") == "si" else "-" + ev["ctx"])
    ctx = ev.get("ctx", "si")
    return f"{pid}-{ev['op']}" + ("" if ctx == "si" else "-" + ctx.split("-")[0])


def what_for(pid, ev, clause):
    k = ev["k"]
    if k == "conv":
        return "vsa.convert of a term whose top operator is %s misses concrete values (inherits the interval defects " \
               "of C21/C22)" % ev["op"]
    if k == "c2si":
        return {"unsat": "constraint_to_si reports a satisfiable constraint (shape %s) as unsatisfiable: balanced bound "
                         "wraps / assumption x+k >= 0 balanced to x >= -k",
                "bound": "constraint_to_si bound for shape %s cuts off satisfying assignments (bits discarded by "
                         "Extract/Concat/<</& forgotten, or wrapped bound)"}.get(clause, "shape %s") % ev["op"]
    if ev.get("ctx", "si") != "si" and ev["op"] in WHAT_SETS:
        return WHAT_SETS[ev["op"]]
    return WHAT.get(ev["op"], "listed failing input") + (" [exception escapes]" if clause == "exc" else "")


# ----------------------------------------------------------------------------------------------
# job plans.  A plan is a list of phases; a phase is (name, tag, jobs, post) where tag is "det" or "seeded"
# ----------------------------------------------------------------------------------------------

def parts(job, n):
    return [dict(job, part=k, nparts=n) for k in range(n)]


def closure_by_width(stats, cross=False):
    """closure level 1: intervals that are not well-formed but were returned by an operation on well-formed operands.
    cross=True adds those produced from operands of another width (extract / extension / concat results)"""
    out = {}
    for st in stats:
        for t in st.get("closure", []) + (st.get("closure_x", []) if cross else []):
            out.setdefault(t[0], {})[tuple(t[:5])] = t
    return {w: [v[k] for k in sorted(v)] for w, v in out.items()}


def unbatch(ev, x):
    """a rejected sub-event of a k=batch line -> the stand-alone event"""
    if ev.get("k") != "batch":
        return ev
    if int(x) == 0:         # clause about the batch itself (operand preservation)
        return {"k": "operands", "op": "operands", "how": "seq", "exc": "", "A": ev["A"], "B": ev["B"], "A2": ev["A2"],
                "B2": ev["B2"], "ops": [s[1] for s in ev["subs"]], "ctx": ev["ctx"], "cls": ev["cls"],
                "tg": ev.get("tg", "det")}
    s = ev["subs"][int(x) - 1]
    return {"k": s[0], "op": s[1], "how": s[2], "exc": s[3], "p": s[4], "R": s[5], "rb": s[6], "C": s[7],
            "n": 3 if s[7] else 2, "A": ev["A"], "B": ev["B"], "ctx": ev["ctx"], "cls": ev["cls"],
            "tg": ev.get("tg", "det")}


def sig(ev, clause):
    return C.sig(signature(ev, clause))[:13]


def plan_c21(tier, seed, regen):
    thorough = tier == "thorough" or regen
    kinds = ["bin", "cmp", "cat"]
    p1 = []
    for W in (1, 2):
        p1.append({"gen": "pairs", "W": W, "cls": 1, "kinds": kinds})
        p1.append({"gen": "unary", "W": W, "cls": 1, "maxw": 6})
    p1 += parts({"gen": "pairs", "W": 3, "cls": 1, "kinds": kinds}, N)
    p1.append({"gen": "unary", "W": 3, "cls": 1, "maxw": 6})
    for W in (1, 2, 3):
        for W2 in (1, 2, 3):
            if W != W2:
                p1.append({"gen": "concatx", "W": W, "W2": W2, "cls": 1})
    # W = 4: every unary case; a fixed slice of the pairs for every operator (deterministic: exact findings)
    p1 += parts({"gen": "unary", "W": 4, "cls": 1, "maxw": 6}, 4)
    p1 += parts({"gen": "pairs", "W": 4, "cls": 1, "kinds": kinds, "slice_mod": 41 if thorough else 369}, N)
    phases = [("wf-exhaustive", "det", p1)]

    def closure_phase(stats):
        clo = closure_by_width(stats, cross=thorough)
        jobs = []
        for W in (1, 2, 3):
            extra = clo.get(W, [])
            if not extra:
                continue
            jobs.append({"gen": "unary", "W": W, "popA": extra, "maxw": 6, "_w": W, "_n": len(extra)})
            # pairs with at least one closure operand
            jobs += parts({"gen": "pairs", "W": W, "kinds": kinds, "popX": extra, "only_new": 1, "_w": W,
                           "_n": len(extra), "stable_mod": 1 if thorough or W < 3 else 4}, N if W == 3 else 1)
        return jobs

    phases.append(("closure-1", "det", closure_phase))
    if not regen:
        rate = 0.10 if thorough else 0.01
        phases.append(("w4-seeded", "seeded",
                       parts({"gen": "pairs", "W": 4, "kinds": SOUND_KINDS, "ops": SOUND_PAIR_OPS, "rate": rate,
                              "seed": seed * 7919 + 1}, N)))
    if thorough and not regen:
        # 8..64 bits: ~10 ops per interval pair; membership on bit sequences costs ~1 ms per test at 64 bits
        phases.append(("wide", "seeded", parts({"gen": "wide", "n": 60, "seed": seed * 31 + 5, "pairs": 16}, N)))
    return phases


def plan_c22(tier, seed, regen):
    thorough = tier == "thorough" or regen
    kinds = ["join", "meet"]
    p1 = []
    for W in (1, 2):
        p1.append({"gen": "pairs", "W": W, "cls": 1, "kinds": kinds, "bottom": True})
        p1.append({"gen": "query", "W": W, "cls": 1})
        p1 += parts({"gen": "triple", "W": W, "cls": 1}, 1 if W == 1 else 4)
    p1 += parts({"gen": "pairs", "W": 3, "cls": 1, "kinds": kinds, "bottom": True}, N)
    p1 += parts({"gen": "query", "W": 3, "cls": 1}, 2)
    p1 += parts({"gen": "query", "W": 4, "cls": 1}, 8)
    p1 += parts({"gen": "pairs", "W": 4, "cls": 1, "kinds": kinds, "bottom": True, "slice_mod": 41 if thorough else 369}, N)
    if thorough:
        p1 += parts({"gen": "triple", "W": 3, "cls": 1, "rate": 1.0, "slice3": 1}, N)
    # the closure intervals come from the arithmetic operations: run them without recording (harvest)
    p1 += parts({"gen": "pairs", "W": 3, "kinds": ["bin", "cat"], "harvest": 1}, N)
    p1 += [{"gen": "pairs", "W": W, "kinds": ["bin", "cat"], "harvest": 1} for W in (1, 2)]
    p1 += [{"gen": "unary", "W": W, "maxw": 6, "harvest": 1} for W in (1, 2, 3)]
    phases = [("wf-exhaustive", "det", p1)]

    def closure_phase(stats):
        clo = closure_by_width(stats, cross=thorough)
        jobs = []
        for W in (1, 2, 3):
            extra = clo.get(W, [])
            if not extra:
                continue
            jobs.append({"gen": "query", "W": W, "popA": extra, "_w": W, "_n": len(extra)})
            jobs += parts({"gen": "pairs", "W": W, "kinds": kinds, "popX": extra, "only_new": 1, "bottom": True,
                           "_w": W, "_n": len(extra)}, N if W == 3 else 1)
        return jobs

    phases.append(("closure-1", "det", closure_phase))
    if not regen:
        rate = 0.10 if thorough else 0.01
        phases.append(("w4-seeded", "seeded",
                       parts({"gen": "pairs", "W": 4, "kinds": ["join"], "ops": ["union", "lub"], "rate": rate,
                              "seed": seed * 7919 + 2}, N)))
    return phases


def plan_c23(tier, seed, regen):
    thorough = tier == "thorough" or regen
    p = [{"gen": "dsis", "W": 1, "mod3": 1, "mod_dd": 1, "union_si": 1},
         {"gen": "vs", "W": 1, "mod2": 1, "mod_vv": 1}]
    p += parts({"gen": "dsis", "W": 2, "mod3": 40, "mod_pop": 1 if thorough else 3, "mod_dd": 60, "union_si": 1}, N)
    p += parts({"gen": "dsis", "W": 2, "mod3": 40, "mod_pop": 3 if thorough else 9, "mod_dd": 120, "collapse": 3,
                "extra": []}, N)
    p += parts({"gen": "vs", "W": 2, "mod2": 5 if thorough else 15, "mod_vv": 12}, N)
    phases = [("sets", "det", p)]
    if not regen:
        n = 3 if thorough else 1
        phases.append(("w3-seeded", "seeded",
                       parts({"gen": "dsis", "W": 3, "mod3": 1, "sample": 60 * n, "seed": seed * 7919 + 3,
                              "ops": ["add", "ULT", "ULE", "UGT", "UGE", "union"], "kinds": ["bin", "cmp", "join"],
                              "extra": [], "mod_dd": 10 ** 9, "no_reflect": 1}, N)))
    return phases


def plan_c24(tier, seed, regen):
    thorough = tier == "thorough" or regen
    p = [{"gen": "conv", "mode": "d1", "W": 1}]
    p += parts({"gen": "conv", "mode": "d1", "W": 2}, N)
    p += parts({"gen": "conv", "mode": "d1", "W": 3, "slice_mod": 7 if thorough else 63, "maxw": 5}, N)
    p += parts({"gen": "conv", "mode": "rand", "n": 24000 if thorough else 3000, "seed": 777, "widths": [2, 3, 4]}, N)
    p += [{"gen": "conv", "mode": "seq", "W": W} for W in (2, 3)]
    phases = [("terms", "det", p)]
    if not regen:
        phases.append(("rand-sound", "seeded",
                       parts({"gen": "conv", "mode": "rand", "ops": "sound", "n": 16000 if thorough else 2400,
                              "seed": seed * 7919 + 4, "widths": [2, 3, 4]}, N)))
    return phases


def plan_c25(tier, seed, regen):
    thorough = tier == "thorough" or regen
    p = [{"gen": "c2si", "W": 2, "mode": "shapes"}]
    p += parts({"gen": "c2si", "W": 3, "mode": "shapes"}, N)
    p += parts({"gen": "c2si", "W": 4, "mode": "shapes"}, N)
    p += parts({"gen": "c2si", "W": 3, "mode": "annot"}, N)
    p += parts({"gen": "c2si", "W": 3, "mode": "bool", "n": 4000 if thorough else 800}, N)
    p += parts({"gen": "c2si", "W": 4, "mode": "bool", "n": 4000 if thorough else 400}, N)
    if thorough:
        p += parts({"gen": "c2si", "W": 5, "mode": "shapes", "slice_mod": 4}, N)
    phases = [("constraints", "det", p)]
    if not regen:
        phases.append(("cmp-seeded", "seeded",
                       parts({"gen": "c2si", "W": 6, "mode": "plaincmp", "n": 1600 if thorough else 320,
                              "seed": seed * 7919 + 5}, N)))
    return phases


PLANS = {"C21": plan_c21, "C22": plan_c22, "C23": plan_c23, "C24": plan_c24, "C25": plan_c25}

RULES = {
    "C21": "one event per (operator, entry point(s), ordered operand pair / operand + parameter); entry points = "
           "BackendVSA._call dispatch and the named StridedInterval method (merged when their outcomes are identical); "
           "non-trivial = the call returned a result (not an exception), distinct by (operator, operands, parameters)",
    "C22": "one event per join/meet/widen call on an ordered pair (or triple) and one query battery (eval for every n, "
           "signed eval, min/max signed+unsigned, cardinality, solution for every value) per interval; distinct by "
           "(operation, operands)",
    "C23": "one event per operation on a DiscreteStridedIntervalSet (2- and 3-member sets of well-formed intervals, both "
           "operand orders, also with a lowered collapse threshold) or ValueSet (1-2 regions), distinct by (operation, "
           "operands); operand combinations claripy does not implement (TypeError/AssertionError/NotImplemented) are "
           "counted as unsupported, not as events",
    "C24": "one event per (term, interval annotation of its variables): depth-1 operator shapes over all ordered pairs "
           "of well-formed intervals, If/And/Or/Not shapes, and a fixed catalogue of random depth 2-3 terms; TLC "
           "enumerates every assignment drawn from the intervals; distinct by (term, annotations)",
    "C25": "one event per constraint: comparison x left-hand shape x every constant (W<=4), interval-annotated "
           "variables, And/Or/Not catalogue; TLC enumerates every assignment; non-trivial = constraint_to_si returned a "
           "bound or reported unsat; distinct by (constraint, annotations)",
}


def run_phase(jobs):
    """pack the jobs of a phase into at most NPROC worker processes (one interpreter + one TLC per shard each):
    a fresh interpreter and a JVM cost ~5 s of CPU, far more than the small populations themselves"""
    clean = [{k: v for k, v in j.items() if not k.startswith("_")} for j in jobs]
    n = min(N, len(clean))
    # heaviest first, round-robin: parts of one population carry part=k and land in different workers
    packs = [[] for _ in range(n)]
    for i, j in enumerate(clean):
        packs[(j["part"] if "part" in j and j.get("nparts", 1) == n else i) % n].append(j)
    multi = [{"gen": "multi", "jobs": p, "shard": 60000} for p in packs if p]
    return C.pipeline("w_vsa", multi, "TraceSI.tla", wtimeout=3000, ttimeout=3000)


def check(pid, tier, regen=False):
    seed = C.seed()
    R = C.Result(pid, "exploration", tier)
    exact = C.load_set(f"{pid}-exact.txt")
    new_exact = set()
    phases = PLANS[pid](tier, seed, regen)
    all_stats, phase_info = [], []
    n_known = n_fail = 0
    # round 1: every phase whose jobs are known up front (deterministic and seeded together: one interpreter and one
    # JVM per worker);  round 2: phases computed from the results of round 1 (closure intervals)
    rounds = [[(n, t, j) for n, t, j in phases if not callable(j)], [(n, t, j) for n, t, j in phases if callable(j)]]
    prev_stats = []
    for rnd in rounds:
        jobs = []
        for name, tag, js in rnd:
            js = js(prev_stats) if callable(js) else js
            jobs += [dict(j, tag=tag) for j in js]
            phase_info.append({"phase": name, "kind": tag, "jobs": len(js)})
        if not jobs:
            continue
        t0 = time.time()
        bad, stats = run_phase(jobs)
        if os.environ.get("VERIF_DEBUG"):
            print(f"[debug] round {[n for n, _, _ in rnd]}: {len(jobs)} jobs, {C.merge_stats(stats)['events']} lines, "
                  f"{C.merge_stats(stats).get('subevents', 0)} sub-events, "
                  f"{len(bad)} rejected, {time.time() - t0:.1f}s", flush=True)
        prev_stats = stats
        all_stats += stats
        for _, ev, clause, x in bad:
            ev = unbatch(ev, x)
            if clause == "operand":
                raise C.MachineryError("an exhaustive-tier event has an operand outside WFSet: " + json.dumps(ev)[:600])
            n_fail += 1
            s = sig(ev, clause)
            if ev.get("tg", "det") == "det":
                new_exact.add(s)
                if s in exact and clause != "opset":
                    n_known += 1
                    R.add_known(finding_id(pid, ev), what_for(pid, ev, clause))
                    continue
            payload = {"property": pid, "tier_kind": ev.get("tg", "det"), "clause": clause, "sig": s,
                       "event": {k: v for k, v in ev.items() if k not in ("evals", "sevals")} if ev["k"] == "q" else ev,
                       "replay_job": {"gen": "replay", "events": [ev]}}
            R.add_violation(payload)
    st = C.merge_stats(all_stats)
    if regen:
        os.makedirs(os.path.join(C.VERIF, "findings"), exist_ok=True)
        with open(os.path.join(C.VERIF, "findings", f"{pid}-exact.txt"), "w") as f:
            for s in sorted(new_exact):
                f.write(s + "\n")
        print(f"regenerated findings/{pid}-exact.txt with {len(new_exact)} entries")
        R.violations = []
    n_batch = st["outcomes"].get("batch", 0)
    evaluations = st["events"] - n_batch + st.get("subevents", 0)
    sub_out = {}
    for s_ in all_stats:
        for k, v in s_.get("sub_outcomes", {}).items():
            sub_out[k] = sub_out.get(k, 0) + v
    outcomes = {k: v for k, v in st["outcomes"].items() if k != "batch"}
    for k, v in sub_out.items():
        outcomes[k] = outcomes.get(k, 0) + v
    R.coverage = {
        "evaluations": evaluations,
        "distinct_nontrivial": st["nontrivial"] - n_batch + st.get("nontrivial_sub", 0),
        "rule": RULES[pid],
        "samples": st["samples"],
        "exhaustive": False,
        "exhaustive_scopes": SCOPES[pid][0 if tier == "quick" and not regen else 1],
        "phases": phase_info,
        "rejected_by_tlc": n_fail,
        "known_instances": n_known,
        "events_deterministic_tiers": st.get("ev_det", 0),
        "events_seeded_tiers": st.get("ev_seeded", 0),
        "unsupported_combinations": st.get("unsupported", 0),
        "inputs": st.get("inputs", 0),
        "tlc_module": "TraceSI.tla (SI.tla, Term.tla, BVBits.tla)",
        "ndjson_lines": st["events"],
        "outcomes": outcomes,
    }
    R.assumptions = [
        "TLC evaluates spec/SI.tla and spec/Term.tla correctly (cross-checked once against an independent brute force "
        "on > 10^5 events, 0 disagreements)",
        "members of intervals that are not well-formed are taken from claripy's own eval() (they have no agreed "
        "meaning); well-formed intervals are read by the specification's Gamma",
        "seeded tiers draw only operator families that are sound on the pinned tree; deterministic tiers compare "
        "against findings/%s-exact.txt" % pid,
    ]
    return R.finish()


SCOPES = {
    "C21": ("W=1..3: all ordered pairs of WFSet(W) x {12 binary ops, 10 comparisons, concat (also across widths)} and "
            "all unary/extension/extract cases, plus closure level 1 (non-well-formed results fed back; at W=3 a content-hashed "
            "quarter of the pairs with >=1 closure operand, all of them in thorough); every operand pair is one sequence "
            "on the same operand objects (concat first) whose operands are read back afterwards; W=4: all unary cases, every 369th ordered pair x all ops; seeded 1% of W=4 pairs for "
            "the sound operators",
            "as quick, W=4 every 41st ordered pair, seeded 10% of W=4 pairs, wide widths 8..64 sampled"),
    "C22": ("W=1..3: all ordered pairs of WFSetB(W) x {union, least_upper_bound, widen, intersection}, all triples at "
            "W<=2 for least_upper_bound/widen chains, query batteries on every interval of W=1..4 and on closure level 1; "
            "W=4 pairs: every 369th + seeded 1% (union, lub)",
            "as quick with W=4 every 41st pair, W=3 triples, seeded 10%"),
    "C23": ("W=1: all sets; W=2: every 3rd 2-subset and every 40th 3-subset of WFSet(2) x all intervals, both orders, "
            "slice of set x set; lowered collapse threshold; value sets with 1-2 regions (two-region operands also assembled "
            "in the opposite region order); W=3 seeded sample",
            "W=2: all 2-subsets"),
    "C24": ("d1 shapes (incl. nested If guarded by the negated/same condition, directly and under an arithmetic node) "
            "over all ordered pairs of WFSet(W), W=1,2; every 63rd pair at W=3; 3000-term catalogue; re-annotation "
            "sequences (same variable and bounds, coarse to fine stride, earlier expressions alive / collected); seeded "
            "2400 sound-operator terms", "every 7th pair at W=3; 24000-term catalogue; 16000 seeded"),
    "C25": ("all shapes (incl. ZeroExt(n,x) & low-ones mask narrower/equal/wider than x) x comparisons x constants at "
            "W=2,3,4; all interval-annotated variables at W=3; And/Or/Not "
            "catalogue (1200); seeded plain comparisons at W=6", "plus every 4th at W=5, catalogue 8000"),
}


def replay(pid, path):
    """re-execute a recorded violation on the current tree and re-validate it with TLC"""
    with open(path) as f:
        payload = json.load(f)
    job = payload["replay_job"]
    bad, stats = C.pipeline("w_vsa", [job], "TraceSI.tla")
    st = C.merge_stats(stats)
    print(f"replayed {st['events']} event(s); TLC rejected {len(bad)}")
    for _, ev, clause, _x in bad:
        print("  still failing:", clause, json.dumps(ev)[:400])
    return 1 if bad else 0


def propose(path=None):
    """write findings/vsa-proposed-findings.json: one proposed known_findings.json entry per finding class seen in the
    latest evidence files (ids and instance counts are taken from the runs, texts from WHAT)"""
    out = []
    for pid in ("C21", "C22", "C23", "C24", "C25"):
        p = os.path.join(C.EVID, pid + ".json")
        if not os.path.exists(p):
            continue
        with open(p) as f:
            ev = json.load(f)
        for fid, cnt in sorted(ev["coverage"].get("known_findings_matched", {}).items()):
            op = fid.split("-", 1)[1]
            base = op.replace("conv-", "").split("-")[0]
            if pid == "C24":
                what = "vsa.convert of terms whose top operator is %s misses concrete values (consequence of the " \
                       "interval defects listed under C21/C22)" % base
            elif pid == "C25":
                what = "constraint_to_si, constraint shape %s: satisfiable constraint reported unsat (wrapped balanced " \
                       "bound / assumption balancing) or bound that cuts off satisfying assignments" % op
            elif pid == "C23" and base in WHAT_SETS:
                what = WHAT_SETS[base]
            else:
                what = WHAT.get(base, "listed failing inputs")
            out.append({"property": pid, "id": fid, "status": "open", "what": what,
                        "match": {"exact_set": f"findings/{pid}-exact.txt", "class": op,
                                  "signature": "C.sig([kind, op, entry points, ctx, operands, params, clause])[:13]"},
                        "instances_%s_tier" % ev["tier"]: cnt})
    path = path or os.path.join(C.VERIF, "findings", "vsa-proposed-findings.json")
    with open(path, "w") as f:
        json.dump({"_doc": "proposed entries for known_findings.json (VSA engine, C21..C25); the exact failing-input sets "
                           "are findings/C2x-exact.txt, regenerated only by ./check C2x --regen", "findings": out}, f, indent=1)
    print(f"wrote {path} ({len(out)} entries)")


if __name__ == "__main__":
    import sys
    if len(sys.argv) > 1 and sys.argv[1] == "propose":
        propose()
