"""FP engine: C02 — IEEE-754 in every rounding mode, folded or solved.

Events recorded by harness/w_fp.py are validated by TLC against spec/TraceFP.tla (reference semantics spec/FP.tla).
Deterministic pool-exhaustive inputs: known defects of the pinned tree are the exact set of failing-input signatures
in findings/C02-exact.txt (+ C02-exact-thorough.txt for the thorough pools), written only by `--regen`.
Seeded extras (gen=rand) are restricted to the regions in which the pinned tree is correct, so any failure there is
a violation for every seed:
   RNE add/sub/mul on arbitrary operands; RNE div on finite non-zero operands; RNE sqrt; the six comparisons;
   isNaN/isInf/abs/neg; fp->fp RNE; fp->signed int in RNE/RTZ/RTP/RTN; int64->double RNE; int16->float RNE.
Before a VIOLATION is reported the event is re-evaluated by Z3 on an independently built term and that value is
validated by TLC against FP.tla as well: disagreement => MachineryError (SPEC-SUSPECT, exit 2).

Further groups: "cancel" (fpToIEEEBV/fpToFP compositions with a symbolic operand: the cancellation rewrites),
"mixed" (solved route with one operand kept as a CONSTANT FPV inside the symbolic expression, so that claripy's
translation of constants to Z3 is exercised: signed zeros, subnormals, inf, NaN; all binary operators x 5 rounding
modes and the comparisons on index slices of the quick pool) and "sortobj" (float32 events whose FSort objects are
equal to, but not identical with, claripy.FSORT_FLOAT: FSort("FLOAT", 8, 24) and a pickle round trip; numerals written
as doubles, RNE/exact operators only).

self-test of the spec:   python -m harness.eng_fp selftest [quick|thorough]
"""
from __future__ import annotations

import json
import os
import sys

from . import common as C
from . import w_fp as W

PID = "C02"
# a small young generation keeps 16 concurrent allocation-heavy TLC processes in cache (measured 1.6-2x); the java
# launcher picks the variable up, explicit flags of common.tlc_cmd still win
os.environ.setdefault("JDK_JAVA_OPTIONS", "-Xmn24m")
TLA = "TraceFP.tla"

GROUP_WHAT = {
    "C02-rm-ignored": "concrete folding ignores the rounding mode (Python float arithmetic is RNE): every inexact "
                      "add/sub/mul/div/sqrt/fp->fp/int->fp under RNA/RTZ/RTP/RTN folds to the RNE result "
                      "(backend_concrete/fp.py fpAdd.. take _rm and drop it)",
    "C02-div-specials": "FPV.__truediv__: the x/0 handler takes the sign of the result from str(x * 0), which is 'nan' for "
                        "x = +-inf: -inf/+0.0 and +inf/-0.0 fold to +inf (IEEE: -inf).  (0/0 and NaN/0 -> +inf were "
                        "fixed in /repo c630e29.)",
    "C02-rna-toint": "fpToSBV/fpToUBV under RM_NearestTiesAwayFromZero (mode map fixed in /repo; listed for completeness)",
    "C02-int2fp-double-rounding": "int -> float32 conversion goes through a Python double and is rounded twice "
                                  "(e.g. 2^60+2^36+1 -> 2^60 instead of 2^60+2^37)",
    "C02-toubv-raises": "fpToUBV raises AssertionError for negative / too large rounded values instead of returning a value",
    "C02-fold-raises": "folding raises a Python exception",
    "C02-fpv-float": "claripy.FPV(value, FSORT_FLOAT) of a double outside the float range / precision",
    "C02-solved-modelcache": "claripy.Solver().add(x == c) seeds the model cache and eval() answers from it through the "
                             "concrete backend, so the folding defects (rounding mode ignored) reach solver answers "
                             "for BV-variable expressions; SolverCacheless answers correctly",
    "C02-solved": "value obtained through the solver (Z3 translation / _abstract_fp_val) differs from IEEE-754",
    "C02-other": "other listed failing input",
}


def group_of(ev, clause):
    op, rm = ev["op"], ev["rm"]
    if clause == "solved" and ev["sm"] == "solver":
        return "C02-solved-modelcache"
    if clause in ("solved", "solved-outcome"):
        return "C02-solved"
    if clause == "outcome":
        return "C02-toubv-raises" if op == "toubv" else "C02-fold-raises"
    rounding = W.ARITH + ["sqrt", "fptofp", "sbvtofp", "ubvtofp"]
    if ev["iop"] in rounding and ev["irm"] != "RNE":
        return "C02-rm-ignored"          # depth-2: the inner operation was folded with the wrong mode
    if ev["iop"] == "div":
        return "C02-div-specials"
    if op in ("tosbv", "toubv"):
        return "C02-rna-toint" if rm == "RNA" else "C02-other"
    if op == "div" and (rm == "RNE" or ev_is_div_special(ev)):
        return "C02-div-specials"
    if op in ("sbvtofp", "ubvtofp") and rm == "RNE":
        return "C02-int2fp-double-rounding"
    if op in rounding and rm != "RNE":
        return "C02-rm-ignored"
    if op == "fpv":
        return "C02-fpv-float"
    return "C02-other"


def ev_is_div_special(ev):
    """0/0, NaN/0 or inf/0 (labelling of a known finding only; membership is by exact signature)"""
    if ev["iop"]:
        return False
    fm = {11: "d", 8: "f"}[ev["eb"]]
    a, b = W.unbits(ev["a"]), W.unbits(ev["b"])
    w = ev["eb"] + ev["sb"]
    bzero = b & ((1 << (w - 1)) - 1) == 0
    azero = a & ((1 << (w - 1)) - 1) == 0
    ainf = a & ((1 << (w - 1)) - 1) == ((1 << ev["eb"]) - 1) << (ev["sb"] - 1)
    return bzero and (azero or ainf or W.is_nan_pattern(a, fm))


def signature(ev, clause):
    return C.sig([ev["op"], ev["rm"], ev["eb"], ev["sb"], ev["eb2"], ev["sb2"], ev["size"], W.unbits(ev["a"]),
                  W.unbits(ev["b"]) if ev["b"] else -1, ev["iop"], ev["irm"], W.unbits(ev["ia"]),
                  W.unbits(ev["ib"]) if ev["ib"] else -1, ev["ipos"], ev["how"], clause]
                 # route tags only where they matter, so that the signatures of the plain events are unchanged
                 + ([ev["so"]] if ev.get("so", "const") != "const" else [])
                 + (["mix-" + ev["mix"]] if ev.get("mix") and clause.startswith("solved") else []))


def jobs_for(tier, seed, mode="claripy"):
    J = []
    base = {"mode": mode, "gen": "pool", "solved": 1, "fresh_every": 97, "shard": 4000}
    q = tier == "quick"
    pool, nd2, nrand = ("quick", 400, 1500) if q else ("closure", 6000, 20000)
    # quick: add/sub on the whole quick pool, mul/div/comparisons on the 30-value sub-pool (FP.tla evaluates a double
    # mul/div in ~3 ms), solved side on every 3rd arithmetic/comparison case; thorough: closure pool, solved everywhere
    for fmt in ("d", "f"):
        for op in W.ARITH:
            np_ = 2 if q else 12
            for k in range(np_):
                J.append({**base, "fmt": fmt, "group": "arith", "ops": [op], "part": k, "nparts": np_,
                          "pool": ("quick" if op in ("add", "sub") else "small") if q else pool, "solved": 3 if q else 1})
    for fmt in ("d", "f"):
        np_ = 1 if q else 4
        for k in range(np_):
            J.append({**base, "fmt": fmt, "group": "cmp", "pool": "small" if q else pool, "part": k, "nparts": np_,
                      "solved": 3 if q else 1})
        for grp in ("unary", "toint", "fptofp", "inttofp", "bits", "cancel"):
            J.append({**base, "fmt": fmt, "group": grp, "pool": pool})
            if q and grp == "inttofp":
                # BV-variable expressions through claripy.Solver().add(x == c) are answered from the model cache by
                # the concrete backend: sample that route densely here (every 5th case)
                J[-1]["fresh_every"] = 5
        J.append({**base, "fmt": fmt, "group": "d2", "pool": "quick" if q else "full", "n": nd2})
        # solved route with one constant operand (reaches Z3 unfolded): same slices in both tiers
        J.append({**base, "fmt": fmt, "group": "mixed", "pool": "quick", "ops": ["add", "sub"] + W.CMP, "fresh_every": 0})
        J.append({**base, "fmt": fmt, "group": "mixed", "pool": "quick", "ops": ["mul", "div"], "fresh_every": 0})
    # float32 events whose sort objects are equal to, but not identical with, FSORT_FLOAT
    J.append({**base, "fmt": "f", "group": "sortobj", "pool": "quick"})
    nr = 2 if tier == "quick" else 8
    for k in range(nr):
        J.append({**base, "gen": "rand", "seed": seed * 1000 + k, "n": nrand // nr, "rand": 1})
    return J


def second_opinion(evs):
    """evs: recorded events.  Re-evaluate each with an independent Z3 term and let TLC compare FP.tla with Z3.
    Returns the list of indices on which FP.tla and Z3 disagree."""
    zev, ix = [], []
    for i, ev in enumerate(evs):
        c = W.case_of_event(ev)
        if c["op"] == "toieee" and W.is_nan_pattern(c["a"], c["fmt"]):
            continue
        e2 = W.event_of(c)
        e2["zs"], e2["fold"] = W.z3_ref(c)
        if c["op"] == "toieee" and e2["zs"] == 0:
            continue              # to_ieee_bv(NaN from an inner operation): uninterpreted in Z3, nothing to compare
        zev.append(e2)
        ix.append(i)
    bad = C.validate_events(TLA, zev, shard_size=2000, cfg="Empty.cfg", label="so")
    return sorted({ix[i] for (i, _c, _x) in bad})


def check(pid, tier, regen=False):
    seed = C.seed()
    R = C.Result(pid, "exploration", tier)
    jobs = jobs_for(tier, seed)
    bad, stats = C.pipeline("w_fp", jobs, TLA)
    st = C.merge_stats(stats)
    exact = C.load_set(f"{pid}-exact.txt")
    if tier == "thorough":
        exact |= C.load_set(f"{pid}-exact-thorough.txt")
    new_exact = {}
    cands = []
    for jx, ev, clause, _x in bad:
        if clause == "z3-specified":
            raise C.MachineryError("self-test clause fired in claripy mode: " + json.dumps(ev)[:500])
        s = signature(ev, clause)
        seeded = bool(jobs[jx].get("rand"))
        if regen and not seeded:
            new_exact[s] = (ev, clause)
        if s in exact and not seeded:
            g = group_of(ev, clause)
            R.add_known(g, GROUP_WHAT[g])
            continue
        cands.append((ev, clause, s, seeded))
    # Z3 second opinion: for every candidate violation, and for every entry about to be written by --regen
    to_check = [c[0] for c in cands] + ([v[0] for v in new_exact.values()] if regen else [])
    uniq, seen = [], set()
    for ev in to_check:
        k = json.dumps(ev, sort_keys=True)
        if k not in seen:
            seen.add(k)
            uniq.append(ev)
    if uniq:
        sus = second_opinion(uniq)
        if sus:
            raise C.MachineryError("SPEC-SUSPECT: spec/FP.tla and Z3 disagree on %d event(s), e.g. %s"
                                   % (len(sus), json.dumps(uniq[sus[0]])[:1200]))
    for ev, clause, s, seeded in cands:
        if regen and not seeded:
            continue
        R.add_violation({"property": pid, "clause": clause, "group": group_of(ev, clause), "sig": s, "seeded": seeded,
                         "second_opinion": "Z3 agrees with FP.tla",
                         "readable": {"op": ev["op"], "rm": ev["rm"], "fmt": (ev["eb"], ev["sb"]), "size": ev["size"],
                                      "a": hex(W.unbits(ev["a"])), "b": hex(W.unbits(ev["b"])) if ev["b"] else "",
                                      "inner": [ev["iop"], ev["irm"], hex(W.unbits(ev["ia"])), hex(W.unbits(ev["ib"])), ev["ipos"]] if ev["iop"] else [],
                                      "fold": hex(W.unbits(ev["fold"])), "out": ev["out"],
                                      "solved": hex(W.unbits(ev["solved"])), "sout": ev["sout"]},
                         "event": ev})
    if regen:
        name = f"{pid}-exact.txt" if tier == "quick" else f"{pid}-exact-thorough.txt"
        keep = set(new_exact)
        if tier == "thorough":
            keep -= C.load_set(f"{pid}-exact.txt")
        with open(os.path.join(C.VERIF, "findings", name), "w") as f:
            for s in sorted(keep):
                f.write(s + "\n")
        groups = {}
        for s, (ev, clause) in new_exact.items():
            g = group_of(ev, clause)
            groups[g] = groups.get(g, 0) + 1
        print(f"regenerated findings/{name} with {len(keep)} entries; groups: {json.dumps(groups, sort_keys=True)}")
    ops = {k[2:]: v for k, v in st.items() if k.startswith("n_")}
    R.coverage = {
        "evaluations": st["events"],
        "distinct_nontrivial": st["nontrivial"],
        "rule": "one event per (operator, rounding mode, format, operand bit patterns[, inner operation]) built through "
                "claripy's public constructors: all ordered pairs of the operand pool per format for add/sub/mul/div x 5 "
                "rounding modes and the 6 comparisons; every pool value for sqrt/abs/neg/isNaN/isInf/fp->fp/fp->int "
                "(8/32/64 bits, signed and unsigned)/bit-pattern conversions/fpFP/FPV; boundary integers for int->fp; "
                "sampled depth-2 trees; seeded random operands in the regions listed in eng_fp.py. Each event carries "
                "the folded value and the value obtained through a claripy solver with symbolic pinned operands. "
                "Non-trivial = claripy raised or produced a value different from both operand patterns; distinct by "
                "(op, rm, formats, size, operands, inner op).",
        "samples": st["samples"],
        "outcomes": st["outcomes"],
        "per_operator": ops,
        "solved_events": st.get("solved", 0),
        "solved_fresh_solver": st.get("fresh", 0),
        "tlc_flagged": len(bad),
        "known_instances": sum(v[1] for v in R.known.values()),
        "pool_sizes": {"double": len(W.pool_fp("d", "quick") if tier == "quick" else W.closure_pool("d")),
                       "float": len(W.pool_fp("f", "quick") if tier == "quick" else W.closure_pool("f"))},
        "exhaustive": False,
        "tlc_module": "TraceFP.tla (FP.tla)",
    }
    R.assumptions = ["TLC evaluates spec/FP.tla correctly (FP.tla re-validated against Z3 by `python -m harness.eng_fp "
                     "selftest`)", "operands are drawn from finite pools (edge values, ties, closure sample) plus seeded "
                     "random patterns; the (eb,sb) formats are the two claripy admits",
                     "NaN compared as a class; fp->int of NaN/inf/out-of-range accepts any value but not an exception",
                     "Z3 used as second opinion only"]
    return R.finish()


def replay(pid, path):
    with open(path) as f:
        payload = json.load(f)
    ev = payload["event"] if "event" in payload else payload
    c = W.case_of_event(ev)
    bad, stats = C.pipeline("w_fp", [{"mode": "claripy", "gen": "list", "cases": [c], "solved": 1}], TLA)
    for _, e, clause, _x in bad:
        print(f"REPLAY property={pid}: clause {clause} still violated: fold={hex(W.unbits(e['fold']))} out={e['out']} "
              f"solved={hex(W.unbits(e['solved']))} sout={e['sout']}")
    if not bad:
        print(f"REPLAY property={pid}: event accepted by TraceFP.tla on the current tree")
    return 1 if bad else 0


def selftest(tier="quick"):
    """FP.tla vs Z3: same events, recorded value = Z3's own evaluation of an independently built term"""
    jobs = jobs_for(tier, C.seed(), mode="z3ref")
    for j in jobs:
        j["solved"] = 0
    bad, stats = C.pipeline("w_fp", jobs, TLA)
    st = C.merge_stats(stats)
    print(f"SELFTEST FP.tla vs Z3: events={st['events']} disagreements={len(bad)} skipped={st.get('skipped', 0)} "
          f"z3_specified={st['outcomes'].get('z3:1', 0)} z3_unspecified={st['outcomes'].get('z3:0', 0)}")
    for _, ev, clause, _x in bad[:10]:
        print("  DISAGREE", clause, json.dumps({k: ev[k] for k in ("op", "rm", "eb", "sb", "eb2", "sb2", "size", "iop", "irm", "ipos")}),
              hex(W.unbits(ev["a"])), hex(W.unbits(ev["b"])), "z3=", hex(W.unbits(ev["fold"])), ev["zs"])
    return 2 if bad else 0


if __name__ == "__main__":
    if len(sys.argv) > 1 and sys.argv[1] == "selftest":
        C.main_wrapper(lambda: selftest(sys.argv[2] if len(sys.argv) > 2 else "quick"))
