"""C07 -- annotations survive rewriting as the annotation contract promises.  Decorated operation trees are built
through the public API by harness/w_annot.py; spec/TraceAnnot.tla (evaluated by TLC) decides every event."""
from __future__ import annotations

import json
import os

from . import common as C

VERDICT = {"unelim", "unelim-moved", "reloc", "simp-top", "simp-reloc", "avoid"}
INFO = {"reloc-image"}


def jobs_for(tier, seed):
    """"exact": deterministic, seed-independent, exhaustive streams -> known failures are the exact signature set
    findings/C07-exact.txt; the other streams are seeded samples -> known failures are decided by the predicates"""
    n = C.NPROC
    J = []
    # depth-1 trees at W=2: every decoration variant (exhaustive)
    J += [{"gen": "dec", "W": 2, "depth": 1, "part": k, "nparts": 3, "exact": True} for k in range(3)]
    # shortcut paths and rule-directed shapes (W = 2 and 8)
    J += [{"gen": "short", "seed": 7, "part": k, "nparts": 3, "exact": True} for k in range(3)]
    if tier == "quick":
        J += [{"gen": "dec", "W": 2, "depth": 2, "part": k, "nparts": 8, "sample": 96, "seed": seed} for k in range(8)]
        J += [{"gen": "dec", "W": 2, "depth": 1, "simp": True, "part": 0, "nparts": 1, "sample": 40, "seed": seed},
              {"gen": "short", "simp": True, "seed": 7, "part": 0, "nparts": 1, "sample": 6}]
        J += [{"gen": "solver", "seed": seed, "n": 40}]
    else:
        J += [{"gen": "dec", "W": 2, "depth": 2, "part": k, "nparts": 3 * n, "sample": 4, "seed": seed}
              for k in range(3 * n)]
        J += [{"gen": "dec", "W": 2, "depth": 1, "simp": True, "part": k, "nparts": 4, "sample": 4, "seed": seed}
              for k in range(4)]
        J += [{"gen": "short", "simp": True, "seed": 7, "part": k, "nparts": 4} for k in range(4)]
        J += [{"gen": "solver", "seed": seed * 100 + k, "n": 150} for k in range(4)]
    return J


# ----------------------------------------------------------------------------------------------
# predicates for the known defects of the pinned tree: operator + code path + operand class.  A predicate only NAMES
# a class; it suppresses a failing event only if known_findings.json (or findings/store-proposed-findings.json)
# lists an open finding with that predicate for that clause.
# ----------------------------------------------------------------------------------------------
def _core(t):
    return t[:4]


def _anns(t):
    return {json.dumps(a) for a in t[4]}


def _nodes(t, acc=None):
    acc = [] if acc is None else acc
    acc.append(t)
    for a in t[3]:
        _nodes(a, acc)
    return acc


def _closed(t):
    return all(x[0] in ("BVV", "BoolV") for x in _nodes(t) if not x[3])


UTAGS = {"UA", "SA", "SimplificationAvoidanceAnnotation", "SI", "REG"}
RTAGS = {"RA", "RT", "RI"}


def _img(a):
    return ["RI", a[1]] if a[0] == "RT" else a


def _damage(ev):
    """(arg nodes that carry a non-eliminatable, non-relocatable annotation and do not survive in r,
        relocatable annotations of the args that are not on top of r) -- the same definitions as TraceAnnot.tla,
    used here ONLY to decide whether a failure reported by TLC lies inside the operand class of a known finding"""
    an = [n for a in ev["args"] for n in _nodes(a)]
    rn = _nodes(ev["r"])
    top = {json.dumps(x) for x in ev["r"][4]}

    def survives(n):
        return any(_core(m) == _core(n) and _anns(n) <= _anns(m) for m in rn)

    deep_r = {json.dumps(x) for m in rn for x in m[4]}
    carriers = {}
    for n in an:
        for x in n[4]:
            if x[0] in UTAGS:
                carriers.setdefault(json.dumps(x), []).append(n)
    # carriers of every annotation that is lost, or kept on no sub-expression that carried it
    removed = [n for k, ns in carriers.items() if k not in deep_r or not any(survives(n) for n in ns) for n in ns]
    lost = [x for n in an for x in n[4] if x[0] in RTAGS and json.dumps(x) not in top and json.dumps(_img(x)) not in top]
    return removed, lost


def _within(ev, allowed):
    """all the damage is confined to the sub-expressions `allowed` (the ones the code path discards)"""
    keys = {json.dumps(n) for n in allowed}
    tops = {json.dumps(x) for n in allowed for x in n[4]}
    removed, lost = _damage(ev)
    return all(json.dumps(n) in keys for n in removed) and all(json.dumps(x) in tops for x in lost)


def pred_if_const_cond(ev):
    """If(<variable-free condition>, a, b): bool.py decides the condition with is_true/is_false (the concrete backend
    ignores annotations) and returns the selected branch with the condition's own annotations appended"""
    if ev["k"] != "op" or ev["w"][0] != "If":
        return False
    c, a, b = ev["args"]
    if not _closed(c):
        return False
    r = ev["r"]
    for sel, other in ((a, b), (b, a)):
        if _core(r) == _core(sel) and _anns(r) == _anns(sel) | _anns(c) and _within(ev, _nodes(c) + _nodes(other)):
            return True
    return False


def pred_if_same_branches(ev):
    """If(c, a, a): bool.py returns a ('args[1] is args[2]')"""
    if ev["k"] != "op" or ev["w"][0] != "If":
        return False
    c, a, b = ev["args"]
    return not _closed(c) and a == b and ev["r"] == a and _within(ev, _nodes(c))


def pred_if_nested_cond(ev):
    """If(c, If(c', x, y), b) / If(c, a, If(c', x, y)) with c' = c or Not(c): bool.py re-issues If() on the pieces;
    discarded: the inner If node, its condition, and the inner branch that cannot be reached"""
    if ev["k"] != "op" or ev["w"][0] != "If":
        return False
    c, a, b = ev["args"]
    if _closed(c):
        return False

    def rel(ic):
        if ic == c:
            return "same"
        if (ic[0] == "Not" and ic[3][0] == c and not ic[4]) or (c[0] == "Not" and c[3][0] == ic and not c[4]):
            return "neg"
        return None

    allowed = []
    for inner, pos in ((a, 1), (b, 2)):
        if inner[0] != "If":
            continue
        k = rel(inner[3][0])
        if k is None:
            continue
        # then-position keeps the inner then-branch when the conditions agree, the inner else-branch when negated
        keep = (1 if k == "same" else 2) if pos == 1 else (2 if k == "same" else 1)
        drop = 3 - keep
        allowed += [inner] + _nodes(inner[3][0]) + _nodes(inner[3][drop])
        break           # bool.py takes the first applicable shape
    return bool(allowed) and _within(ev, allowed)


def pred_extract_concat_part(ev):
    """Extract(hi, lo, Concat(..)) selecting exactly one whole part: extract_simplifier returns (part, True), i.e. claims
    to have handled the annotations and by-passes _handle_annotations; discarded: the Concat node and the other parts"""
    if ev["k"] != "op" or ev["w"][0] != "Extract":
        return False
    v = ev["args"][0]
    if v[0] == "ZeroExt":       # rewritten to Concat(BVV(0, n), x) first
        n = v[2][0]
        if ev["r"] == v[3][0]:
            return _within(ev, [v])
        return ev["r"] == ["BVV", "", [0] * n, [], []] and _within(ev, _nodes(v))
    if v[0] != "Concat":
        return False
    for i, p in enumerate(v[3]):
        if ev["r"] == p:
            return _within(ev, [v] + [n for j, q in enumerate(v[3]) if j != i for n in _nodes(q)])
    return False


PREDICATES = {"if-const-cond": pred_if_const_cond, "if-same-branches": pred_if_same_branches,
              "if-nested-cond": pred_if_nested_cond, "extract-concat-part": pred_extract_concat_part}


def load_findings(pid):
    out = list(C.load_findings(pid))
    p = os.path.join(C.VERIF, "findings", "store-proposed-findings.json")
    have = {f.get("id") for f in out}
    if os.path.exists(p):
        with open(p) as f:
            for e in json.load(f).get("findings", []):
                if e.get("property") == pid and e.get("id") not in have and not str(e.get("status", "")).startswith("fixed"):
                    out.append(e)
    return out


def classify(findings, ev, clause):
    for f in findings:
        m = f.get("match", {})
        if clause not in m.get("clauses", [clause]):
            continue
        pr = PREDICATES.get(m.get("pred"))
        if pr and pr(ev):
            return f
    return None


def event_sig(ev, clause):
    if ev["k"] == "op":
        return C.sig(["op", ev["w"], clause])
    if ev["k"] == "simp":
        return C.sig(["simp", ev["e"], clause])
    return C.sig(["solver", ev["frontend"], ev["cs"], clause])


def root_cause(ev, clause):
    """coarse class of a failing event, for the KNOWN-FINDING line (the exact set decides, this only names it)"""
    if ev["k"] == "op":
        return f"{ev['w'][0]}:{clause}"
    if ev["k"] == "simp":
        return "simplify:" + clause
    return ev["frontend"] + ":" + clause


def selftest(bad, st):
    """vacuity guard: TLC must accept the genuine self-test events and reject each copy in which one recorded field was
    corrupted, with the expected clause (only flagged events come back from the pipeline)"""
    n = 0
    flagged = {}
    for ev, c in bad:
        if c in VERDICT:
            flagged.setdefault(ev["ix"], (ev, set()))[1].add(c)
    for ix, (ev, cs) in flagged.items():
        if ev["expect"] == "":
            raise C.MachineryError(f"validator self-test: genuine event rejected {cs}: {json.dumps(ev)[:600]}")
        if ev["expect"] not in cs:
            raise C.MachineryError(f"validator self-test: corrupted event rejected with {cs}, expected {ev['expect']}")
        n += 1
    if n != st["events"] // 2:
        raise C.MachineryError(f"validator self-test: {n} of {st['events'] // 2} corrupted events were rejected")
    return n


def check(pid, tier, regen=False):
    seed = C.seed()
    R = C.Result(pid, "exploration", tier)
    jobs = jobs_for(tier, seed) + [{"gen": "selftest"}]
    bad, stats = C.pipeline("w_annot", jobs, "TraceAnnot.tla", ttimeout=1500)
    n_selftest = selftest([(ev, c) for j, ev, c, _ in bad if j == len(jobs) - 1], stats[-1])
    bad = [b for b in bad if b[0] != len(jobs) - 1]
    stats = stats[:-1]
    st = C.merge_stats(stats)
    exact = C.load_set(f"{pid}-exact.txt")
    findings = load_findings(pid)
    new_exact = set()
    info = {}
    n_fail = n_exact = n_pred = 0
    seen = set()
    for jix, ev, clause, _x in bad:
        if clause in INFO:
            info[clause] = info.get(clause, 0) + 1
            continue
        if clause not in VERDICT:
            raise C.MachineryError("unknown clause " + clause)
        s = event_sig(ev, clause)
        if s in seen:
            continue
        seen.add(s)
        n_fail += 1
        f = classify(findings, ev, clause)
        if jobs[jix].get("exact"):
            new_exact.add(s)
            if s in exact:
                n_exact += 1
                R.add_known(f["id"] if f else f"{pid}-exact", (f["what"] if f else "listed failing input")[:260] +
                            f" [findings/{pid}-exact.txt]")
                continue
        elif f:
            n_pred += 1
            R.add_known(f["id"], f["what"][:260] + " [predicate " + f["match"]["pred"] + "]")
            continue
        payload = {"property": pid, "clause": clause, "sig": s, "class_if_any": f["id"] if f else None}
        payload.update({k: v for k, v in ev.items() if k not in ("gi",)})
        R.add_violation(payload)
    if regen:
        with open(os.path.join(C.VERIF, "findings", f"{pid}-exact.txt"), "w") as fo:
            for s in sorted(new_exact):
                fo.write(s + "\n")
        print(f"regenerated findings/{pid}-exact.txt with {len(new_exact)} entries")
        R.violations = [v for v in R.violations if v["sig"] not in new_exact]
    oc = st["outcomes"]
    for kind in ("op:ok", "simp:ok", "solver:ok"):
        if not oc.get(kind):
            raise C.MachineryError(f"no {kind} events were produced")
    R.coverage = {
        "evaluations": st["events"],
        "distinct_nontrivial": st["nontrivial"],
        "rule": "one event per decorated written tree (depth<=2 trees of gen_expr at W=2 restricted to operators with a "
                "construction-time simplifier, If and concrete folds; shortcut and rule-directed shapes at W=2,8; every "
                "sub-term class / occurrence / all sub-terms decorated with each non-empty subset of {EA, UA, RA|RT}, "
                "one annotation id per distinct decorated node), plus explicit simplify() and Solver.simplify() events; "
                "non-trivial = claripy returned something other than op(args) (op), changed the expression (simplify), "
                "or the solver held an annotated constraint; distinct by written decorated tree",
        "samples": st["samples"],
        "outcomes": oc,
        "base_terms": st.get("base_terms", 0),
        "constructions_rewritten": st.get("rewritten", 0),
        "failing_inputs": n_fail,
        "failing_known_exact": n_exact,
        "failing_known_by_predicate": n_pred,
        "informational_clauses": info,
        "validator_selftest_corrupted_events_rejected": n_selftest,
        "exhaustive": False,
        "exhaustive_scopes": "W=2 depth 1: all decorated trees; shortcut/rule list at W=2,8: all decorated trees; "
                             "W=2 depth 2: seeded 1/%d sample of the base trees, all decorations" % (96 if tier == "quick" else 4),
        "tlc_module": "TraceAnnot.tla",
    }
    R.assumptions = ["TLC evaluates spec/TraceAnnot.tla correctly",
                     "annotation identity is by content (test annotation classes compare by (class, id))",
                     "explicit remove_annotation(s)/clear_annotations are outside the clause",
                     "'never removed' is read on sub-expressions (tests/test_annotations.py expects const2.depth == 3), "
                     "an annotation that survives on another node is reported separately (unelim-moved)"]
    return R.finish()


def replay(pid, path):
    """re-execute the written decorated tree of a violation file on the current tree and re-validate it with TLC"""
    with open(path) as f:
        v = json.load(f)
    if v.get("k") != "op":
        print(json.dumps(v, indent=1)[:3000])
        return 1
    bad, _ = C.pipeline("w_annot", [{"gen": "list", "terms": [v["w"]]}], "TraceAnnot.tla")
    bad = sorted({c for _, _, c, _ in bad if c in VERDICT})
    print("replay:", ("reproduced " + json.dumps(bad)) if bad else "not reproduced")
    return 1 if bad else 0
