"""Truth-check engine: C10 — claripy.is_true / is_false, Bool.is_true() / is_false() and the memoising
Backend.is_true / is_false never claim a truth value that does not hold.  Workers (harness/w_truth.py) drive HISTORIES
(queries interleaved with related constructions, re-queries and downsize()) in one interpreter each; every answer is
judged by spec/UtilSem.tla (UTruths) through spec/TraceExpr.tla."""
from __future__ import annotations

import json
import os

from . import common as C
from . import term as TM

FIXED = 7


def streams_for(tier, seed):
    q = tier == "quick"
    S = []
    # all Boolean terms of the exhaustive C01 stream (depth 1: W = 1, 2, 3; depth 2: seeded sample)
    for W in (1, 2, 3):
        S.append({"gen": "truth", "src": "exh", "W": W, "depth": 1, "det": True, "stride": 1})
    for (W, k) in ((1, 16 if q else 1), (2, 100 if q else 2), (3, 1000 if q else 12)):
        S.append({"gen": "truth", "src": "exh", "W": W, "depth": 2, "sample": k, "sample_seed": seed})
    S.append({"gen": "truth", "src": "booltrees", "n": 80 if q else 4000, "depth": 4})
    # wider widths (8..64): a True answer is checked on 64 sampled assignments only (refutation, no validity claim)
    S.append({"gen": "truth", "src": "rules", "per": 1 if q else 4, "widths": [8, 16, 32, 64], "whole": True, "wide": True})
    S.append({"gen": "truth", "src": "rand", "n": 50 if q else 3000, "depth": 4, "widths": [8, 9, 16, 31, 32, 33, 64],
              "wide": True})
    return S


def jobs_for(tier, seed):
    n = C.NPROC
    jobs = [{"multi": [], "rlimit_gb": 6, "shard": 8000} for _ in range(n)]
    for si, st in enumerate(streams_for(tier, seed)):
        for k in range(n):
            sub = dict(st)
            sub["seed"] = FIXED if st.get("det") else (seed * 1000 + si * 50 + (0 if st.get("whole") else k))
            sub["part"], sub["nparts"] = k, n
            if "n" in st and not st.get("whole"):
                sub["part"], sub["nparts"] = 0, 1
            jobs[(k + si) % n]["multi"].append(sub)
    return jobs


def z3_opinion(ev, clause):
    """independent check of the validity / unsatisfiability TLC denied"""
    import z3
    try:
        e = TM.to_z3(ev["w"])
        s = z3.Solver()
        s.add(z3.Not(e) if clause == "is_true-overclaims" else e)
        r = s.check()
        if r == z3.sat:
            return "confirmed"
        if r == z3.unsat:
            return "spec-suspect"
    except Exception:  # noqa: BLE001
        pass
    return "n/a"


def claims_of(ev, clause):
    return [[q["f"], q["via"], "cached" if q["cached"] else "computed"] for q in ev["qs"]
            if q["out"] == "ok" and q["ans"] and q["f"] + "-overclaims" == clause]


def truth_sig(ev, clause):
    return C.sig(["truths", ev["w"], clause, sorted(c[:2] for c in claims_of(ev, clause))])


def replay(pid, path):
    """re-execute the whole recorded history (the worker job: same seeds, fresh interpreter, current tree) and let TLC
    judge every answer again; exit 1 when the same term is over-claimed by the same checks again"""
    with open(path) as fh:
        p = json.load(fh)
    bad, _stats = C.pipeline("w_truth", [p["job"]], "TraceExpr.tla")
    hits = [(ev, cl) for _, ev, cl, _x in bad if cl == p["clause"] and truth_sig(ev, cl) == p["sig"]]
    if hits:
        ev, cl = hits[0]
        print(f"VIOLATION property={pid} replay={path}")
        print("  reproduced at history index %d (phase %s): %s on %s by %s" % (ev["gi"], ev["phase"], cl, json.dumps(ev["w"]),
                                                                                claims_of(ev, cl)))
        return 1
    print(f"OK property={pid} replay={path}: the recorded claim is not made again ({len(bad)} other rejected event(s))")
    return 0


def check(pid, tier, regen=False):
    seed = C.seed()
    R = C.Result(pid, "exploration", tier)
    if regen:
        jobs = []
        for t in ("quick", "thorough"):
            for j in jobs_for(t, seed):
                j = dict(j, multi=[s_ for s_ in j["multi"] if s_.get("det")])
                if j["multi"]:
                    jobs.append(j)
    else:
        jobs = jobs_for(tier, seed)
    bad, stats = C.pipeline("w_truth", jobs, "TraceExpr.tla")
    st = C.merge_stats(stats)
    if st["events"] == 0 or st.get("answers", 0) == 0:
        raise C.MachineryError("no truth queries were recorded")
    exact = C.load_set(f"{pid}-exact.txt")
    new_exact = set()
    n_checked = n_known = n_so = 0
    for jx, ev, clause, _x in bad:
        n_checked += 1
        claims = claims_of(ev, clause)
        errs = [[q["f"], q["via"], q["out"]] for q in ev["qs"] if q["out"] != "ok"]
        s = truth_sig(ev, clause)
        pl = {"property": pid, "clause": clause, "term": ev["w"], "phase": ev["phase"], "claims": claims, "errors": errs,
              "history_index": ev["gi"], "assignments": "sampled" if ev["sampled"] else "exhaustive", "sig": s,
              "deterministic_stream": ev["det"], "job": jobs[jx]}
        if clause.endswith("overclaims"):
            n_so += 1
            so = z3_opinion(ev, clause) if n_so <= 60 else "not-run (cap 60)"
            pl["second_opinion"] = so
            if so == "spec-suspect":
                raise C.MachineryError("spec (TLC) rejects a truth claim that Z3 proves: " + json.dumps(pl)[:2000])
        if ev["det"]:
            new_exact.add(s)
            if s in exact:
                n_known += 1
                R.add_known(f"{pid}-exact", "listed failing input (findings/%s-exact.txt)" % pid)
                continue
        R.add_violation(pl)
    if regen:
        with open(os.path.join(C.VERIF, "findings", f"{pid}-exact.txt"), "w") as f:
            for s in sorted(new_exact):
                f.write(s + "\n")
        print(f"regenerated findings/{pid}-exact.txt with {len(new_exact)} entries")
        R.violations = [v for v in R.violations if not v.get("deterministic_stream")]
    R.coverage = {
        "evaluations": st["answers"],
        "distinct_nontrivial": st["nontrivial"],
        "rule": "evaluations = individual answers of claripy.is_true/is_false, Bool.is_true()/is_false() and "
                "backends.z3.is_true/is_false, asked inside histories (one interpreter per worker): every Boolean term of "
                "the C01 streams is queried, then structurally related terms are built and queried (one constant changed, "
                "variables renamed, annotated copy, negation), the term is re-queried (answers re-served from the "
                "per-backend caches), and every 20 terms all backends are downsized and the last 6 terms re-queried; "
                "non-trivial = a symbolic (not folded to a literal) term on which at least one check answered True, "
                "distinct by term",
        "samples": st["samples"],
        "history_events": st["events"],
        "phases": st["outcomes"],
        "answers_true": st.get("answers_true", 0),
        "answers_reserved_from_cache": st.get("answers_reserved_from_cache", 0),
        "related_terms_built": st.get("related_terms_built", 0),
        "downsize_actions": st.get("downsizes", 0),
        "queries_after_downsize": st.get("queries_after_downsize", 0),
        "clauses_failed_and_examined": n_checked,
        "known_instances": n_known,
        "exhaustive": False,
        "exhaustive_scopes": "all Boolean depth-1 terms at W <= 3"
                             + "; every assignment for terms with <= 10 variable bits",
        "tlc_module": "TraceExpr.tla (UtilSem.tla!UTruths, Term.tla, BVBits.tla)",
    }
    R.assumptions = ["TLC evaluates spec/Term.tla correctly (Z3 agrees on every rejected claim, else exit 2)",
                     "widths 8..64: a True answer is checked on 64 sampled assignments only - it can be refuted, "
                     "validity is not claimed there",
                     "solver-relative is_true/is_false (with constraints) are checked by the solver engine (C11-C13)",
                     "a False answer carries no information and is always accepted"]
    from . import eng_solver
    R.coverage["solver_level_calls"] = eng_solver.truth_stream(R, pid, tier, seed)
    return R.finish()
