"""Recorder of public solver calls made by ANY program (the repository's own tests, wide-width drivers): no source
hooks -- the public frontend classes of claripy.solvers are wrapped at import time, one event per outermost public call
(nested calls a frontend makes on itself or on wrapped sub-frontends are not events).

Events carry no term semantics, only the identity of expressions (claripy's structural hash), the returned values and
the call's shape; they are validated by spec/Knowledge.tla (what a caller can know about a solver from its own answers
must stay consistent, at any width and for any operator).

usage (pytest):   PYTHONPATH=/verif:<repo> VERIF_REC_FILE=out.ndjson python -m pytest -p harness.recorder tests/...
usage (library):  from harness import recorder; recorder.install(path); ...; recorder.flush()
"""
from __future__ import annotations

import json
import os
import threading

_tls = threading.local()
_state = {"out": None, "events": [], "tid": "session", "next_id": 0, "lock": threading.Lock(), "traces": 0}

CALLS = ("add", "satisfiable", "eval", "batch_eval", "min", "max", "solution", "branch", "merge", "combine", "split",
         "simplify", "downsize", "blank_copy", "add_replacement", "remove_replacements", "clear_replacements", "unsat_core",
         "is_true", "is_false")


def _bits(v, w):
    return [(v >> i) & 1 for i in range(w)]


def _sid(obj, new):
    i = getattr(obj, "_verif_sid", None)
    if i is None:
        with _state["lock"]:
            i = _state["next_id"]
            _state["next_id"] += 1
        try:
            object.__setattr__(obj, "_verif_sid", i)
        except Exception:  # noqa: BLE001
            return -1
        new.append(i)
    return i


def _ekey(e):
    import claripy
    if isinstance(e, claripy.ast.Base):
        return str(e.hash()), (e.length if isinstance(e, claripy.ast.BV) else 0)
    return "py:" + repr(e)[:60], 0


def _val(v, w):
    """value as [kind, text, bits]"""
    import claripy
    if isinstance(v, claripy.ast.Base):
        if v.op == "BVV":
            return _val(v.args[0], v.args[1])
        if v.op == "BoolV":
            return ["bool", str(bool(v.args[0])), []]
        return ["ast", str(v.hash()), []]
    if isinstance(v, bool):
        return ["bool", str(v), []]
    if isinstance(v, int) and w:
        v &= (1 << w) - 1
        return ["bv", str(v), _bits(v, w)]
    return ["py", repr(v)[:80], []]


def _wrap(cls, name):
    orig = getattr(cls, name)

    def wrapper(self, *a, **k):
        depth = getattr(_tls, "depth", 0)
        if depth:
            return orig(self, *a, **k)
        _tls.depth = 1
        new = []
        ev = {"call": name, "cls": type(self).__name__, "s": -1, "new": new, "e": "", "w": 0, "n": 0, "vals": [], "v": ["none", "", []],
              "extra": False, "signed": False, "exc": "", "others": []}
        try:
            ev["s"] = _sid(self, new)
            exact = _describe(ev, name, a, k)
            # answers that may be over-approximations are not judged (exact=False, or approximate_first without exact=True)
            ev["approx"] = exact is False or (exact is None and bool(getattr(self, "_approximate_first", False)))
            if name in ("eval", "min", "max", "solution") and hasattr(self, "_replacement"):
                # ReplacementFrontend: the expression becomes variable-free under the installed replacements, so the
                # answer comes from the concrete shortcut (known finding C13-replacement-concrete-on-unsat keys on this)
                try:
                    er = self._replacement(_arg(a, k, 0, "e"))
                    ev["shortcut"] = bool(getattr(er, "symbolic", True) is False)
                except Exception:  # noqa: BLE001
                    pass
            r = orig(self, *a, **k)
            _result(ev, name, r, new)
            return r
        except BaseException as ex:  # noqa: BLE001
            ev["exc"] = type(ex).__name__
            raise
        finally:
            _tls.depth = 0
            ev["new"] = list(new)
            _emit(ev)
    wrapper.__name__ = name
    wrapper._verif_wrapped = True
    setattr(cls, name, wrapper)


def _arg(a, k, pos, kw, default=None):
    if kw in k:
        return k[kw]
    return a[pos] if len(a) > pos else default


def _describe(ev, name, a, k):
    ec = _arg(a, k, {"satisfiable": 0, "eval": 2, "batch_eval": 2, "min": 1, "max": 1, "solution": 2, "is_true": 1,
                     "is_false": 1, "unsat_core": 0}.get(name, 99), "extra_constraints", ())
    ev["extra"] = bool(ec) and len(tuple(ec)) > 0
    if name in ("eval", "min", "max", "solution", "is_true", "is_false"):
        ev["e"], ev["w"] = _ekey(_arg(a, k, 0, "e"))
    if name == "eval":
        ev["n"] = int(_arg(a, k, 1, "n", 0) or 0)
    if name == "batch_eval":
        es = list(_arg(a, k, 0, "exprs", ()))
        ev["e"] = "|".join(_ekey(x)[0] for x in es)
        ev["n"] = int(_arg(a, k, 1, "n", 0) or 0)
    if name in ("min", "max"):
        ev["signed"] = bool(_arg(a, k, 2, "signed", False))
    if name == "solution":
        ev["v"] = _val(_arg(a, k, 1, "v"), ev["w"])
    return k.get("exact")


def _result(ev, name, r, new):
    import claripy
    w = ev["w"]
    if name == "eval":
        ev["vals"] = [_val(v, w) for v in r]
    elif name == "batch_eval":
        ev["vals"] = [["py", repr(tuple(t))[:120], []] for t in r]
    elif name in ("min", "max"):
        ev["vals"] = [_val(r, w)]
    elif name in ("satisfiable", "solution", "is_true", "is_false"):
        ev["vals"] = [["bool", str(bool(r)), []]]
    elif name in ("branch", "blank_copy", "combine"):
        if isinstance(r, claripy.frontend.Frontend) or hasattr(r, "satisfiable"):
            ev["res"] = [_sid(r, new)]
    elif name == "merge":
        if isinstance(r, tuple) and len(r) == 2 and hasattr(r[1], "satisfiable"):
            ev["res"] = [_sid(r[1], new)]
    elif name == "split":
        ev["res"] = [_sid(x, new) for x in r]


def _emit(ev):
    ev.setdefault("res", [])
    ev.setdefault("approx", False)
    ev.setdefault("shortcut", False)
    with _state["lock"]:
        _state["events"].append(ev)


def flush(tid=None):
    """write the events recorded so far as one trace line"""
    with _state["lock"]:
        evs, _state["events"] = _state["events"], []
    if not evs or _state["out"] is None:
        return
    ids = [e["s"] for e in evs] + [i for e in evs for i in e["new"] + e["res"]]
    line = {"tid": tid or _state["tid"], "maxid": max([0] + ids), "ev": evs}
    with open(_state["out"], "a") as f:
        f.write(json.dumps(line, separators=(",", ":")) + "\n")
    _state["traces"] += 1


def install(path):
    import claripy
    from claripy import solvers
    _state["out"] = path
    for nm in dir(solvers):
        cls = getattr(solvers, nm)
        if not isinstance(cls, type) or not nm.startswith("Solver") or nm == "SolverCompositeChild":
            continue
        for m in CALLS:
            f = getattr(cls, m, None)
            if f is not None and callable(f) and not getattr(f, "_verif_wrapped", False):
                _wrap(cls, m)
    return claripy


# ---- pytest plugin: one trace per test function ----

def pytest_configure(config):
    path = os.environ.get("VERIF_REC_FILE")
    if path:
        install(path)


def pytest_runtest_setup(item):
    if _state["out"]:
        flush("between-tests")
        _state["tid"] = item.nodeid


def pytest_runtest_teardown(item, nextitem):
    if _state["out"]:
        flush(item.nodeid)
