"""Worker for C02: apply floating-point operators to concrete operand bit patterns and record what claripy produces.

usage: python -m harness.w_fp job.json outprefix          (fresh interpreter, PYTHONPATH=/verif:$VERIF_REPO)

job = {"mode": "claripy" | "z3ref",      z3ref: self-test of spec/FP.tla, the recorded value comes from an independent
                                         z3 API term (claripy is not imported at all)
       "gen": "pool" | "rand" | "list",  pool: deterministic pool-exhaustive cases of one group; rand: seeded extras
       "fmt": "d" | "f", "group": "arith"|"cmp"|"unary"|"toint"|"fptofp"|"inttofp"|"bits"|"cancel"|"mixed"|"sortobj"|"d2", "ops": [...],
       "pool": "small" | "quick" | "full" | "closure", "part": k, "nparts": n, "solved": N (every N-th case, 0 never), "fresh_every": N, "seed": s, "n": count,
       "cases": [...] (gen=list)}

Event (one ndjson line, validated by spec/TraceFP.tla; every field always present, bit patterns LSB-first lists):
  op rm eb sb eb2 sb2 size a b  iop irm ia ib ipos  how  fold out  sv solved sout sm  zs  so mix
  (so: which FSort object built the constants; mix: operand kept as a constant on the solved side)
Python records; the verdict is TLC's.
"""
from __future__ import annotations

import json
import random
import struct
import sys

from .wlib import ShardWriter

RMS = ["RNE", "RNA", "RTZ", "RTP", "RTN"]
FMT = {"d": (11, 53), "f": (8, 24)}
ARITH = ["add", "sub", "mul", "div"]
CMP = ["eq", "neq", "lt", "leq", "gt", "geq"]
INNER_OPS = ARITH + ["sqrt", "abs", "neg"]
SIZES = [8, 32, 64]


def bits(v, w):
    return [(v >> i) & 1 for i in range(w)]


def unbits(b):
    return sum(x << i for i, x in enumerate(b))


def d2b(x):
    return struct.unpack("<Q", struct.pack("<d", x))[0]


def f2b(x):
    return struct.unpack("<I", struct.pack("<f", x))[0]


def b2float(p, fmt):
    if fmt == "d":
        return struct.unpack("<d", struct.pack("<Q", p))[0]
    return struct.unpack("<f", struct.pack("<I", p))[0]


def float2b(v, fmt):
    """bit pattern of a Python float in the format; None if it is not exactly representable (float format)"""
    if fmt == "d":
        return d2b(v)
    if v != v:
        return 0x7FC00000
    try:
        p = struct.pack("<f", v)
    except OverflowError:
        return None
    if struct.unpack("<f", p)[0] != v:
        return None
    return struct.unpack("<I", p)[0]


# ----------------------------------------------------------------------------------------------
# operand pools (bit patterns)
# ----------------------------------------------------------------------------------------------

def _dedup(xs):
    seen, out = set(), []
    for x in xs:
        if x not in seen:
            seen.add(x)
            out.append(x)
    return out


def pool_fp(fmt, level="quick"):
    if fmt == "d":
        spec = [0x0, 0x8000000000000000, 0x1, 0x8000000000000001, 0x000FFFFFFFFFFFFF, 0x0010000000000000,
                0x7FEFFFFFFFFFFFFF, 0xFFEFFFFFFFFFFFFF, 0x7FF0000000000000, 0xFFF0000000000000, 0x7FF8000000000000]
        vals = [1.0, -1.0, 1.5, 0.5, -0.5, 2.5, -2.5, 3.5, 0.1, 1.2, -1.2, 1 / 3, 3.0, 16777217.0, 2.0 ** 53,
                2.0 ** 53 + 2, 2.0 ** 63, -2.0 ** 63, 2.0 ** 63 - 1024, 2.0 ** 64, 2147483647.5, -2147483648.5, 127.5,
                -128.5, 255.5, 3.4028234663852886e38, 2.0 ** -149, 2.0 ** -150, 1e308, 1e-310]
        pats = [0x3FF0000000000001, 0x3FEFFFFFFFFFFFFF, 0x47EFFFFFF0000000, 0x3FF0000010000000]
        quick = spec + [d2b(v) for v in vals] + pats
        if level == "quick":
            return _dedup(quick)
        more = [d2b(v) for v in (-1.5, -3.5, 4.5, -0.1, 7.0, 10.0, 1e16, -1e16, 2.0 ** 52 + 0.5, 2.0 ** 31, -2.0 ** 31,
                                   2.0 ** 32 - 0.5, 255.0, 256.0, -129.0, 0.49999999999999994, -0.75, 1e-320,
                                   2.2250738585072014e-308 * 1.5, 1.7976931348623157e308 / 2, 5e-324 * 3,
                                   2.0 ** 63 + 2048, 2.0 ** 64 - 2048, 9007199254740993.0, 0.3, 1e22, 1e23, 4 / 3)]
        more += [0x3FF0000020000000, 0x3FF0000030000000, 0x36A0000000000000, 0x36A0000000000001, 0x369FFFFFFFFFFFFF,
                 0x380FFFFFFFFFFFFF, 0x3810000000000000, 0x47EFFFFFE0000000, 0x47EFFFFFEFFFFFFF, 0xC7EFFFFFF0000000,
                 0x7FF0000000000001, 0xFFF8000000000000]
        rng = random.Random(20260921)
        more += [rng.getrandbits(64) for _ in range(12)]
        return _dedup(quick + more)
    spec = [0x0, 0x80000000, 0x1, 0x80000001, 0x007FFFFF, 0x00800000, 0x7F7FFFFF, 0xFF7FFFFF, 0x7F800000, 0xFF800000,
            0x7FC00000]
    vals = [1.0, -1.0, 1.5, 0.5, -0.5, 2.5, -2.5, 3.5, 0.1, 1.2, -1.2, 1 / 3, 3.0, 16777216.0, 16777215.0, 2.0 ** 31,
            -2.0 ** 31, 2.0 ** 63, -2.0 ** 63, 2.0 ** 64, 127.5, -128.5, 255.5, 1e38, 8388607.5, 1e-40]
    pats = [0x3F800001, 0x3F7FFFFF, 0x5EFFFFFF, 0x00C00000, 0x4EFFFFFF, 0x7F000000]
    quick = spec + [f2b(v) for v in vals] + pats
    if level == "quick":
        return _dedup(quick)
    more = [f2b(v) for v in (-1.5, -3.5, 4.5, -0.1, 7.0, 10.0, 1e16, -1e16, 4194303.5, 255.0, 256.0, -129.0, -0.75,
                               1e-45 * 3, 2.0 ** 32, 2.0 ** 24 + 2, 0.3, 1e22, 4 / 3, 65504.0, 65520.0, 6e-8, 2.0 ** -24,
                               2.0 ** -25, 3.0e38, -3.0e38, 2.0 ** 62, 2.0 ** 23 + 0.5)]
    more += [0x7F800001, 0xFFC00000, 0x00000003, 0x807FFFFF, 0x3F800002, 0x3F800003, 0x4B7FFFFF, 0xCB7FFFFF]
    rng = random.Random(20260922)
    more += [rng.getrandbits(32) for _ in range(12)]
    return _dedup(quick + more)


def small_pool(fmt, n=30):
    """sub-pool for the expensive operators of the quick tier: the 11 special patterns + the first values"""
    return pool_fp(fmt, "quick")[:n]


def closure_pool(fmt, n_extra=16):
    """full pool + a deterministic sample of the results of the quick pool's own operations (one closure level).
    The results are computed with Python floats: they are only *operands* for further events."""
    base = pool_fp(fmt, "full")
    q = pool_fp(fmt, "quick")
    seen = set(base)
    new = []
    for x in q:
        for y in q:
            fx, fy = b2float(x, fmt), b2float(y, fmt)
            for f in (lambda u, v: u + v, lambda u, v: u - v, lambda u, v: u * v, lambda u, v: u / v if v else None):
                try:
                    r = f(fx, fy)
                except OverflowError:
                    r = None
                if r is None or r != r:
                    continue
                if fmt == "f":
                    r = struct.unpack("f", struct.pack("f", r))[0]
                p = d2b(r) if fmt == "d" else f2b(r)
                if p not in seen:
                    seen.add(p)
                    new.append(p)
    new.sort()
    step = max(1, len(new) // n_extra)
    return base + new[::step][:n_extra]


def pool_int(size, level="quick"):
    m = (1 << size) - 1
    xs = [0, 1, 2, 3, (1 << (size - 1)) - 1, 1 << (size - 1), (1 << (size - 1)) + 1, m, m - 1, 5, 127, 128, 255,
          (1 << 24), (1 << 24) + 1, (1 << 24) + 3, (1 << 25) + 2, (1 << 25) + 6, (1 << 31) - 1, 0xFFFFFF7F, 0xFFFFFF80,
          (1 << 53), (1 << 53) + 1, (1 << 53) + 3, (1 << 54) + 2, (1 << 60) + (1 << 36) + 1, (1 << 60) + (1 << 36),
          (1 << 63) + (1 << 10), (1 << 63) + (1 << 10) + 1, (1 << 64) - (1 << 10), (1 << 64) - (1 << 39),
          (1 << 64) - (1 << 39) - 1, (1 << 64) - ((1 << 60) + (1 << 36) + 1), 0x7FFFFFFFFFFFFC00, 0x7FFFFFFFFFFFFDFF,
          0x7FFFFF8000000000, 0x7FFFFFC000000000, 0x0020000000000001]
    if level != "quick":
        rng = random.Random(size * 7919)
        xs += [rng.getrandbits(size) for _ in range(12)]
        xs += [(1 << k) + 1 for k in range(22, size - 1, 5)]
        xs += [m - ((1 << k) + 1) for k in range(22, size - 1, 7)]
    return _dedup([x & m for x in xs])


# ----------------------------------------------------------------------------------------------
# case generation.  A case is the event skeleton with operands as integers.
# ----------------------------------------------------------------------------------------------

def case(op, rm, fmt, a, b=None, fmt2=None, size=0, how="fn", inner=None, wa=None, so="const", mix=""):
    eb, sb = FMT[fmt]
    eb2, sb2 = FMT[fmt2 or fmt]
    c = {"op": op, "rm": rm, "fmt": fmt, "fmt2": fmt2 or fmt, "eb": eb, "sb": sb, "eb2": eb2, "sb2": sb2, "size": size,
         "a": a, "wa": wa if wa is not None else eb + sb, "b": b, "how": how,
         "iop": "", "irm": "RNE", "ia": 0, "ib": None, "ipos": 0, "so": "const", "mix": ""}
    if inner:
        c.update(inner)
    c["so"], c["mix"] = so, mix
    return c


def gen_pool(job):
    fmt, grp, level = job["fmt"], job["group"], job.get("pool", "quick")
    ops = job.get("ops")
    other = "f" if fmt == "d" else "d"
    P = closure_pool(fmt) if level == "closure" else small_pool(fmt) if level == "small" else pool_fp(fmt, level)
    if level == "small":
        level = "quick"
    ilevel = "quick" if level == "quick" else "full"
    if grp == "arith":
        for op in ops or ARITH:
            for rm in RMS:
                for i, x in enumerate(P):
                    for j, y in enumerate(P):
                        yield case(op, rm, fmt, x, y, how="meth" if rm == "RNE" and (i + j) % 3 == 0 else "fn")
    elif grp == "cmp":
        for op in ops or CMP:
            for i, x in enumerate(P):
                for j, y in enumerate(P):
                    yield case(op, "RNE", fmt, x, y, how="meth" if (i + j) % 2 == 0 else "fn")
    elif grp == "unary":
        for rm in RMS:
            for x in P:
                yield case("sqrt", rm, fmt, x)
        for op in ("abs", "neg", "isnan", "isinf"):
            for i, x in enumerate(P):
                yield case(op, "RNE", fmt, x, how="meth" if i % 2 else "fn")
    elif grp == "toint":
        for op in ops or ("tosbv", "toubv"):
            for size in SIZES:
                for rm in RMS:
                    for i, x in enumerate(P):
                        yield case(op, rm, fmt, x, size=size, how="meth" if i % 2 else "fn")
    elif grp == "fptofp":
        for fmt2 in (other, fmt):
            for rm in RMS:
                for i, x in enumerate(P):
                    yield case("fptofp", rm, fmt, x, fmt2=fmt2, how="meth" if i % 2 else "fn")
    elif grp == "inttofp":          # fmt is the *target* format
        for op in ops or ("sbvtofp", "ubvtofp"):
            for size in SIZES:
                for rm in RMS:
                    for i, x in enumerate(pool_int(size, ilevel)):
                        yield case(op, rm, fmt, x, size=size, wa=size, how="meth" if i % 2 else "fn")
    elif grp == "bits":
        extra = [0x7FF0000000000001, 0xFFF8000000000000, 0x7FFFFFFFFFFFFFFF] if fmt == "d" else [0x7F800001, 0xFFC00000, 0x7FFFFFFF]
        for i, x in enumerate(_dedup(P + extra)):
            yield case("bvtofp", "RNE", fmt, x, how="meth" if i % 2 else "fn")
            yield case("toieee", "RNE", fmt, x, how="meth" if i % 2 else "fn")
            yield case("fpfp", "RNE", fmt, x)
        # a numeral written as a Python double, constructed at this format (claripy.FPV(value, sort))
        for x in pool_fp("d", level if level != "closure" else "full"):
            yield case("fpv", "RNE", "d", x, fmt2=fmt)
    elif grp == "cancel":
        # compositions of the bit-pattern conversions, i.e. the shapes of the fpToIEEEBV/fpToFP cancellation rewrites
        # (simplifications.py fptobv_simplifier / fptofp_simplifier).  NaN patterns are left out: fpToIEEEBV(NaN) is
        # only specified up to the NaN class.  On the solved side the operand is symbolic, so the rewrites fire.
        w = sum(FMT[fmt])
        Q = [x for x in P if not is_nan_pattern(x, fmt)]
        for i, x in enumerate(Q):
            how = "meth" if i % 2 else "fn"
            # numeric int->fp of the float's own bit pattern: fpToFP(rm, fpToIEEEBV(x), sort) -- NOT the identity
            for op in ("sbvtofp", "ubvtofp"):
                for fmt2 in (fmt, other):
                    for rm in RMS:
                        yield case(op, rm, fmt, 0, fmt2=fmt2, size=w, wa=w, how=how,
                                   inner={"iop": "toieee", "irm": "RNE", "ia": x, "ib": None, "ipos": 1})
            # bit-cast round trips: fpToFP(fpToIEEEBV(x), sort) and fpToIEEEBV(fpToFP(bv, sort)) -- the identity
            yield case("bvtofp", "RNE", fmt, 0, how=how, inner={"iop": "toieee", "irm": "RNE", "ia": x, "ib": None, "ipos": 1})
            yield case("toieee", "RNE", fmt, 0, how=how, inner={"iop": "bvtofp", "irm": "RNE", "ia": x, "ib": None, "ipos": 1})
    elif grp == "mixed":
        # one operand symbolic (pinned), the other a CONSTANT FPV inside the symbolic expression: the constant is not
        # folded and reaches Z3 through claripy's translation of FPV constants (signed zeros, subnormals, inf, NaN ..).
        # Index slices of the quick pool (all < 30, so the same (op, rm, a, b, how) events exist in the arith/cmp
        # groups and known fold failures keep their signatures).
        Pq = pool_fp(fmt, "quick")
        CI = [1, 0, 2, 8, 9, 10, 12, 19]                   # -0.0 +0.0 min-subnormal +inf -inf NaN -1.0 0.1
        SI = [0, 1, 3, 5, 6, 9, 10, 11, 12, 19, 20]
        for op in ops or (ARITH + CMP):
            for rm in (RMS if op in ARITH else ["RNE"]):
                for side in ("a", "b"):
                    for ci in CI:
                        for si in SI:
                            i, j = (ci, si) if side == "a" else (si, ci)
                            if op in ARITH:
                                how = "meth" if rm == "RNE" and (i + j) % 3 == 0 else "fn"
                            else:
                                how = "meth" if (i + j) % 2 == 0 else "fn"
                            yield case(op, rm, fmt, Pq[i], Pq[j], how=how, mix=side)
    elif grp == "sortobj":
        # float32 events built with FSort objects that are equal to FSORT_FLOAT without being that object
        # (FSort("FLOAT", 8, 24), pickle round trip); RNE / exact operators only (correct on the pinned tree)
        Pd, Pf = pool_fp("d", "quick"), pool_fp("f", "quick")
        SL = [Pf[k] for k in (0, 1, 3, 5, 6, 9, 10, 11, 12, 19, 20, 24)]
        for so in ("new", "pickle"):
            for x in Pd:
                yield case("fpv", "RNE", "d", x, fmt2="f", so=so)
                inner = {"iop": "fpv", "irm": "RNE", "ia": x, "ib": None, "ipos": 1}
                yield case("toieee", "RNE", "f", 0, inner=inner, so=so)
                yield case("tosbv", "RNE", "f", 0, size=64, inner=inner, so=so)
                yield case("isinf", "RNE", "f", 0, inner=inner, so=so)
                for y in (Pf[11], Pf[24], Pf[19]):            # 1.0f 2^24 0.1f : symbolic second operand
                    yield case("lt", "RNE", "f", 0, y, inner=inner, so=so)
                    yield case("eq", "RNE", "f", 0, y, inner=inner, so=so)
                    yield case("add", "RNE", "f", 0, y, inner=inner, so=so)
                yield case("fptofp", "RNE", "d", x, fmt2="f", so=so)
            for x in SL:
                for y in SL:
                    for op in ("add", "sub", "mul", "lt", "eq"):
                        yield case(op, "RNE", "f", x, y, so=so)
            for x in Pf:
                yield case("tosbv", "RNE", "f", x, size=32, so=so)
                yield case("fptofp", "RNE", "f", x, fmt2="d", so=so)
                yield case("sqrt", "RNE", "f", x, so=so)
                yield case("neg", "RNE", "f", x, so=so)
                yield case("toieee", "RNE", "f", x, so=so)
            for op in ("sbvtofp", "ubvtofp"):
                for x in pool_int(32, "quick"):
                    yield case(op, "RNE", "f", x, size=32, wa=32, so=so)
    elif grp == "d2":
        # depth-2 trees: outer arithmetic/comparison/conversion over one inner arithmetic result (deterministic sample)
        rng = random.Random(4242 + (0 if fmt == "d" else 1))
        n = job.get("n", 2000)
        for _ in range(n):
            iop = rng.choice(INNER_OPS)
            inner = {"iop": iop, "irm": rng.choice(RMS), "ia": rng.choice(P), "ib": rng.choice(P) if iop in ARITH else None,
                     "ipos": 1}
            op = rng.choice(ARITH + CMP + ["sqrt", "tosbv", "isnan"])
            rm = rng.choice(RMS)
            if op in ARITH or op in CMP:
                inner["ipos"] = rng.choice((1, 2))
                o = rng.choice(P)
                yield case(op, rm if op in ARITH else "RNE", fmt, o if inner["ipos"] == 2 else 0, o if inner["ipos"] == 1 else 0, inner=inner)
            elif op == "tosbv":
                yield case(op, rm, fmt, 0, size=rng.choice(SIZES), inner=inner)
            else:
                yield case(op, rm if op == "sqrt" else "RNE", fmt, 0, inner=inner)


def _rand_fp(rng, fmt, finite_nonzero=False):
    eb, sb = FMT[fmt]
    w = eb + sb
    while True:
        k = rng.random()
        if k < 0.45:
            p = rng.getrandbits(w)
        elif k < 0.8:       # moderate exponents: sums/products stay in range and cancel
            e = (1 << (eb - 1)) - 1 + rng.randint(-30, 30)
            p = (rng.getrandbits(1) << (w - 1)) | (e << (sb - 1)) | rng.getrandbits(sb - 1)
        elif k < 0.9:       # few significant bits (ties)
            e = (1 << (eb - 1)) - 1 + rng.randint(-4, 60)
            p = (rng.getrandbits(1) << (w - 1)) | (e << (sb - 1)) | (rng.getrandbits(6) << (sb - 7))
        else:
            p = rng.choice(pool_fp(fmt, "quick"))
        if finite_nonzero:
            ef = (p >> (sb - 1)) & ((1 << eb) - 1)
            if ef == (1 << eb) - 1 or p & ((1 << (w - 1)) - 1) == 0:
                continue
        return p


def gen_rand(job):
    """seeded extra operands, restricted to the regions in which the pinned tree folds correctly (see eng_fp.py):
    RNE add/sub/mul, RNE div on finite non-zero operands, RNE sqrt, comparisons, predicates, abs/neg, fp->fp RNE,
    fp->signed int for every mode but RNA, int->double RNE (any 64-bit), int->float RNE from 16-bit integers."""
    rng = random.Random(job["seed"])
    for _ in range(job["n"]):
        fmt = rng.choice(("d", "f"))
        k = rng.random()
        if k < 0.4:
            yield case(rng.choice(("add", "sub", "mul")), "RNE", fmt, _rand_fp(rng, fmt), _rand_fp(rng, fmt))
        elif k < 0.5:
            yield case("div", "RNE", fmt, _rand_fp(rng, fmt, True), _rand_fp(rng, fmt, True))
        elif k < 0.55:
            yield case("sqrt", "RNE", fmt, _rand_fp(rng, fmt))
        elif k < 0.7:
            yield case(rng.choice(CMP), "RNE", fmt, _rand_fp(rng, fmt), _rand_fp(rng, fmt))
        elif k < 0.78:
            yield case(rng.choice(("abs", "neg", "isnan", "isinf")), "RNE", fmt, _rand_fp(rng, fmt))
        elif k < 0.86:
            yield case("fptofp", "RNE", fmt, _rand_fp(rng, fmt), fmt2="f" if fmt == "d" else "d")
        elif k < 0.94:
            yield case("tosbv", rng.choice(("RNE", "RTZ", "RTP", "RTN")), fmt, _rand_fp(rng, fmt), size=rng.choice(SIZES))
        else:
            if fmt == "d":
                yield case(rng.choice(("sbvtofp", "ubvtofp")), "RNE", fmt, rng.getrandbits(64), size=64, wa=64)
            else:
                yield case(rng.choice(("sbvtofp", "ubvtofp")), "RNE", fmt, rng.getrandbits(16), size=32, wa=32)


def gen_cases(job):
    g = job["gen"]
    if g == "pool":
        yield from gen_pool(job)
    elif g == "rand":
        yield from gen_rand(job)
    elif g == "list":
        yield from job["cases"]


# ----------------------------------------------------------------------------------------------
# claripy side
# ----------------------------------------------------------------------------------------------

_cl = {}


def _claripy():
    if not _cl:
        import claripy
        RM = claripy.fp.RM
        _cl.update(c=claripy, rm={"RNE": RM.RM_NearestTiesEven, "RNA": RM.RM_NearestTiesAwayFromZero,
                                  "RTZ": RM.RM_TowardsZero, "RTP": RM.RM_TowardsPositiveInf,
                                  "RTN": RM.RM_TowardsNegativeInf},
                   sort={"d": claripy.FSORT_DOUBLE, "f": claripy.FSORT_FLOAT})
        import pickle
        # sort objects that are EQUAL to the module constants without being the same object
        _cl["so"] = {("d", "const"): claripy.FSORT_DOUBLE, ("f", "const"): claripy.FSORT_FLOAT,
                     ("d", "new"): claripy.fp.FSort("DOUBLE", 11, 53), ("f", "new"): claripy.fp.FSort("FLOAT", 8, 24),
                     ("d", "pickle"): pickle.loads(pickle.dumps(claripy.FSORT_DOUBLE)),
                     ("f", "pickle"): pickle.loads(pickle.dumps(claripy.FSORT_FLOAT))}
    return _cl["c"], _cl["rm"], _cl["sort"]


def sort_of(fmt, so="const"):
    _claripy()
    return _cl["so"][(fmt, so)]


def apply_op(op, rm, x, y, c, how):
    """build `op` over claripy ASTs x, y (concrete or symbolic) through the public API"""
    claripy, RMm, SORT = _claripy()
    r = RMm[rm]
    meth = how == "meth"
    if op in ARITH:
        if meth and rm == "RNE":
            return {"add": lambda: x + y, "sub": lambda: x - y, "mul": lambda: x * y, "div": lambda: x / y}[op]()
        return {"add": claripy.fpAdd, "sub": claripy.fpSub, "mul": claripy.fpMul, "div": claripy.fpDiv}[op](r, x, y)
    if op in CMP:
        if meth:
            return {"eq": lambda: x == y, "neq": lambda: x != y, "lt": lambda: x < y, "leq": lambda: x <= y,
                    "gt": lambda: x > y, "geq": lambda: x >= y}[op]()
        return {"eq": claripy.fpEQ, "neq": claripy.fpNEQ, "lt": claripy.fpLT, "leq": claripy.fpLEQ, "gt": claripy.fpGT,
                "geq": claripy.fpGEQ}[op](x, y)
    if op == "sqrt":
        return claripy.fpSqrt(r, x)
    if op == "abs":
        return abs(x) if meth else claripy.fpAbs(x)
    if op == "neg":
        return -x if meth else claripy.fpNeg(x)
    if op == "isnan":
        return x.isNaN() if meth else claripy.fpIsNaN(x)
    if op == "isinf":
        return x.isInf() if meth else claripy.fpIsInf(x)
    if op == "tosbv":
        return x.val_to_bv(c["size"], True, r) if meth else claripy.fpToSBV(r, x, c["size"])
    if op == "toubv":
        return x.val_to_bv(c["size"], False, r) if meth else claripy.fpToUBV(r, x, c["size"])
    if op == "fptofp":
        return x.to_fp(sort_of(c["fmt2"], c.get("so", "const")), r) if meth else claripy.fpToFP(r, x, sort_of(c["fmt2"], c.get("so", "const")))
    if op == "sbvtofp":
        return x.val_to_fp(sort_of(c["fmt2"], c.get("so", "const")), True, r) if meth else claripy.fpToFP(r, x, sort_of(c["fmt2"], c.get("so", "const")))
    if op == "ubvtofp":
        return x.val_to_fp(sort_of(c["fmt2"], c.get("so", "const")), False, r) if meth else claripy.fpToFPUnsigned(r, x, sort_of(c["fmt2"], c.get("so", "const")))
    if op == "bvtofp":
        return x.raw_to_fp() if meth else claripy.fpToFP(x, sort_of(c["fmt2"], c.get("so", "const")))
    if op == "toieee":
        return x.raw_to_bv() if meth else claripy.fpToIEEEBV(x)
    raise ValueError(op)


INT_IN = ("sbvtofp", "ubvtofp", "bvtofp")


def conc_operand(op, p, w, fmt, so="const"):
    claripy, _, SORT = _claripy()
    if op in INT_IN:
        return claripy.BVV(p, w)
    return claripy.FPV(b2float(p, fmt), sort_of(fmt, so))


def inner_ast(c, ix, iy):
    """the inner operation of a depth-2 case; iop = "fpv" is a numeral written as a double, constructed at the
    operand format (always concrete)"""
    claripy, _, _ = _claripy()
    if c["iop"] == "fpv":
        return claripy.FPV(b2float(c["ia"], "d"), sort_of(c["fmt"], c.get("so", "const")))
    return apply_op(c["iop"], c["irm"], ix, iy, c, "fn")


def result_bits(r, c):
    """(outcome, LSB-first bits) of a concrete claripy result AST"""
    claripy, _, _ = _claripy()
    if isinstance(r, claripy.ast.Base) and r.op not in ("FPV", "BVV", "BoolV"):
        # claripy did not fold at construction: ask the concrete backend for the value
        v = claripy.backends.concrete.eval(r, 1)[0]
    elif isinstance(r, claripy.ast.Base):
        v = r.args[0]
    else:
        return "NotAST:" + type(r).__name__, []
    return value_bits(v, c)


def value_bits(v, c):
    if isinstance(v, bool):
        return "ok", [1 if v else 0]
    if isinstance(v, float):
        p = float2b(v, c["fmt2"])
        if p is None:
            return "NotInFormat", []
        return "ok", bits(p, c["eb2"] + c["sb2"])
    if isinstance(v, int):
        w = c["size"] if c["op"] in ("tosbv", "toubv") else c["eb"] + c["sb"]
        if v < 0 or v >> w:
            return "IntOutOfWidth", []
        return "ok", bits(v, w)
    return "Value:" + type(v).__name__, []


def fold(c):
    """eager folding of the concrete operands through the public constructors"""
    claripy, _, SORT = _claripy()
    try:
        op = c["op"]
        if op == "fpv":
            r = claripy.FPV(b2float(c["a"], "d"), sort_of(c["fmt2"], c.get("so", "const")))
        elif op == "fpfp":
            eb, sb = c["eb2"], c["sb2"]
            p = c["a"]
            r = claripy.fpFP(claripy.BVV(p >> (eb + sb - 1), 1), claripy.BVV((p >> (sb - 1)) & ((1 << eb) - 1), eb),
                             claripy.BVV(p & ((1 << (sb - 1)) - 1), sb - 1))
        else:
            so = c.get("so", "const")
            x = conc_operand(op, c["a"], c["wa"], c["fmt"], so)
            y = conc_operand(op, c["b"], c["wa"], c["fmt"], so) if c["b"] is not None else None
            if c["iop"]:
                ix = iy = None
                if c["iop"] != "fpv":
                    ix = conc_operand(c["iop"], c["ia"], c["wa"], c["fmt"], so)
                    iy = conc_operand(c["iop"], c["ib"], c["wa"], c["fmt"], so) if c["ib"] is not None else None
                inner = inner_ast(c, ix, iy)
                if c["ipos"] == 1:
                    x = inner
                else:
                    y = inner
            r = apply_op(op, c["rm"], x, y, c, c["how"])
        return result_bits(r, c)
    except Exception as ex:  # noqa: BLE001
        return "PyError:" + type(ex).__name__, []


_solvers = {}


def _sym(name, op, w, fmt):
    claripy, _, SORT = _claripy()
    if op in INT_IN:
        return claripy.BVS(name, w, explicit_name=True)
    return claripy.FPS(name, SORT[fmt], explicit_name=True)


def _pin(sym, op, p, w, fmt):
    claripy, _, _ = _claripy()
    if op in INT_IN:
        return sym == claripy.BVV(p, w)
    eb, sb = FMT[fmt]
    ef = (p >> (sb - 1)) & ((1 << eb) - 1)
    if ef == (1 << eb) - 1 and p & ((1 << (sb - 1)) - 1):
        return claripy.fpIsNaN(sym)
    return claripy.fpToIEEEBV(sym) == claripy.BVV(p, w)


_mixed = {}      # mixed-route expressions contain a constant and are used for a run of consecutive cases: keep one


def solved(c, fresh):
    """operands symbolic, pinned by constraints; value obtained through a claripy solver (claripy's Z3 translation
    and value abstraction).  One long-lived SolverCacheless per expression, pins as extra constraints; `fresh`:
    a new claripy.Solver() with the pins added as constraints.
    Mixed route (c["mix"] = "a" | "b", or an inner "fpv" numeral): that operand stays a CONSTANT FPV inside the
    symbolic expression, so it is not folded and reaches Z3 through claripy's translation of constants."""
    claripy, _, _ = _claripy()
    try:
        op = c["op"]
        so, mix = c.get("so", "const"), c.get("mix", "")
        const_inner = c["iop"] == "fpv"
        key = (op, c["rm"], c["fmt"], c["fmt2"], c["size"], c["how"], c["iop"], c["irm"], c["ipos"], c["b"] is None,
               c["ib"] is None, so, mix, c["a"] if mix == "a" else c["b"] if mix == "b" else None,
               c["ia"] if const_inner else None)
        cache = _mixed if (mix or const_inner) else _solvers
        ent = cache.get(key)
        if ent is None:
            syms = {}
            if op == "fpfp":
                eb, sb = c["eb2"], c["sb2"]
                syms = {"sg": claripy.BVS("sg", 1, explicit_name=True), "ex": claripy.BVS("ex", eb, explicit_name=True),
                        "mn": claripy.BVS("mn", sb - 1, explicit_name=True)}
                expr = claripy.fpFP(syms["sg"], syms["ex"], syms["mn"])
            else:
                x = y = None
                if mix == "a":
                    x = conc_operand(op, c["a"], c["wa"], c["fmt"], so)
                elif not (c["iop"] and c["ipos"] == 1):
                    x = syms["a"] = _sym("a", op, c["wa"], c["fmt"])
                if mix == "b":
                    y = conc_operand(op, c["b"], c["wa"], c["fmt"], so)
                elif c["b"] is not None and not (c["iop"] and c["ipos"] == 2):
                    y = syms["b"] = _sym("b", op, c["wa"], c["fmt"])
                if c["iop"]:
                    ix = iy = None
                    if not const_inner:
                        ix = syms["c"] = _sym("c", c["iop"], c["wa"], c["fmt"])
                        if c["ib"] is not None:
                            iy = syms["d"] = _sym("d", c["iop"], c["wa"], c["fmt"])
                    inner = inner_ast(c, ix, iy)
                    if c["ipos"] == 1:
                        x = inner
                    else:
                        y = inner
                if not syms:
                    return "", None            # nothing symbolic: there is no solved route for this case
                expr = apply_op(op, c["rm"], x, y, c, c["how"])
            ent = (claripy.SolverCacheless(), expr, syms)
            if cache is _mixed:
                _mixed.clear()
            cache[key] = ent
        sc, expr, syms = ent
        if op == "fpfp":
            eb, sb = c["eb2"], c["sb2"]
            p = c["a"]
            pins = [syms["sg"] == claripy.BVV(p >> (eb + sb - 1), 1),
                    syms["ex"] == claripy.BVV((p >> (sb - 1)) & ((1 << eb) - 1), eb),
                    syms["mn"] == claripy.BVV(p & ((1 << (sb - 1)) - 1), sb - 1)]
        else:
            vals = {"a": (c["a"], op), "b": (c["b"], op), "c": (c["ia"], c["iop"]), "d": (c["ib"], c["iop"])}
            pins = [_pin(sy, vals[nm][1], vals[nm][0], c["wa"], c["fmt"]) for nm, sy in syms.items()]
        if not expr.symbolic:
            return "NotSymbolic", []
        if fresh:
            s = claripy.Solver()
            for p in pins:
                s.add(p)
            v = s.eval(expr, 1)[0]
        else:
            v = sc.eval(expr, 1, extra_constraints=pins)[0]
        return value_bits(v, c)
    except Exception as ex:  # noqa: BLE001
        return "PyError:" + type(ex).__name__, []


# ----------------------------------------------------------------------------------------------
# independent Z3 reference (self-test of FP.tla and second opinion); never touches claripy
# ----------------------------------------------------------------------------------------------

def z3_term(op, rm, x, y, c):
    import z3
    R = {"RNE": z3.RNE, "RNA": z3.RNA, "RTZ": z3.RTZ, "RTP": z3.RTP, "RTN": z3.RTN}[rm]()
    S2 = z3.FPSort(c["eb2"], c["sb2"])
    if op in ARITH:
        return {"add": z3.fpAdd, "sub": z3.fpSub, "mul": z3.fpMul, "div": z3.fpDiv}[op](R, x, y)
    if op in CMP:
        return {"eq": z3.fpEQ, "neq": z3.fpNEQ, "lt": z3.fpLT, "leq": z3.fpLEQ, "gt": z3.fpGT, "geq": z3.fpGEQ}[op](x, y)
    if op == "sqrt":
        return z3.fpSqrt(R, x)
    if op == "abs":
        return z3.fpAbs(x)
    if op == "neg":
        return z3.fpNeg(x)
    if op == "isnan":
        return z3.fpIsNaN(x)
    if op == "isinf":
        return z3.fpIsInf(x)
    if op == "tosbv":
        return z3.fpToSBV(R, x, z3.BitVecSort(c["size"]))
    if op == "toubv":
        return z3.fpToUBV(R, x, z3.BitVecSort(c["size"]))
    if op in ("fptofp", "fpv"):
        return z3.fpFPToFP(R, x, S2)
    if op == "sbvtofp":
        return z3.fpSignedToFP(R, x, S2)
    if op == "ubvtofp":
        return z3.fpUnsignedToFP(R, x, S2)
    if op == "bvtofp":
        return z3.fpBVToFP(x, S2)
    if op == "toieee":
        return z3.fpToIEEEBV(x)
    raise ValueError(op)


def z3_operand(op, p, w, c):
    import z3
    if op in INT_IN:
        return z3.BitVecVal(p, w)
    return z3.fpBVToFP(z3.BitVecVal(p, w), z3.FPSort(c["eb"], c["sb"]))


def z3_ref(c):
    """(zs, bits): value of the operation according to Z3's own FPA rewriter; zs = 0 when Z3 leaves it unevaluated"""
    import z3
    op = c["op"]
    if op == "fpfp":
        eb, sb = c["eb2"], c["sb2"]
        p = c["a"]
        t = z3.fpFP(z3.BitVecVal(p >> (eb + sb - 1), 1), z3.BitVecVal((p >> (sb - 1)) & ((1 << eb) - 1), eb),
                    z3.BitVecVal(p & ((1 << (sb - 1)) - 1), sb - 1))
    else:
        x = z3_operand(op, c["a"], c["wa"], c)
        y = z3_operand(op, c["b"], c["wa"], c) if c["b"] is not None else None
        if c["iop"]:
            if c["iop"] == "fpv":
                ix = z3.fpBVToFP(z3.BitVecVal(c["ia"], 64), z3.FPSort(11, 53))
            else:
                ix = z3_operand(c["iop"], c["ia"], c["wa"], c)
            iy = z3_operand(c["iop"], c["ib"], c["wa"], c) if c["ib"] is not None else None
            inner = z3_term(c["iop"], c["irm"], ix, iy, {**c, "eb2": c["eb"], "sb2": c["sb"]})
            if c["ipos"] == 1:
                x = inner
            else:
                y = inner
        t = z3_term(op, c["rm"], x, y, c)
    r = z3.simplify(t)
    if z3.is_true(r):
        return 1, [1]
    if z3.is_false(r):
        return 1, [0]
    if z3.is_bv_value(r):
        return 1, bits(r.as_long(), r.size())
    if z3.is_fp_value(r) or isinstance(r, z3.FPNumRef):
        eb, sb = r.ebits(), r.sbits()
        if r.isNaN():
            p = (((1 << eb) - 1) << (sb - 1)) | (1 << (sb - 2))
        elif r.isInf():
            p = ((1 if r.isNegative() else 0) << (eb + sb - 1)) | (((1 << eb) - 1) << (sb - 1))
        elif r.isZero():
            p = (1 if r.isNegative() else 0) << (eb + sb - 1)
        else:
            p = ((1 if r.sign() else 0) << (eb + sb - 1)) | (r.exponent_as_long(True) << (sb - 1)) | r.significand_as_long()
        return 1, bits(p, eb + sb)
    return 0, []


# ----------------------------------------------------------------------------------------------

def event_of(c):
    w = c["wa"]
    return {"op": c["op"], "rm": c["rm"], "eb": c["eb"], "sb": c["sb"], "eb2": c["eb2"], "sb2": c["sb2"], "size": c["size"],
            "a": bits(c["a"], w), "b": bits(c["b"], w) if c["b"] is not None else [],
            "iop": c["iop"], "irm": c["irm"], "ia": bits(c["ia"], 64 if c["iop"] == "fpv" else w) if c["iop"] else [],
            "ib": bits(c["ib"], w) if c["iop"] and c["ib"] is not None else [], "ipos": c["ipos"], "how": c["how"],
            "fold": [], "out": "ok", "sv": 0, "solved": [], "sout": "", "sm": "", "zs": 2, "so": c.get("so", "const"),
            "mix": c.get("mix", "")}


def case_of_event(ev):
    """inverse of event_of (the engine rebuilds a case from a recorded event for replay / second opinion)"""
    fm = {11: "d", 8: "f"}
    c = case(ev["op"], ev["rm"], fm[ev["eb"]], unbits(ev["a"]), unbits(ev["b"]) if ev["b"] else None, fmt2=fm[ev["eb2"]],
             size=ev["size"], how=ev["how"], wa=len(ev["a"]), so=ev.get("so", "const"), mix=ev.get("mix", ""))
    if ev["iop"]:
        c.update({"iop": ev["iop"], "irm": ev["irm"], "ia": unbits(ev["ia"]), "ib": unbits(ev["ib"]) if ev["ib"] else None,
                  "ipos": ev["ipos"]})
    return c


def is_nan_pattern(p, fmt):
    eb, sb = FMT[fmt]
    return (p >> (sb - 1)) & ((1 << eb) - 1) == (1 << eb) - 1 and p & ((1 << (sb - 1)) - 1) != 0


def run_case(c, mode, want_solved, fresh):
    ev = event_of(c)
    if mode == "z3ref":
        ev["zs"], ev["fold"] = z3_ref(c)
        return ev
    ev["out"], ev["fold"] = fold(c)
    if want_solved and c["op"] != "fpv":
        sout, sbits = solved(c, fresh)
        if sbits is not None:
            ev["sv"] = 1
            ev["sm"] = ("mixed-" + c["mix"]) if c.get("mix") else "mixed-fpv" if c["iop"] == "fpv" else \
                "solver" if fresh else "cacheless"
            ev["sout"], ev["solved"] = sout, sbits
    return ev


def main():
    job = json.load(open(sys.argv[1]))
    mode = job.get("mode", "claripy")
    part, nparts = job.get("part", 0), job.get("nparts", 1)
    fresh_every = job.get("fresh_every", 0)
    out = ShardWriter(sys.argv[2], job.get("shard", 4000))
    skipped = 0
    cnt = {}
    for i, c in enumerate(gen_cases(job)):
        if i % nparts != part:
            continue
        if mode == "z3ref" and c["op"] == "toieee" and is_nan_pattern(c["a"], c["fmt"]):
            skipped += 1          # Z3 leaves fp.to_ieee_bv(NaN) uninterpreted; nothing to compare
            continue
        sev = job.get("solved", 1)
        ev = run_case(c, mode, bool(sev) and i % sev == 0, bool(fresh_every) and i % fresh_every == 0)
        if mode == "z3ref" and c["op"] == "toieee" and ev["zs"] == 0:
            skipped += 1          # fp.to_ieee_bv of a NaN produced by an inner operation: uninterpreted in Z3 as well
            continue
        ev["gi"] = i
        cnt["n_" + c["op"]] = cnt.get("n_" + c["op"], 0) + 1
        if ev["sv"]:
            cnt["solved"] = cnt.get("solved", 0) + 1
            if ev["sm"] == "solver":
                cnt["fresh"] = cnt.get("fresh", 0) + 1
        key = [c["op"], c["rm"], c["fmt"], c["fmt2"], c["size"], c["a"], c["b"], c["iop"], c["irm"], c["ia"], c["ib"]]
        nt = ev["out"] != "ok" or (ev["fold"] != ev["a"] and ev["fold"] != ev["b"])
        out.write(ev, nontrivial_key=key if nt else None, outcome=ev["out"] if ev["zs"] == 2 else "z3:%d" % ev["zs"],
                  sample={k: ev[k] for k in ("op", "rm", "eb", "sb", "how", "out", "sout")} |
                         {"a": hex(c["a"]), "b": hex(c["b"]) if c["b"] is not None else "", "fold": hex(unbits(ev["fold"])),
                          "solved": hex(unbits(ev["solved"]))} if nt else None)
    out.close({"skipped": skipped, **cnt})


if __name__ == "__main__":
    main()
