"""Worker: run solver histories on the real claripy frontends and record one trace per history.

usage: python -m harness.w_solver job.json outprefix
job = {"mode": "random"|"list", "seed":…, "n":…, "len":…, "W":…, "classes":[…], "histories":[…], "probe": bool,
       "faults": bool, "pickle": bool, "multi": bool, "env": {...}}
A history is a list of input operations (see run_history); only INPUTS come from the generator, every output is
recorded and judged by spec/TraceSolver.tla.
"""
from __future__ import annotations

import json
import os
import pickle
import random
import sys

from . import term as TM
from .term import BVS, BVV, BoolS, BoolV, T
from .wlib import ShardWriter

DUMMY = ["BoolV", "", [0], []]


# ----------------------------------------------------------------------------------------------
# alphabets
# ----------------------------------------------------------------------------------------------

def alphabet(W, rng=None, with_bool=False):
    x, y = BVS("x", W), BVS("y", W)
    m = (1 << W) - 1
    K = lambda v: BVV(v & m, W)  # noqa: E731
    cons = [
        T("ULT", x, K(2)), T("UGT", x, K(1)), T("__eq__", x, K(m)), T("__eq__", x, K(1)), T("__ne__", x, K(0)),
        T("__eq__", T("__and__", x, K(1)), K(1)), T("SLT", x, K(0)), T("SGE", x, K(0)), T("SGT", x, K(m)),
        T("ULE", y, K(1)), T("__eq__", y, K(0)), T("__eq__", y, K(1)), T("__ne__", y, K(m)), T("SLE", y, K(m)),
        T("__eq__", T("__add__", x, y), K(3)), T("ULT", x, y), T("__eq__", x, y), T("__ne__", x, y),
        T("__eq__", T("__xor__", x, y), K(1)), T("SGT", T("__add__", K(m - 1), y), y),
        T("Or", T("__eq__", x, K(0)), T("__eq__", x, K(m))), T("And", T("UGE", x, K(1)), T("ULE", x, K(2))),
        T("Or", T("__eq__", x, K(1)), T("__eq__", y, K(1))), T("__eq__", x, K(m >> 1)), T("__eq__", x, K((m >> 1) + 1)),
        T("UGE", x, K(m >> 1)), T("ULE", x, K((m >> 1) + 1)),
        T("And", T("__eq__", x, K(1)), T("__eq__", x, K(2))),          # contradiction that is not folded
        BoolV(True),
    ]
    if with_bool:
        b = BoolS("b")
        cons += [b, T("Not", b), T("Or", b, T("__eq__", x, K(1))), T("__eq__", b, T("ULT", x, K(2)))]
    exprs = [x, y, T("__add__", x, y), T("__xor__", x, K(1)), T("__sub__", x, K(1)), T("__and__", x, y),
             T("If", T("ULT", x, K(2)), y, x)]
    extras = [[], [], [T("__ne__", x, K(1))], [T("UGT", x, K(1))], [T("__eq__", y, K(1))], [T("ULT", x, y)],
              [T("__eq__", x, K(m))], [T("SLT", x, K(0))], [T("__eq__", x, K(0)), T("__eq__", x, K(1))]]
    return {"vars": [["x", W], ["y", W]] + ([["b", 0]] if with_bool else []), "cons": cons, "exprs": exprs,
            "extras": extras, "W": W}


def alphabet3(W=2):
    """three variables whose constraints connect / disconnect variable groups in every order (composite solver)"""
    x, y, z = BVS("x", W), BVS("y", W), BVS("z", W)
    m = (1 << W) - 1
    K = lambda v: BVV(v & m, W)  # noqa: E731
    cons = [
        T("ULT", x, K(2)), T("__eq__", x, K(m)), T("__ne__", x, K(0)), T("SLT", x, K(0)),
        T("ULE", y, K(1)), T("__eq__", y, K(0)), T("__ne__", y, K(m)), T("SGE", y, K(0)),
        T("UGT", z, K(1)), T("__eq__", z, K(1)), T("__ne__", z, K(2)),
        T("ULT", x, y), T("__eq__", T("__add__", x, y), K(3)), T("__ne__", x, y),
        T("ULT", y, z), T("__eq__", T("__xor__", y, z), K(1)), T("__eq__", y, z),
        T("UGT", x, z), T("__eq__", T("__add__", x, z), K(1)),
        T("__eq__", T("__add__", x, y, z), K(2)),
        T("Or", T("__eq__", x, K(1)), T("__eq__", z, K(1))), T("And", T("UGE", x, K(1)), T("ULE", y, K(2))),
        T("And", T("__eq__", x, K(1)), T("__eq__", x, K(2))),
        BoolV(True), BoolV(False),
    ]
    exprs = [x, y, z, T("__add__", x, y), T("__add__", y, z), T("__xor__", x, z), T("__add__", x, y, z)]
    extras = [[], [], [T("__ne__", x, K(1))], [T("ULT", x, y)], [T("__eq__", y, z)], [T("UGT", x, z)],
              [T("__eq__", z, K(0))], [T("__eq__", x, K(0)), T("__eq__", x, K(1))]]
    return {"vars": [["x", W], ["y", W], ["z", W]], "cons": cons, "exprs": exprs, "extras": extras, "W": W}


def alphabet1(W=2):
    """the one-variable alphabet explored by spec/SolverCache.tla; denotations are given next to the terms and are
    re-checked against Z3 by the engine before they are handed to TLC"""
    x = BVS("x", W)
    K = lambda v: BVV(v, W)  # noqa: E731
    cons = [(T("ULT", x, K(2)), [0, 1]), (T("__eq__", T("__and__", x, K(1)), K(1)), [1, 3]), (T("__eq__", x, K(2)), [2]),
            (T("__ne__", x, K(3)), [0, 1, 2]), (T("__ne__", x, K(0)), [1, 2, 3]), (T("SLT", x, K(0)), [2, 3]),
            (T("__eq__", x, K(0)), [0]), (T("UGT", x, K(2)), [3])]
    extras = [([], [0, 1, 2, 3]), ([T("__eq__", T("__and__", x, K(1)), K(1))], [1, 3]), ([T("__eq__", x, K(0))], [0]),
              ([T("SLT", x, K(0))], [2, 3])]
    return {"vars": [["x", W]], "cons": [c for c, _ in cons], "cden": [d for _, d in cons],
            "extras": [e for e, _ in extras], "eden": [d for _, d in extras], "exprs": [x], "W": W}


def get_alphabet(job):
    if job.get("alpha") == "x1":
        return alphabet1(job.get("W", 2))
    if job.get("alpha") == "xyz":
        return alphabet3(job.get("W", 2))
    A = alphabet(job["W"], with_bool=job.get("with_bool", False))
    if job.get("truthy"):
        A["truth_probes"] = True
    if job.get("alpha") == "approx":
        # alphabet hygiene (DESIGN 4.2 rule 5): constraint shapes on which constraint_to_si / the VSA transfer
        # functions are known to be unsound on the pinned tree are reported under C25/C21, not again here
        drop = {"__and__"}
        A["cons"] = [c for c in A["cons"] if not TM_contains_op(c, drop)]
    return A


def TM_contains_op(t, ops):
    return t[0] in ops or any(TM_contains_op(a, ops) for a in t[3])


# ----------------------------------------------------------------------------------------------
# random histories
# ----------------------------------------------------------------------------------------------

QUERY_OPS = ["satisfiable", "eval", "eval", "batch_eval", "min", "max", "min", "max", "solution", "is_true",
             "is_false"]


def random_history(rng, A, cls, kw, length, multi=False, pick=False, unsat_core=False, foldable=False,
                   branchy=False, truthy=False, annotvar=False, saa=False):
    W = A["W"]
    m = (1 << W) - 1
    H = [["new", cls, kw]]
    live = [0]
    nid = 1

    def extra():
        return rng.choice(A["extras"]) if rng.random() < 0.45 else []

    def expr():
        e = rng.choice(A["exprs"])
        if foldable and rng.random() < 0.2:
            x = BVS("x", W)
            e = rng.choice([T("__xor__", x, x), T("__sub__", x, x), T("__and__", x, BVV(0, W)), BVV(rng.randrange(m + 1), W)])
        return e

    for _ in range(length):
        s = rng.choice(live)
        r = rng.random()
        if branchy and r > 0.80 and len(live) < 5:
            r = 0.90            # branch more often
        elif branchy and 0.70 < r < 0.80:
            r = 0.84            # simplify / downsize more often
        if branchy and cls in ("SolverReplacement", "SolverReplacementCacheless") and rng.random() < 0.04:
            x = BVS("x", W) if rng.random() < 0.5 else BVS("y", W)
            H.append(["add_replacement", s, x, BVV(rng.randrange(m + 1), W), rng.random() < 0.5])
            continue
        if unsat_core and r > 0.90:
            r = 0.96 if rng.random() < 0.6 or not multi else r
        if multi and 0.60 < r < 0.70 and len(live) >= 2:
            r = 0.98            # combine / merge / split more often
        if r < 0.30:
            k = 1 if rng.random() < 0.8 else 2
            batch = [rng.choice(A["cons"]) for _ in range(k)]
            if rng.random() < 0.12:
                # a batch with a duplicate followed by an equality / negation (deduplication and replacement-deriving
                # code index into the batch)
                eqs = [c for c in A["cons"] if c[0] in ("__eq__", "Not")]
                c0 = rng.choice(A["cons"])
                batch = [c0, c0, rng.choice(eqs)] if rng.random() < 0.5 else [c0, rng.choice(eqs), c0]
            if unsat_core and rng.random() < 0.3:
                H.append(["add", s, batch, "annot"])
            elif saa and rng.random() < 0.5:
                H.append(["add", s, batch, "saa"])
                if rng.random() < 0.6:
                    H.append(["add", s, [rng.choice(A["cons"]), rng.choice(A["cons"])]])
                    H.append(["simplify", s])
            elif annotvar:
                H.append(["add", s, batch, "annotvar"])
                if rng.random() < 0.5:
                    H.append(["simplify", s])
            else:
                H.append(["add", s, batch])
        elif r < 0.82:
            q = rng.choice(QUERY_OPS if not truthy or rng.random() < 0.3 else ["is_true", "is_false"])
            if q == "satisfiable":
                H.append([q, s, extra()])
            elif q == "eval":
                H.append([q, s, expr(), rng.choice([1, 2, 3, m + 2]), extra()])
            elif q == "batch_eval":
                H.append([q, s, [expr(), expr()], rng.choice([1, 2, m + 2]), extra()])
            elif q in ("min", "max"):
                H.append([q, s, expr(), rng.random() < 0.5, extra()])
            elif q == "solution":
                if rng.random() < 0.25:
                    # symbolic value: its variables may live in another group of constraints than the expression's
                    H.append([q, s, expr(), rng.choice([BVS(n, w) for n, w in A["vars"] if w == W] + [expr()]), extra(), True])
                else:
                    H.append([q, s, expr(), BVV(rng.randrange(m + 1), W), extra(), rng.random() < 0.5])
            else:
                c = rng.choice(A["cons"])
                if truthy and rng.random() < 0.5:
                    # conjunctions / disjunctions whose second operand is valid (or contradictory) on its own
                    xv, yv = BVS("x", W), BVS("y", W)
                    taut = [T("UGE", yv, BVV(0, W)), T("ULE", xv, BVV(m, W)), T("SLE", yv, BVV(m >> 1, W)),
                            T("ULT", xv, BVV(0, W)), T("UGT", yv, BVV(m, W))]
                    c2 = rng.choice(taut + A["cons"][:8])
                    c = T(rng.choice(["And", "Or"]), c, c2) if rng.random() < 0.7 else T(rng.choice(["And", "Or"]), c2, c)
                H.append([q, s, c, extra()])
        elif r < 0.86:
            H.append([rng.choice(["simplify", "downsize"]), s])
        elif r < 0.93 and (multi or len(live) < 3):
            H.append(["branch", s])
            live.append(nid)
            nid += 1
        elif pick and (r < 0.95 or rng.random() < 0.08):
            H.append(["pickle", s])
            live.append(nid)
            twin = nid
            nid += 1
            # mirror: the same operations on the original and on the unpickled copy (C18 twin comparison)
            for _m in range(rng.randint(1, 4)):
                q = rng.choice(["add", "eval", "min", "max", "satisfiable", "solution", "simplify", "repl", "unrepl"])
                if q == "add":
                    c = [rng.choice(A["cons"])]
                    mops = [["add", s, c], ["add", twin, c]]
                elif q == "eval":
                    e_, ex_ = expr(), extra()
                    mops = [["eval", s, e_, m + 2, ex_], ["eval", twin, e_, m + 2, ex_]]
                elif q in ("min", "max"):
                    e_, sg_, ex_ = expr(), rng.random() < 0.5, extra()
                    mops = [[q, s, e_, sg_, ex_], [q, twin, e_, sg_, ex_]]
                elif q == "satisfiable":
                    ex_ = extra()
                    mops = [[q, s, ex_], [q, twin, ex_]]
                elif q == "solution":
                    e_, v_ = expr(), BVV(rng.randrange(m + 1), W)
                    mops = [[q, s, e_, v_, [], True], [q, twin, e_, v_, [], True]]
                elif q == "simplify":
                    mops = [[q, s], [q, twin]]
                elif cls.startswith("SolverReplacement"):
                    xv = BVS("x", W)
                    if q == "repl":
                        v_ = BVV(rng.randrange(m + 1), W)
                        mops = [["add_replacement", s, xv, v_, True], ["add_replacement", twin, xv, v_, True]]
                    else:
                        mops = [["remove_replacements", s, xv], ["remove_replacements", twin, xv]]
                else:
                    continue
                H.extend(mops)
        elif r < 0.97 and unsat_core:
            # sometimes relative to extra constraints (a core that depends on them must not be remembered)
            H.append(["unsat_core", s] + ([extra()] if rng.random() < 0.35 else []))
            if len(H[-1]) > 2 and rng.random() < 0.7:
                H.append(["unsat_core", s])
        elif multi and len(live) >= 2 and r < 0.985:
            cand = [i for i in live if i != s]
            others = rng.sample(cand, 2) if len(cand) >= 2 and rng.random() < 0.4 else [rng.choice(cand)]
            if rng.random() < 0.5:
                H.append(["combine", s, others])
            else:
                conds = [rng.choice(A["cons"]) for _ in range(len(others) + 1)]
                H.append(["merge", s, others, conds, -1])
            live.append(nid)
            nid += 1
        elif multi and r < 0.995:
            H.append(["split", s])
            # ids of the parts are only known at run time; they are probed but not used as operands
        elif len(live) >= 2 and rng.random() < 0.5:
            # a solver object goes away (garbage collected) right after it was used: whoever shared something with it
            # (a reused Z3 solver, child solvers, caches keyed by weak references) must not notice
            victim = rng.choice([i for i in live if i != 0] or [live[-1]])
            if victim != s or len(live) >= 2:
                H.append(["satisfiable", victim, []])
                H.append(["eval", victim, expr(), 2, []])
                H.append(["drop", victim])
                live.remove(victim)
                if live:
                    H.append(["satisfiable", rng.choice(live), extra()])
        else:
            H.append(["satisfiable", s, []])
    return H


def probe_battery(A, sids, variant=0):
    """queries issued after the last step of a history on every live solver.
    variant 0: solver by solver, exhaustive evals first (then min/max are served from the exhausted cache);
    variant 1: min/max first, evals last; variant 2: like 1 but round-robin over the solvers, so that the same
    query hits the branches of one tree back to back (shared-cache defects between branches need that)"""
    W = A["W"]
    m = (1 << W) - 1
    per = {}
    for s in sids:
        ev = [["eval", s, e, m + 2, []] for e in A["exprs"][:4]]
        mm = [[c, s, e, sg, []] for e in A["exprs"][:3] for sg in (False, True) for c in ("min", "max")]
        x = A["exprs"][0]
        sol = [["solution", s, x, BVV(v, W), [], True] for v in (0, 1, m)]
        sat = [["satisfiable", s, []]]
        tru = [[c, s, t, []] for t in A["cons"][:6] for c in ("is_true", "is_false")] if A.get("truth_probes") else []
        # the full joint model set (every variable at once, one more than there are assignments): by answers alone
        # it pins the solver's state down to the denotation of its constraints
        nv = len([1 for _, w in A["vars"] if w])
        joint = [["batch_eval", s, [BVS(n, w) for n, w in A["vars"] if w], (1 << (W * nv)) + 1, []]] if W * nv <= 6 else []
        per[s] = sat + ev + mm + sol + tru + joint if variant == 0 else tru + mm + sat + sol + ev + joint
    if variant != 2:
        return [q for s in sids for q in per[s]]
    P = []
    n = max((len(v) for v in per.values()), default=0)
    for i in range(n):
        for s in sids:
            if i < len(per[s]):
                P.append(per[s][i])
    return P


# ----------------------------------------------------------------------------------------------
# fault injection (C17)
# ----------------------------------------------------------------------------------------------

class Fault:
    """arms z3.Solver.check so that its k-th call during the next operation returns unknown"""
    installed = False
    armed = 0
    count = 0
    fired = False
    reason = "timeout"

    @classmethod
    def install(cls):
        if cls.installed:
            return
        import z3
        orig_check = z3.Solver.check
        orig_reason = z3.Solver.reason_unknown

        def check(self, *a, **k):
            if cls.armed:
                cls.count += 1
                if cls.count == cls.armed:
                    cls.fired = True
                    cls.armed = 0
                    self._verif_unknown = True
                    return z3.unknown
            return orig_check(self, *a, **k)

        def reason_unknown(self):
            if getattr(self, "_verif_unknown", False):
                self._verif_unknown = False
                return cls.reason
            return orig_reason(self)

        z3.Solver.check = check
        z3.Solver.reason_unknown = reason_unknown
        cls.installed = True

    @classmethod
    def arm(cls, k, reason):
        cls.install()
        cls.armed, cls.count, cls.fired, cls.reason = k, 0, False, reason

    @classmethod
    def disarm(cls):
        f = cls.fired
        cnt = cls.count
        cls.armed, cls.fired = 0, False
        return f, cnt


# ----------------------------------------------------------------------------------------------
# running a history
# ----------------------------------------------------------------------------------------------

def mk_solver(cls, kw):
    import claripy
    kw = dict(kw)
    if cls == "SolverReplacementCacheless":
        return claripy.SolverReplacement(actual_frontend=claripy.SolverCacheless(), **kw)
    return getattr(claripy, cls)(**kw)


def mode_of(cls, kw, call_exact):
    if cls == "SolverVSA":
        return "approx"
    if cls == "SolverHybrid":
        if call_exact is False:
            return "approx"
        if kw.get("approximate_first"):
            return "approx"
    return "exact"


try:
    import claripy as _cl

    class Tag(_cl.Annotation):
        """a plain (eliminatable, non-relocatable) annotation carrying an integer (module level: picklable)"""
        eliminatable, relocatable = True, False

        def __init__(self, k):
            self.k = k

        def __hash__(self):
            return hash(("Tag", self.k))

        def __eq__(self, o):
            return type(o) is type(self) and o.k == self.k
except ImportError:          # the engine imports this module without claripy only for the alphabets
    Tag = None


def TagAnno(k):
    return Tag(k)


class NoneAnswer(Exception):
    """a query returned None instead of a value (seen on SolverVSA for an empty abstract value)"""


def vbits(v, e_ast):
    """python value returned by claripy -> bit list at the width of the queried expression"""
    import claripy
    if v is None:
        raise NoneAnswer()
    if isinstance(v, bool):
        return [1 if v else 0]
    if isinstance(v, int):
        w = e_ast.length if isinstance(e_ast, claripy.ast.Bits) else 1
        return TM.bits(v % (1 << w), w)
    raise TypeError("unexpected value %r" % (v,))


def run_history(H, vars_, tid, cfg, step_hook=None):
    import claripy
    S = {}          # sid -> solver object
    meta = {}       # sid -> (cls, kw)
    events = []
    nid = 0
    part_id = 50    # ids of split() results: a separate range so that the generator's id counter stays aligned
    cache = {}
    fault = None

    def B(t):
        return TM.build(t, "std", cache)

    ever_held = {}

    def snapshot_held(sid, so):
        d = ever_held.setdefault(sid, {})
        try:
            held = list(so.constraints)
            for ch in getattr(so, "_solver_list", []) or []:
                held.extend(getattr(ch, "constraints", []))
            for c in held:
                if c.hash() not in d:
                    d[c.hash()] = TM.ser(c, ann=bool(c.annotations))
        except Exception:  # noqa: BLE001
            pass

    def ev_base(call, s):
        return {"call": call, "s": s, "new": [], "e": DUMMY, "es": [], "n": 0, "v": DUMMY, "signed": False,
                "extra": [], "cs": [], "others": [], "anc": -1, "ret": [], "rets": [], "groups": [], "scons": [],
                "exc": "", "excClaripy": False, "mode": "exact", "fault": 0, "fired": False, "conc": False, "csb": [],
                "anntags": [], "annotvar": False}

    for op_index, op in enumerate(H):
        if step_hook is not None:
            step_hook(op_index)
        call = op[0]
        if call == "fault":
            fault = (op[1], op[2] if len(op) > 2 else "timeout")
            continue
        if call == "new":
            S[nid] = mk_solver(op[1], op[2])
            meta[nid] = (op[1], op[2])
            e = ev_base("new", nid)
            e["new"] = [nid]
            e["cls"], e["kw"] = op[1], json.dumps(op[2], sort_keys=True)
            events.append(e)
            nid += 1
            continue
        s = op[1]
        if s not in S:
            continue
        sol = S[s]
        cls, kw = meta[s]
        e = ev_base(call, s)
        e["cls"] = cls
        exact = None
        if cls == "SolverHybrid" and cfg.get("hybrid_exact") is not None:
            exact = cfg["hybrid_exact"]
        e["mode"] = mode_of(cls, kw, exact)
        xk = {} if exact is None else {"exact": exact}
        if fault:
            Fault.arm(*fault)
            e["fault"] = fault[0]
        try:
            if call == "add":
                e["cs"] = op[2]
                built = [B(c) for c in op[2]]
                if len(op) > 3 and op[3] == "annot":
                    # constraints carrying an annotation: the core must return THESE objects
                    built = [c.annotate(TagAnno(op_index * 10 + j)) for j, c in enumerate(built)]
                    e["cs"] = [TM.ser(c, ann=True) for c in built]
                if len(op) > 3 and op[3] == "saa":
                    # constraints the solver must never rewrite (and must keep) across simplify()
                    built = [c.annotate(claripy.annotation.SimplificationAvoidanceAnnotation()) for c in built]
                e["annotvar"] = len(op) > 3 and op[3] == "annotvar"
                if len(op) > 3 and op[3] == "annotvar":
                    # the same constraints over ANNOTATED variables (same names): meaning unchanged; used to see whether
                    # annotations of one user's variables leak into another user's expressions (C20)
                    nb = []
                    for c in built:
                        for leaf in list(c.leaf_asts()):
                            if leaf.op == "BVS" and not leaf.annotations:
                                c = claripy.replace(c, leaf, leaf.annotate(TagAnno(777)))
                        nb.append(c)
                    built = nb
                e["csb"] = [TM.ser(c, ann=bool(c.annotations)) for c in built]
                e["cfalse"] = any(c.op == "BoolV" and c.args[0] is False for c in built)
                sol.add(built)
            elif call == "satisfiable":
                e["extra"] = op[2]
                e["ret"] = [[vbits(bool(sol.satisfiable(extra_constraints=[B(c) for c in op[2]], **xk)), None)]]
            elif call == "eval":
                e["e"], e["n"], e["extra"] = op[2], op[3], op[4]
                a = B(op[2])
                e["conc"] = not a.symbolic
                r = sol.eval(a, op[3], extra_constraints=[B(c) for c in op[4]], **xk)
                e["ret"] = [[vbits(v, a)] for v in r]
            elif call == "batch_eval":
                e["es"], e["n"], e["extra"] = op[2], op[3], op[4]
                aa = [B(x) for x in op[2]]
                e["conc"] = all(not a.symbolic for a in aa)
                r = sol.batch_eval(aa, op[3], extra_constraints=[B(c) for c in op[4]], **xk)
                e["ret"] = [[vbits(v, a) for v, a in zip(tup, aa)] for tup in r]
            elif call in ("min", "max"):
                e["e"], e["signed"], e["extra"] = op[2], bool(op[3]), op[4]
                a = B(op[2])
                e["conc"] = not a.symbolic
                r = getattr(sol, call)(a, extra_constraints=[B(c) for c in op[4]], signed=bool(op[3]), **xk)
                e["ret"] = [[vbits(r, a)]]
            elif call == "solution":
                e["e"], e["v"], e["extra"] = op[2], op[3], op[4]
                a = B(op[2])
                va = B(op[3])
                e["conc"] = not a.symbolic
                v = va if (len(op) > 5 and op[5]) else TM.unbits(op[3][2])
                r = sol.solution(a, v, extra_constraints=[B(c) for c in op[4]], **xk)
                e["ret"] = [[vbits(bool(r), None)]]
            elif call in ("is_true", "is_false"):
                e["e"], e["extra"] = op[2], op[3]
                a = B(op[2])
                r = getattr(sol, call)(a, extra_constraints=[B(c) for c in op[3]], **xk)
                e["ret"] = [[vbits(bool(r), None)]]
            elif call == "simplify":
                sol.simplify()
                # which annotations the solver's constraints carry afterwards (leaf or inner): Z3-side simplification
                # re-attaches the annotations recorded for a variable name
                tags = set()
                for c in getattr(sol, "constraints", []) or []:
                    for n_ in [c, *c.children_asts()]:
                        for a_ in n_.annotations:
                            tags.add(type(a_).__name__ + ":" + str(getattr(a_, "k", "")))
                e["anntags"] = sorted(tags)
            elif call == "partition":
                # projection of a composite's refined state: which child is registered under which names, and the
                # variables of that child (spec/SolverComposite.tla: reg, VarsOf(cs)); observation only
                kidsd = {}
                for nm, ch in getattr(sol, "_solvers", {}).items():
                    kidsd.setdefault(id(ch), [ch, []])[1].append(nm)
                e["parts"] = sorted([sorted(nms), sorted(ch.variables)] for ch, nms in kidsd.values())
                e["flag"] = bool(getattr(sol, "_unsat", False))
            elif call == "replstate":
                # projection of a ReplacementFrontend's refined state (spec/SolverReplacement.tla: repl): which of the
                # candidate key terms has a replacement, and which one; observation only
                rp = getattr(sol, "_replacements", {})
                obs = []
                for kt in cfg.get("repl_keys", []):
                    ka = B(kt)
                    if ka.hash() in rp:
                        obs.append([kt, TM.ser(rp[ka.hash()])])
                e["repl"] = sorted(obs, key=json.dumps)
                e["nrepl"] = len(rp)
            elif call == "downsize":
                sol.downsize()
            elif call == "branch":
                S[nid] = sol.branch()
                meta[nid] = meta[s]
                e["new"] = [nid]
                nid += 1
            elif call == "pickle":
                S[nid] = pickle.loads(pickle.dumps(sol, -1))
                meta[nid] = meta[s]
                e["new"] = [nid]
                nid += 1
            elif call == "merge":
                others = [S[o] for o in op[2]]
                e["others"], e["cs"], e["anc"] = op[2], op[3], op[4]
                anc = S[op[4]] if op[4] >= 0 else None
                conds = [B(c) for c in op[3]]
                e["cfalse"] = any(c.op == "BoolV" and c.args[0] is False for c in conds)
                _, mg = sol.merge(others, conds, common_ancestor=anc)
                S[nid] = mg
                meta[nid] = meta[s]
                e["new"] = [nid]
                nid += 1
            elif call == "combine":
                e["others"] = op[2]
                S[nid] = sol.combine([S[o] for o in op[2]])
                meta[nid] = meta[s]
                e["new"] = [nid]
                nid += 1
            elif call == "split":
                e["scons"] = [TM.ser(c) for c in sol.constraints]
                parts = sol.split()
                for p in parts:
                    S[part_id] = p
                    meta[part_id] = ("SolverCompositeChild" if cls == "SolverComposite" else cls, kw)
                    e["new"].append(part_id)
                    e["groups"].append([TM.ser(c) for c in p.constraints])
                    part_id += 1
            elif call == "unsat_core":
                # every constraint the solver (or, for a composite, one of its children) has held so far, including
                # the simplified forms simplify() put in place of added ones: those are "tracked constraints" too
                snapshot_held(s, sol)
                e["scons"] = list(ever_held[s].values())
                xc = op[2] if len(op) > 2 else []
                e["extra"] = xc
                core = sol.unsat_core(extra_constraints=[B(c) for c in xc]) if xc else sol.unsat_core()
                e["rets"] = [TM.ser(c, ann=bool(c.annotations)) if isinstance(c, claripy.ast.Base)
                             else ["NOTAST", type(c).__name__, [], []] for c in core]
            elif call == "add_replacement":
                e["e"], e["v"] = op[2], op[3]
                sol.add_replacement(B(op[2]), B(op[3]), invalidate_cache=bool(op[4]) if len(op) > 4 else True)
            elif call == "remove_replacements":
                e["e"] = op[2]
                sol.remove_replacements({B(op[2]).hash()})
            elif call == "drop":
                del S[s]
                del sol
                import gc
                gc.collect()
            else:
                raise ValueError("unknown op " + call)
        except claripy.errors.UnsatError:
            e["exc"], e["excClaripy"] = "UnsatError", True
        except claripy.errors.ClaripyError as ex:
            e["exc"], e["excClaripy"] = type(ex).__name__, True
        except Exception as ex:  # noqa: BLE001
            e["exc"] = type(ex).__name__
            if os.environ.get("VERIF_TB"):
                import traceback; traceback.print_exc()
        finally:
            if kw.get("track") and s in S:
                snapshot_held(s, S[s])
                for nn in e["new"]:
                    if nn in S:
                        ever_held.setdefault(nn, {}).update(ever_held.get(s, {}))
            if fault:
                fired, cnt = Fault.disarm()
                e["fired"] = fired
                e["checks"] = cnt
                fault = None
        events.append(e)
    meta["__ever_held__"] = ever_held          # for the probe battery (continue_history): cores are judged against these
    return {"tid": tid, "vars": vars_, "maxid": max([nid, 1] + list(S)), "ev": events}, S, meta


def main():
    job = json.load(open(sys.argv[1]))
    rng = random.Random(job.get("seed", 0))
    out = ShardWriter(sys.argv[2], job.get("shard", 400))
    n_calls = 0
    drift = {"checked": 0, "drift": 0, "finer": 0, "samples": []}
    if job["mode"] == "random":
        A = get_alphabet(job)
        for i in range(job["n"]):
            cls, kw = rng.choice(job["classes"])
            H = random_history(rng, A, cls, kw, rng.randint(2, job["len"]), multi=job.get("multi", False),
                               pick=job.get("pickle", False), unsat_core=bool(kw.get("track")),
                               foldable=job.get("foldable", False), branchy=job.get("branchy", False),
                               truthy=job.get("truthy", False), saa=job.get("saa", False))
            if job.get("faults") and len(H) > 2:
                # arm one fault before a random query
                pos = rng.randrange(1, len(H))
                H.insert(pos, ["fault", rng.randint(1, job.get("maxk", 6)),
                               rng.choice(["timeout", "max. resource limit exceeded", "unknown-other"])])
            tr, S, meta = run_history(H, A["vars"], f"{job.get('tag', 'r')}-{job.get('seed', 0)}-{i}", job.get("cfg", {}))
            if job.get("probe", True):
                # probes run on the same objects; append their events to the same trace
                PH = probe_battery(A, sorted(S), rng.randrange(3)) + core_probes(S, meta)
                tr2 = continue_history(PH, S, meta, A["vars"], job.get("cfg", {}))
                tr["ev"].extend(tr2)
            pass
            n_calls += len(tr["ev"])
            out.write(tr, nontrivial_key=[H], outcome="trace", sample={"history": H[:8]})
    elif job["mode"] == "list":
        A = get_alphabet(job)
        for i, H in enumerate(job["histories"]):
            tr, S, meta = run_history(H, A["vars"], f"{job.get('tag', 'l')}-{i}", job.get("cfg", {}))
            if job.get("probe", True):
                tr["ev"].extend(continue_history(probe_battery(A, sorted(S), i % 3) + core_probes(S, meta), S, meta,
                                                 A["vars"], job.get("cfg", {})))
            pass
            n_calls += len(tr["ev"])
            if job.get("expect_parts"):
                # refined-state conformance: the partition the model (SolverComposite.tla) predicts for this history
                wants = job["expect_parts"][i]
                gots = [e for e in tr["ev"] if e["call"] == "partition"]
                if isinstance(wants, dict):
                    wants = [wants]
                if len(gots) == len(wants) and all(g["exc"] == "" for g in gots):
                    drift["checked"] += 1
                    bad_ix = [j for j, (g, w) in enumerate(zip(gots, wants)) if g["parts"] != w["parts"] or g["flag"] != w["flag"]]
                    got = gots[bad_ix[0]] if bad_ix else gots[0]
                    want = wants[bad_ix[0]] if bad_ix else wants[0]
                    if bad_ix:
                        # the model does not rewrite constraints; Z3's simplification does (x == 1 substituted into
                        # y == x, ...), which can only make the real partition FINER than the model's
                        finer = all(gots[j]["flag"] == wants[j]["flag"] and all(
                            any(set(g[0]) <= set(w[0]) and set(g[1]) <= set(w[1]) for w in wants[j]["parts"])
                            for g in gots[j]["parts"]) for j in bad_ix)
                        drift["finer" if finer else "drift"] += 1
                        if not finer and len(drift["samples"]) < 3:
                            drift["samples"].append({"history": H, "model": want, "code": {"parts": got["parts"], "flag": got["flag"]}})
            if job.get("expect_repl"):
                want = job["expect_repl"][i]
                got = next((e for e in tr["ev"] if e["call"] == "replstate"), None)
                if got is not None and got["exc"] == "":
                    drift["checked"] += 1
                    if json.dumps(got["repl"]) != json.dumps(want["repl"]) or got["nrepl"] != len(want["repl"]):
                        drift["drift"] += 1
                        if len(drift["samples"]) < 3:
                            drift["samples"].append({"history": H, "model": want, "code": {"repl": got["repl"], "n": got["nrepl"]}})
            out.write(tr, nontrivial_key=[H], outcome="trace", sample={"history": H[:8]})
    extra = {"calls": n_calls}
    if drift["checked"]:
        extra.update({"partition_checked": drift["checked"], "partition_drift": drift["drift"],
                      "partition_finer": drift["finer"], "drift_samples": drift["samples"]})
    out.close(extra)


def core_probes(S, meta):
    return [["unsat_core", s] for s in sorted(S) if meta[s][1].get("track")]


def continue_history(PH, S, meta, vars_, cfg):
    """run further ops on existing solver objects (used for the probe battery)"""
    # reuse run_history's machinery by temporarily wrapping: simple re-implementation for queries only
    import claripy
    events = []
    cache = {}
    for op in PH:
        call, s = op[0], op[1]
        if s not in S:
            continue
        sol = S[s]
        cls, kw = meta[s]
        exact = cfg.get("hybrid_exact") if cls == "SolverHybrid" else None
        xk = {} if exact is None else {"exact": exact}
        e = {"call": call, "s": s, "new": [], "e": DUMMY, "es": [], "n": 0, "v": DUMMY, "signed": False,
             "extra": [], "cs": [], "others": [], "anc": -1, "ret": [], "rets": [], "groups": [], "scons": [],
             "exc": "", "excClaripy": False, "mode": mode_of(cls, kw, exact), "fault": 0, "fired": False,
             "conc": False, "probe": True, "cls": cls, "csb": []}
        B = lambda t: TM.build(t, "std", cache)  # noqa: E731
        try:
            if call == "satisfiable":
                e["ret"] = [[vbits(bool(sol.satisfiable(**xk)), None)]]
            elif call == "eval":
                e["e"], e["n"] = op[2], op[3]
                a = B(op[2])
                e["ret"] = [[vbits(v, a)] for v in sol.eval(a, op[3], **xk)]
            elif call == "batch_eval":
                e["es"], e["n"] = op[2], op[3]
                aa = [B(t) for t in op[2]]
                e["ret"] = [[vbits(v, a) for v, a in zip(tup, aa)] for tup in sol.batch_eval(aa, op[3], **xk)]
            elif call in ("min", "max"):
                e["e"], e["signed"] = op[2], bool(op[3])
                a = B(op[2])
                e["ret"] = [[vbits(getattr(sol, call)(a, signed=bool(op[3]), **xk), a)]]
            elif call == "solution":
                e["e"], e["v"] = op[2], op[3]
                e["ret"] = [[vbits(bool(sol.solution(B(op[2]), B(op[3]), **xk)), None)]]
            elif call in ("is_true", "is_false"):
                e["e"] = op[2]
                e["ret"] = [[vbits(bool(getattr(sol, call)(B(op[2]), **xk)), None)]]
            elif call == "unsat_core":
                # every constraint this solver (or a child of a composite) has held so far, as in run_history
                eh = meta.setdefault("__ever_held__", {}).setdefault(s, {})
                held = list(sol.constraints)
                for ch in getattr(sol, "_solver_list", []) or []:
                    held.extend(getattr(ch, "constraints", []))
                for c in held:
                    if c.hash() not in eh:
                        eh[c.hash()] = TM.ser(c, ann=bool(c.annotations))
                e["scons"] = list(eh.values())
                core = sol.unsat_core()
                e["rets"] = [TM.ser(c, ann=bool(c.annotations)) if isinstance(c, claripy.ast.Base)
                             else ["NOTAST", type(c).__name__, [], []] for c in core]
        except claripy.errors.UnsatError:
            e["exc"], e["excClaripy"] = "UnsatError", True
        except claripy.errors.ClaripyError as ex:
            e["exc"], e["excClaripy"] = type(ex).__name__, True
        except Exception as ex:  # noqa: BLE001
            e["exc"] = type(ex).__name__
            if os.environ.get("VERIF_TB"):
                import traceback; traceback.print_exc()
        if kw.get("track"):
            # probes simplify too (min / max / eval): what the solver holds afterwards counts as held
            try:
                eh = meta.setdefault("__ever_held__", {}).setdefault(s, {})
                held = list(sol.constraints)
                for ch in getattr(sol, "_solver_list", []) or []:
                    held.extend(getattr(ch, "constraints", []))
                for c in held:
                    if c.hash() not in eh:
                        eh[c.hash()] = TM.ser(c, ann=bool(c.annotations))
            except Exception:  # noqa: BLE001
                pass
        events.append(e)
    return events


if __name__ == "__main__":
    main()
