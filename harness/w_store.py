"""Worker for C06 (hash-consing): replays behaviours exported by TLC from spec/ExprStore.tla on the real claripy
and records, after every request, the identity partition and the structural key of every live object; also builds
pools of expressions from the harness/gen_expr.py streams.  Output is validated by spec/TraceStore.tla.

usage: python -m harness.w_store job.json outprefix
job = {"mode": "replay", "fam": name, "al": {"K": [...], "A": [...], "V": [...]}, "hists": [[entry, ...], ...]}
    | {"mode": "canon",  "fam": name, "al": {...}}
    | {"mode": "pool", "gen": "exh"|"rules"|"rand", ..., "max": 2000}

A structural key is  [op, name, ints, args, anns, len]  (spec/ExprStore.tla); annotations IN ORDER, as contents.
A request (entry) is [act, kind, i, j1, j2, j]: act "B" build al.K[i], "V" BVV(al.V[i]), "A" annotate the handle
labelled (kind, i, j1, j2) with al.A[j], "D" drop that handle.  Indices are 1-based (TLA+).
"""
from __future__ import annotations

import gc
import json
import random
import sys
import weakref

from . import gen_expr as G
from . import term as TM
from .wlib import ShardWriter


# ----------------------------------------------------------------------------------------------
# annotation classes of the alphabets (module top level: picklable).  Equality is by content for all of them,
# the hash functions are what the alphabets are about.
# ----------------------------------------------------------------------------------------------
import claripy  # noqa: E402
from claripy.annotation import Annotation, RegionAnnotation, StridedIntervalAnnotation  # noqa: E402


class HVal(Annotation):
    """user annotation: __hash__ is Python's hash of the integer content"""

    def __init__(self, k):
        self.k = k

    def __hash__(self):
        return hash(self.k)

    def __eq__(self, o):
        return type(o) is HVal and type(o.k) is type(self.k) and o.k == self.k

    def __repr__(self):
        return f"HVal({self.k})"


class HConst(Annotation):
    """user annotation with a constant __hash__ (legal Python: equal objects hash equal)"""

    def __init__(self, k):
        self.k = k

    def __hash__(self):
        return 7

    def __eq__(self, o):
        return type(o) is HConst and o.k == self.k

    def __repr__(self):
        return f"HConst({self.k})"


def _scalar(s):
    """field string -> the Python scalar it names (alphabet 'mrk': None / True / False next to plain integers)"""
    return {"None": None, "True": True, "False": False}[s] if s in ("None", "True", "False") else int(s)


def mk_ann(a):
    """annotation content value [tag, [field strings]] -> a FRESH annotation object"""
    tag, f = a
    if tag == "SI":
        return StridedIntervalAnnotation(int(f[0]), int(f[1]), int(f[2]))
    if tag == "REG":
        return RegionAnnotation(f[0], int(f[1]))
    if tag == "HVal":
        return HVal(_scalar(f[0]))
    if tag == "HConst":
        return HConst(int(f[0]))
    raise ValueError("annotation tag " + tag)


# ----------------------------------------------------------------------------------------------
# structural key of a real object
# ----------------------------------------------------------------------------------------------
def kser(a, memo=None):
    """claripy AST -> key [op, name, ints, args, anns (in order, contents), len]"""
    if memo is None:
        memo = {}
    h = id(a)
    if h in memo:
        return memo[h]
    if a.op in ("BVS", "BVV", "BoolS", "BoolV", "FPS", "FPV", "StringS", "StringV"):
        t = TM.ser(a)
    else:
        ints, names, args = [], [], []
        for x in a.args:
            if isinstance(x, claripy.ast.Base):
                args.append(kser(x, memo))
            elif isinstance(x, bool):
                ints.append(int(x))
            elif isinstance(x, int):
                ints.append(x)
            elif isinstance(x, claripy.fp.RM):
                names.append(x.name)
            elif isinstance(x, claripy.fp.FSort):
                names.append(x.name)
                ints.extend([x.exp, x.mantissa])
            else:
                names.append(repr(x))
        t = [a.op, "|".join(names), ints, args]
    k = [t[0], t[1], t[2], t[3], [TM.ann_ser(x) for x in a.annotations], a.length if a.length is not None else 0]
    memo[h] = k
    return k


# ----------------------------------------------------------------------------------------------
# building a key through the API
# ----------------------------------------------------------------------------------------------
def build_key(k):
    """Build key k bottom-up.  A node whose len is the natural width of (op, args) goes through the public
    constructor/operator; a node with another len goes through the AST class constructor BV(op, args, length=len)
    (the entry point every public constructor funnels into; make_like/replace_dict produce such nodes).
    Annotated nodes: the un-annotated node first, then .annotate(*anns) -- an SI-annotated symbol through claripy.SI()."""
    op, name, ints, args, anns, ln = k
    if op == "BVS" and len(anns) == 1 and anns[0][0] == "SI":
        f = anns[0][1]
        return claripy.SI(name, ints[0], lower_bound=int(f[1]), upper_bound=int(f[2]), stride=int(f[0]),
                          explicit_name=True)
    if op == "BVS":
        r = claripy.BVS(name, ints[0], explicit_name=True)
    elif op == "BVV" and not ints and ln:
        r = claripy.ESI(ln)                      # BVV(None, ln): the value slot holds None
    elif op == "BVV":
        r = claripy.BVV(TM.unbits(ints), len(ints))
    elif op == "BoolS":
        r = claripy.BoolS(name, explicit_name=True)
    elif op == "BoolV":
        r = claripy.BoolV(bool(ints[0]))
    else:
        a = [build_key(x) for x in args]
        t4 = [op, name, ints, [x[:4] for x in args]]
        if TM.width([op, name, ints, [_t4(x) for x in args]]) == ln:
            r = TM.build_std(op, t4, a)
        else:
            ctor_args = tuple(ints) + tuple(a) if op in ("Extract", "ZeroExt", "SignExt") else tuple(a)
            r = claripy.ast.BV(op, ctor_args, length=ln) if ln else claripy.ast.Bool(op, ctor_args)
    if anns:
        r = r.annotate(*[mk_ann(x) for x in anns])
    return r


def _t4(k):
    return [k[0], k[1], k[2], [_t4(x) for x in k[3]]]


# ----------------------------------------------------------------------------------------------
# replay of one exported behaviour
# ----------------------------------------------------------------------------------------------
class Serial:
    """small stable serial numbers for object identities (id() may be reused after an object dies)"""

    def __init__(self):
        self.m = {}
        self.n = 0

    def of(self, o):
        e = self.m.get(id(o))
        if e is not None and e[0]() is o:
            return e[1]
        self.n += 1
        self.m[id(o)] = (weakref.ref(o), self.n)
        return self.n


def occurrences(handles, serial):
    """every occurrence of an object reachable from the handles: (identity serial, key); roots first per handle.
    returns (occ list, index of the root occurrence of each handle)"""
    occ, roots = [], []
    memo = {}
    for _, obj in handles:
        roots.append(len(occ) + 1)
        stack = [obj]
        while stack:
            o = stack.pop()
            occ.append({"id": serial.of(o), "k": kser(o, memo)})
            stack.extend(x for x in reversed(o.args) if isinstance(x, claripy.ast.Base))
    return occ, roots


def lab_add(l, j):
    return (l[0], l[1], j, 0) if l[2] == 0 else (l[0], l[1], l[2], j)


def replay(al, hist, tix):
    handles = []      # [(label, object)] strong references: exactly the model's `ref`
    serial = Serial()
    steps = []
    prev_occ, prev_roots = [], []
    for n, e in enumerate(hist):
        act, kind, i, j1, j2, j = e
        lab = (kind, i, j1, j2)
        st = {"e": e, "tgt": 0, "ret": 0, "out": "ok", "occ": [], "hs": []}
        new = None
        try:
            if act == "B":
                new = (lab, build_key(al["K"][i - 1]))
            elif act == "V":
                k = al["V"][i - 1]
                v, w = TM.unbits(k[2]), len(k[2])
                if k[4]:
                    new = (lab, claripy.BVV(v, w, annotations=tuple(mk_ann(x) for x in k[4])))
                else:
                    new = (lab, claripy.BVV(v, w))
            elif act == "A":
                hx = next(ix for ix, (l, _) in enumerate(handles) if l == lab)
                tgt = handles[hx][1]
                # the target's occurrence in the previous observation (roots are listed first per handle)
                st["tgt"] = _root_index(prev_roots, hx)
                a = mk_ann(al["A"][j - 1])
                r = tgt.annotate(a) if (tix + n) % 2 == 0 else tgt.append_annotation(a)
                new = (lab_add(lab, j), r)
                del tgt, r
            elif act == "D":
                handles = [(l, o) for (l, o) in handles if l != lab]
                gc.collect()
            else:
                raise ValueError("act " + act)
        except Exception as ex:  # noqa: BLE001
            st["out"] = "PyError:" + type(ex).__name__
        if new is not None:
            handles.append(new)
            new = None
        occ, roots = occurrences(handles, serial)
        st["occ"] = occ
        st["hs"] = [[l[0], l[1], l[2], l[3], roots[ix]] for ix, (l, _) in enumerate(handles)]
        if act in ("B", "V", "A") and st["out"] == "ok":
            st["ret"] = roots[-1]
        steps.append(st)
        prev_occ, prev_roots = occ, roots  # noqa: F841
        if st["out"] != "ok":
            break
    handles.clear()
    gc.collect()
    return steps


def _root_index(roots, hx):
    return roots[hx]


BASE = [None]


def baseline():
    return len(claripy.ast.Base._hash_cache), len(claripy.ast.bv._bvv_cache)


# ----------------------------------------------------------------------------------------------
# pools from the gen_expr streams
# ----------------------------------------------------------------------------------------------
def gen_terms(job, rng):
    g = job["gen"]
    if g == "exh":
        W = job["W"]
        if job.get("depth", 2) == 1:
            yield from G.d1_bv(W)
            yield from G.d1_bool(W)
        else:
            yield from G.d2(W)
    elif g == "rules":
        yield from G.rule_instances(rng, tuple(job.get("widths", (1, 2, 3, 4, 8, 16, 32, 64))), job.get("per", 2))
    elif g == "rand":
        for _ in range(job["n"]):
            W = rng.choice(job.get("widths", [1, 2, 3, 4, 5, 7, 8, 9, 16, 31, 32, 33, 63, 64, 65]))
            yield G.rand_term(rng, W, rng.randint(2, job.get("depth", 5)), want_bool=rng.random() < 0.35)


def reach(roots):
    seen, out = set(), []
    stack = list(roots)
    while stack:
        o = stack.pop()
        if id(o) in seen:
            continue
        seen.add(id(o))
        out.append(o)
        stack.extend(x for x in o.args if isinstance(x, claripy.ast.Base))
    return out


def flush_pool(out, written, built, pix, cache):
    """emit one pool: all distinct live objects with their keys; then rebuild every written term alone in an empty
    store and compare the key of what came back (history independence of the returned structure)"""
    objs = reach(built)
    memo = {}
    nodes = [kser(o, memo) for o in objs]
    res = [kser(o, memo) for o in built]
    del objs, memo
    built.clear()
    cache.clear()
    gc.collect()
    if baseline() != BASE[0]:
        raise RuntimeError("store not empty before the empty-store rebuild: %r %r" % (
            baseline(), [(v.op, v.args, gc.get_referrers(v)[:2]) for v in list(claripy.ast.Base._hash_cache.values())][:6]))
    pairs = []
    for t, r in zip(written, res):
        try:
            o = TM.build(t)
            r0 = kser(o)
            del o
        except Exception as ex:  # noqa: BLE001
            r0 = ["PyError:" + type(ex).__name__, "", [], [], [], 0]
        pairs.append({"w": t, "r": r, "r0": r0})
    ev = {"k": "pool", "pix": pix, "nodes": nodes, "pairs": pairs}
    nt = sum(1 for p in pairs if _t4(p["r"]) != p["w"])
    out.write(ev, outcome="pool", nontrivial_key=["pool", pix, len(nodes)],
              sample={"pool": pix, "nodes": len(nodes), "built": len(pairs), "first": pairs[0] if pairs else None})
    return len(nodes), len(pairs), nt


def run_pools(job, out):
    rng = random.Random(job.get("seed", 0))
    part, nparts = job.get("part", 0), job.get("nparts", 1)
    sample = job.get("sample", 1)
    off = job.get("seed", 0) % sample if sample > 1 else 0
    mx = job.get("max", 2000)
    written, built, cache = [], [], {}
    tot = {"pool_nodes": 0, "pool_built": 0, "pool_rewritten": 0, "pools": 0, "build_errors": 0}
    n = 0
    pix = 0

    def flush():
        nonlocal pix
        if not built:
            return
        a, b, c = flush_pool(out, list(written), built, pix, cache)
        tot["pool_nodes"] += a
        tot["pool_built"] += b
        tot["pool_rewritten"] += c
        tot["pools"] += 1
        pix += 1
        written.clear()
        cache.clear()

    live = 0
    for i, t in enumerate(gen_terms(job, rng)):
        if sample > 1 and i % sample != off:
            continue
        n += 1
        if n % nparts != part:
            continue
        try:
            o = TM.build(t, "std", cache)
        except Exception:  # noqa: BLE001
            tot["build_errors"] += 1
            continue
        written.append(t)
        built.append(o)
        del o
        live += TM.size(t)
        if live >= mx * 2 or len(built) >= mx:
            if len(reach(built)) >= mx or len(built) >= mx:
                flush()
                live = 0
    flush()
    return tot


def main():
    job = json.load(open(sys.argv[1]))
    out = ShardWriter(sys.argv[2], 10 ** 9)
    claripy.true(), claripy.false()       # lazily created singletons: allocate them before the baseline is taken
    gc.collect()
    gc.freeze()          # everything allocated by the imports is permanent: collections during replay stay cheap
    extra = {}
    BASE[0] = baseline()
    if job["mode"] == "pool":
        extra = run_pools(job, out)
    else:
        al = job["al"]
        out.write({"k": "al", "fam": job["fam"], "K": al["K"], "A": al["A"], "V": al["V"]})
        if job["mode"] == "selftest":
            # validator self-test: one genuine recording + copies with ONE recorded field corrupted each; the engine
            # requires TLC to accept the genuine one and to reject every corrupted one with the expected clause
            import copy
            for tix, hist in enumerate(job["hists"]):
                steps = replay(al, hist, tix)
                base = {"k": "trace", "tix": tix, "steps": steps, "expect": "", "what": "genuine"}
                out.write(base)
                last = len(steps) - 1
                ret = steps[last]["ret"]
                c = copy.deepcopy(base)      # the returned object's recorded width
                c["steps"][last]["occ"][ret - 1]["k"][5] += 1
                c.update(expect="faithful", what="width of the returned object's key + 1")
                out.write(c)
                c = copy.deepcopy(base)      # the returned object's recorded annotation list
                c["steps"][last]["occ"][ret - 1]["k"][4].append(["HVal", ["77"]])
                c.update(expect="faithful", what="annotation appended to the returned object's key")
                out.write(c)
                ids = sorted({o["id"] for o in steps[last]["occ"]})
                if len(ids) > 1:
                    c = copy.deepcopy(base)  # identity partition: two different objects recorded with one id
                    for o in c["steps"][last]["occ"]:
                        if o["id"] == ids[1]:
                            o["id"] = ids[0]
                    c.update(expect="inj", what="identity class of one object merged into another")
                    out.write(c)
                    c = copy.deepcopy(base)  # ret points at another occurrence
                    other = next(ix for ix, o in enumerate(steps[last]["occ"]) if o["k"] != steps[last]["occ"][ret - 1]["k"])
                    c["steps"][last]["ret"] = other + 1
                    c.update(expect="faithful", what="ret redirected to another occurrence")
                    out.write(c)
                    c = copy.deepcopy(base)  # one object recorded under two identities
                    c["steps"][last]["occ"].append({"id": max(ids) + 1, "k": steps[last]["occ"][0]["k"]})
                    c.update(expect="inj", what="a second identity recorded for an existing key")
                    out.write(c)
        elif job["mode"] == "canon":
            # every buildable key of the alphabet, built alone in an empty store, must come back exactly as written
            # (the alphabets are chosen so that claripy does not rewrite them)
            for kind, seq in (("K", al["K"]), ("V", al["V"])):
                for i, k in enumerate(seq):
                    gc.collect()
                    try:
                        if kind == "K":
                            o = build_key(k)
                        else:
                            o = claripy.BVV(TM.unbits(k[2]), len(k[2]), **({"annotations": tuple(mk_ann(x) for x in k[4])} if k[4] else {}))
                        got, oc = kser(o), "ok"
                        del o
                    except Exception as ex:  # noqa: BLE001
                        got, oc = ["", "", [], [], [], 0], "PyError:" + type(ex).__name__
                    out.write({"k": "canon", "kind": kind, "i": i + 1, "req": k, "got": got, "out": oc}, outcome=oc)
        else:
            b0 = baseline()
            acts = {}
            leaked = 0
            for tix, hist in enumerate(job["hists"]):
                steps = replay(al, hist, tix)
                if baseline() != b0:
                    leaked += 1
                ev = {"k": "trace", "tix": job.get("base", 0) + tix, "steps": steps}
                nt = len({o["id"] for s in steps for o in s["occ"]}) > 1
                for s in steps:
                    acts[s["e"][0]] = acts.get(s["e"][0], 0) + 1
                out.write(ev, outcome="trace", nontrivial_key=hist if nt else None,
                          sample={"fam": job["fam"], "requests": hist, "last_observation": steps[-1] if steps else None})
            extra = {"steps": sum(acts.values()), "leaked": leaked, **{"act_" + k: v for k, v in acts.items()}}
    out.close(extra)


if __name__ == "__main__":
    main()
