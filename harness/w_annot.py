"""Worker for C07 (annotations survive rewriting): builds decorated operation trees through the public API and
records, per construction, the (annotated) arguments and the (annotated) result; explicit claripy.simplify() events;
Solver.simplify() events.  Output is validated by spec/TraceAnnot.tla.

usage: python -m harness.w_annot job.json outprefix
job = {"gen": "dec", "W": 2, "depth": 1|2, "part": k, "nparts": n, "sample": s, "seed": ...}
    | {"gen": "short", "seed": ...} | {"gen": "simp", ...} | {"gen": "solver", "seed": ...}

Terms are the 5-slot terms of harness/term.py: [op, name, ints, args, anns], anns = [[ClassName, [str(k)]], ...].
"""
from __future__ import annotations

import itertools
import json
import random
import sys

import claripy
from claripy.annotation import Annotation, SimplificationAvoidanceAnnotation

from . import gen_expr as G
from . import term as TM
from .wlib import ShardWriter


# ----------------------------------------------------------------------------------------------
# test annotations (module top level: picklable).  Equality and hash by (class, k).
# ----------------------------------------------------------------------------------------------
class _K(Annotation):
    def __init__(self, k):
        self.k = k

    def __hash__(self):
        return hash((type(self).__name__, self.k))

    def __eq__(self, o):
        return type(o) is type(self) and o.k == self.k

    def __repr__(self):
        return f"{type(self).__name__}({self.k})"


class EA(_K):
    """eliminatable (the default of claripy.Annotation)"""


class UA(_K):
    """non-eliminatable, non-relocatable"""

    @property
    def eliminatable(self):
        return False

    @property
    def relocatable(self):
        return False


class RA(_K):
    """relocatable, relocate() returns self (the default implementation)"""

    @property
    def eliminatable(self):
        return False

    @property
    def relocatable(self):
        return True


class RI(RA):
    """the image of an RT annotation under relocate()"""


class RT(RA):
    """relocatable, relocate() returns a tagged copy RI(k): the spec can see that relocate() was called"""

    def relocate(self, src, dst):
        return RI(self.k)


class SA(SimplificationAvoidanceAnnotation):
    """a user subclass of SimplificationAvoidanceAnnotation"""

    def __init__(self, k):
        self.k = k

    def __hash__(self):
        return hash(("SA", self.k))

    def __eq__(self, o):
        return type(o) is SA and o.k == self.k


CLS = {"EA": EA, "UA": UA, "RA": RA, "RT": RT, "RI": RI, "SA": SA}


def mk(a):
    if a[0] == "SimplificationAvoidanceAnnotation":
        return SimplificationAvoidanceAnnotation()
    return CLS[a[0]](int(a[1][0]))


# decoration variants: every non-empty subset of {E, U, R}, R in both flavours
VARIANTS = [("EA",), ("UA",), ("RA",), ("RT",), ("EA", "UA"), ("EA", "RA"), ("EA", "RT"), ("UA", "RA"), ("UA", "RT"),
            ("EA", "UA", "RA"), ("EA", "UA", "RT")]


# ----------------------------------------------------------------------------------------------
# decorated terms
# ----------------------------------------------------------------------------------------------
def paths(t, p=()):
    """paths of all proper sub-terms"""
    for i, a in enumerate(t[3]):
        q = (*p, i)
        yield q
        yield from paths(a, q)


def sub(t, p):
    for i in p:
        t = t[3][i]
    return t


def decorate(t, where, p=()):
    """where: {path: [annotations]} -> 5-slot term"""
    return [t[0], t[1], t[2], [decorate(a, where, (*p, i)) for i, a in enumerate(t[3])], where.get(p, [])]


def variants(t):
    """decorated versions of the written term t (the root is the construction under test and stays bare):
    (a) all occurrences of one distinct sub-term decorated, (a') one occurrence only when it occurs more than once,
    (b) every sub-term decorated; the annotation id is the index of the sub-term's structural class, so that equal
    sub-terms are the same node and every distinct decorated node has its own id"""
    ps = list(paths(t))
    classes = {}
    for p in ps:
        classes.setdefault(TM.key(sub(t, p)), []).append(p)
    cid = {k: i + 1 for i, k in enumerate(classes)}
    for v in VARIANTS:
        for k, occ in classes.items():
            yield decorate(t, {p: [[c, [str(cid[k])]] for c in v] for p in occ})
            if len(occ) > 1:
                for p in occ:
                    yield decorate(t, {p: [[c, [str(cid[k])]] for c in v]})
        if len(classes) > 1:
            yield decorate(t, {p: [[c, [str(cid[TM.key(sub(t, p))])]] for c in v] for p in ps})


def build_dec(t, cache):
    """decorated term -> claripy AST: sub-terms through the public operators, then .annotate(...)"""
    k = json.dumps(t)
    if k in cache:
        return cache[k]
    if not t[3]:
        r = TM.build(t[:4])
    else:
        a = [build_dec(x, cache) for x in t[3]]
        r = TM.build_std(t[0], t, a)
    if len(t) > 4 and t[4]:
        r = r.annotate(*[mk(x) for x in t[4]])
    cache[k] = r
    return r


SIMP_BIN = {"__add__", "__sub__", "__mul__", "__and__", "__or__", "__xor__", "__lshift__", "__rshift__", "LShR"}
SIMP_OTHER = {"__eq__", "__ne__", "UGE", "__invert__", "If", "Extract", "ZeroExt", "SignExt", "Concat", "And", "Or",
              "Not", "Reverse"}


def all_const(t):
    return all(x[0] in ("BVV", "BoolV") for x in leaves(t))


def leaves(t):
    if not t[3]:
        yield t
    for a in t[3]:
        yield from leaves(a)


def wanted(t):
    """operators that have a construction-time simplifier, If, and concrete folds"""
    if all_const(t):
        return True
    return t[0] in SIMP_BIN or t[0] in SIMP_OTHER


def base_terms(job, rng):
    g = job["gen"]
    W = job.get("W", 2)
    if g == "dec" and job.get("depth", 1) == 1:
        for t in itertools.chain(G.d1_bv(W), G.d1_bool(W)):
            if wanted(t):
                yield t
    elif g == "dec":
        for t in G.d2(W):
            if wanted(t) and all(wanted(a) for a in t[3] if a[3]):
                yield t
    elif g == "short":
        yield from shortcuts()
        yield from G.rule_instances(rng, (2, 8), 1)
    elif g == "list":           # already decorated trees (replay)
        yield from job["terms"]


def shortcuts():
    out = []
    for W in (2, 8):
        x, y = TM.BVS("x", W), TM.BVS("y", W)
        c, d = TM.BoolS("c"), TM.BoolS("d")
        T, F = TM.BoolV(True), TM.BoolV(False)
        z, one, ones, k = TM.BVV(0, W), TM.BVV(1, W), TM.BVV((1 << W) - 1, W), TM.BVV(2, W)
        t = TM.T
        out += [t("If", T, x, k), t("If", F, k, x), t("If", T, x, y), t("If", F, x, y), t("If", c, x, x),
                t("If", c, T, F), t("If", c, F, T), t("If", c, t("If", c, x, y), k), t("If", c, k, t("If", c, x, y)),
                t("If", c, t("If", t("Not", c), x, y), k), t("If", c, k, t("If", t("Not", c), x, y)),
                t("If", T, c, d), t("If", F, c, d), t("If", c, d, d)]
        for op in ("__add__", "__sub__", "__xor__", "__or__", "__lshift__", "__rshift__", "LShR"):
            out += [t(op, x, z)]
        for op in ("__add__", "__xor__", "__or__", "__and__", "__mul__"):
            out += [t(op, z, x), t(op, x, x), t(op, x, ones), t(op, ones, x), t(op, x, one), t(op, one, x)]
        out += [t("__and__", x, z), t("__mul__", x, z), t("__sub__", x, x), t("__xor__", x, y), t("__eq__", x, x),
                t("__ne__", x, x), t("__eq__", x, y), t("__invert__", t("__invert__", x)), t("__neg__", t("__neg__", x)),
                t("Not", t("Not", c)), t("And", c, T), t("And", T, c), t("And", c, F), t("Or", c, T), t("Or", c, F),
                t("Or", F, c), t("And", c, c), t("Or", c, c), t("And", c, t("Not", c)), t("Or", c, t("Not", c)),
                t("__eq__", c, T), t("__eq__", c, F), t("__ne__", c, T), t("__eq__", T, c),
                t("__eq__", t("If", c, one, z), one), t("__eq__", t("If", c, one, z), z),
                t("__ne__", t("If", c, one, z), z),
                t("Extract", t("Concat", x, y), ints=(2 * W - 1, W)), t("Extract", t("Concat", x, y), ints=(W - 1, 0)),
                t("Extract", t("Concat", x, y), ints=(W, W - 1)), t("Extract", x, ints=(W - 1, 0)),
                t("Extract", t("ZeroExt", x, ints=(W,)), ints=(W - 1, 0)),
                t("Extract", t("SignExt", x, ints=(W,)), ints=(W - 1, 0)),
                t("Extract", t("ZeroExt", x, ints=(W,)), ints=(2 * W - 1, W)),
                t("Extract", t("Extract", x, ints=(W - 1, 0)), ints=(0, 0)),
                t("ZeroExt", x, ints=(0,)), t("SignExt", x, ints=(0,)),
                t("Concat", t("Extract", x, ints=(W - 1, 1)), t("Extract", x, ints=(0, 0))),
                t("Concat", z, one), t("Concat", x, z), t("ZeroExt", z, ints=(1,)),
                t("__add__", t("__add__", x, one), k), t("__add__", t("__add__", x, y), k),
                t("__add__", k, t("__add__", x, one)), t("__sub__", t("__add__", x, one), k),
                t("__sub__", t("__sub__", x, one), k), t("__add__", t("__sub__", x, one), k),
                t("__mul__", t("__mul__", x, k), k), t("__and__", t("__and__", x, k), one),
                t("__or__", t("__or__", x, k), one), t("__xor__", t("__xor__", x, k), one),
                t("__xor__", t("__xor__", x, y), y), t("And", t("And", c, d), c), t("Or", t("Or", c, d), d),
                t("__lshift__", t("__lshift__", x, one), one), t("__and__", x, t("__invert__", x)),
                t("__add__", one, k), t("__add__", t("__add__", one, k), k), t("__eq__", one, k), t("__invert__", k),
                t("If", T, one, k), t("Extract", k, ints=(0, 0)), t("Concat", one, k)]
        if W == 8:
            out += [t("Reverse", t("Reverse", x)), t("Reverse", k), t("Extract", t("Reverse", x), ints=(7, 0))]
    return out


# ----------------------------------------------------------------------------------------------
# events
# ----------------------------------------------------------------------------------------------
DUMMY = ["BoolV", "", [0], [], []]


def has_ann(t):
    return bool(t[4]) or any(has_ann(a) for a in t[3])


def op_event(dt, cache):
    """construction of the root of the decorated term dt from its (already built, annotated) arguments"""
    try:
        args = [build_dec(a, cache) for a in dt[3]]
    except Exception:  # noqa: BLE001
        return None
    ev = {"k": "op", "w": dt, "args": [TM.ser(a, ann=True) for a in args], "r": DUMMY, "out": "ok"}
    try:
        r = TM.build_std(dt[0], dt, args)
    except Exception as ex:  # noqa: BLE001
        ev["out"] = "PyError:" + type(ex).__name__
        return ev
    ev["r"] = TM.ser(r, ann=True)
    return ev


ROOT_VARIANTS = [[], [["EA", ["90"]]], [["UA", ["91"]]], [["RA", ["92"]]], [["EA", ["90"]], ["UA", ["91"]], ["RT", ["93"]]]]


def simp_events(dt, cache):
    """explicit claripy.simplify(e) for e = the built term with each root decoration"""
    try:
        e0 = build_dec(dt, cache)
    except Exception:  # noqa: BLE001
        return
    for rv in ROOT_VARIANTS:
        try:
            e = e0.annotate(*[mk(a) for a in rv]) if rv else e0
        except Exception:  # noqa: BLE001
            continue
        ev = {"k": "simp", "w": dt, "e": TM.ser(e, ann=True), "s": DUMMY, "out": "ok"}
        try:
            s = claripy.simplify(e)
            ev["s"] = TM.ser(s, ann=True)
        except Exception as ex:  # noqa: BLE001
            ev["out"] = "PyError:" + type(ex).__name__
        yield ev


FRONTENDS = ["Solver", "SolverCacheless", "SolverComposite", "SolverHybrid", "SolverReplacement"]
SA_KINDS = [[], [["SA", ["1"]]], [["SimplificationAvoidanceAnnotation", ["None"]]], [["EA", ["5"]]],
            [["SA", ["2"]], ["EA", ["5"]]]]


def constraint_terms(W=4):
    x, y = TM.BVS("x", W), TM.BVS("y", W)
    c = TM.BoolS("c")
    t = TM.T
    k = lambda v: TM.BVV(v, W)  # noqa: E731
    return [t("UGT", t("__add__", x, k(1)), k(3)), t("ULT", x, k(9)), t("__eq__", t("__and__", x, k(3)), k(1)),
            t("And", t("ULT", x, k(5)), t("UGT", x, k(1))), t("Or", t("__eq__", x, k(1)), t("__eq__", x, k(2))),
            t("__eq__", t("__add__", t("__add__", x, k(1)), k(2)), y), t("__ne__", t("__xor__", x, y), k(0)),
            t("Or", c, t("ULT", y, k(3))), t("Not", t("ULT", x, k(2))), t("ULE", t("__sub__", x, k(0)), k(7)),
            t("SLT", x, y), t("__eq__", t("__mul__", x, k(2)), k(4))]


def solver_events(job, rng):
    CT = constraint_terms()
    n = job.get("n", 60)
    for fe in FRONTENDS:
        for _ in range(n):
            cs = []
            for _ in range(rng.randint(1, 3)):
                t = rng.choice(CT)
                cs.append(decorate(t, {(): rng.choice(SA_KINDS)}))
            ev = {"k": "solver", "frontend": fe, "cs": cs, "before": [], "after": [], "out": "ok"}
            try:
                s = getattr(claripy, fe)()
                cache = {}
                s.add([build_dec(c, cache) for c in cs])
                ev["before"] = [TM.ser(c, ann=True) for c in s.constraints]
                s.simplify()
                ev["after"] = [TM.ser(c, ann=True) for c in s.constraints]
            except Exception as ex:  # noqa: BLE001
                ev["out"] = "PyError:" + type(ex).__name__
            yield ev


def selftest_events():
    """validator self-test: hand-written genuine events (independent of the tree under test) + copies with ONE
    recorded field corrupted each (expect = the clause TLC must report for the copy)"""
    import copy

    def n(op, args=(), anns=(), name="", ints=()):
        return [op, name, list(ints), list(args), [list(a) for a in anns]]

    U1, R2, RI2, RA1, E9 = ["UA", ["1"]], ["RT", ["2"]], ["RI", ["2"]], ["RA", ["1"]], ["EA", ["90"]]
    x, y = n("BVS", name="x", ints=[2]), n("BVS", name="y", ints=[2])
    xu = n("BVS", name="x", ints=[2], anns=[U1])
    z = n("BVV", ints=[0, 0])
    zr = n("BVV", ints=[0, 0], anns=[R2])
    xr = n("BVS", name="x", ints=[2], anns=[RA1])
    s_xy_u = n("__add__", [x, y], [U1])

    def op(w0, args, r, expect="", what="genuine"):
        return {"k": "op", "w": n(w0, args), "args": args, "r": r, "out": "ok", "expect": expect, "what": what}

    # x{U1} + y  ->  add(x{U1}, y)            corrupted: the argument is recorded without its annotation inside r
    yield op("__add__", [xu, y], n("__add__", [xu, y]))
    yield op("__add__", [xu, y], n("__add__", [x, y]), "unelim", "annotation dropped inside the recorded result")
    # x + 0{RT2}  ->  x{RI2}                  corrupted: the image is removed from the top of r
    yield op("__add__", [x, zr], n("BVS", name="x", ints=[2], anns=[RI2]))
    yield op("__add__", [x, zr], x, "reloc", "relocated annotation removed from the top of the recorded result")
    # x{RA1} ^ x{RA1}  ->  0{RA1}
    yield op("__xor__", [xr, xr], n("BVV", ints=[0, 0], anns=[RA1]))
    yield op("__xor__", [xr, xr], z, "reloc", "relocated annotation removed from the top of the recorded result")
    # (x + y){U1} + 0  ->  add((x + y){U1}, 0)   corrupted: the annotation is recorded on the result node instead
    yield op("__add__", [s_xy_u, z], n("__add__", [s_xy_u, z]))
    yield op("__add__", [s_xy_u, z], n("__add__", [x, y, z], [U1]), "unelim-moved", "annotation recorded on another node")
    # simplify((x + 1 + 1){E9, U1})  ->  (x + 2){E9, U1}
    one, two = n("BVV", ints=[1, 0]), n("BVV", ints=[0, 1])
    e = n("__add__", [n("__add__", [x, one]), one], [E9, U1])
    ev = {"k": "simp", "w": DUMMY, "e": e, "s": n("__add__", [x, two], [E9, U1]), "out": "ok", "expect": "", "what": "genuine"}
    yield ev
    c = copy.deepcopy(ev)
    c["s"][4] = c["s"][4][:1]
    c.update(expect="simp-top", what="one top annotation removed from the recorded simplified expression")
    yield c
    # solver: [ (x + 1 < 3){SA1}, y < 2 ]  ->  unchanged
    x4 = n("BVS", name="x", ints=[4])
    con = n("ULT", [n("__add__", [x4, n("BVV", ints=[1, 0, 0, 0])]), n("BVV", ints=[1, 1, 0, 0])], [["SA", ["1"]]])
    oth = n("ULT", [n("BVS", name="y", ints=[4]), n("BVV", ints=[0, 1, 0, 0])])
    ev = {"k": "solver", "frontend": "Solver", "cs": [], "before": [con, oth], "after": [copy.deepcopy(con), copy.deepcopy(oth)], "out": "ok",
          "expect": "", "what": "genuine"}
    yield ev
    c = copy.deepcopy(ev)
    c["after"][0][4] = []
    c.update(expect="avoid", what="annotation removed from the recorded constraint after simplify()")
    yield c


def main():
    job = json.load(open(sys.argv[1]))
    if job["gen"] == "selftest":
        out = ShardWriter(sys.argv[2], 10 ** 9)
        for i, ev in enumerate(selftest_events()):
            ev["ix"] = i
            out.write(ev)
        out.close()
        return
    rng = random.Random(job.get("seed", 0))
    out = ShardWriter(sys.argv[2], job.get("shard", 20000))
    part, nparts = job.get("part", 0), job.get("nparts", 1)
    sample = job.get("sample", 1)
    off = job.get("seed", 0) % sample if sample > 1 else 0
    extra = {"base_terms": 0, "build_errors": 0, "rewritten": 0}
    if job["gen"] == "solver":
        for ev in solver_events(job, rng):
            nt = ev["before"] != ev["after"] or any(c[4] for c in ev["cs"])
            out.write(ev, outcome="solver:" + ev["out"], nontrivial_key=[ev["frontend"], ev["cs"]] if nt else None,
                      sample=ev)
        out.close(extra)
        return
    n = 0
    for i, t in enumerate(base_terms(job, rng)):
        if sample > 1 and i % sample != off:
            continue
        n += 1
        if n % nparts != part:
            continue
        extra["base_terms"] += 1
        cache = {}
        for dt in ([t] if job["gen"] == "list" else variants(t)):
            if job.get("simp"):
                for ev in simp_events(dt, cache):
                    nt = ev["out"] == "ok" and ev["e"] != ev["s"]
                    out.write(ev, outcome="simp:" + ev["out"], nontrivial_key=[ev["e"]] if nt else None,
                              sample={"e": ev["e"], "simplified": ev["s"]})
                continue
            ev = op_event(dt, cache)
            if ev is None:
                extra["build_errors"] += 1
                continue
            # non-trivial: claripy did not simply return op(args)
            nt = ev["out"] == "ok" and (ev["r"][0] != dt[0] or ev["r"][3] != ev["args"])
            extra["rewritten"] += nt
            out.write(ev, outcome="op:" + ev["out"], nontrivial_key=[ev["w"]] if nt else None,
                      sample={"written": ev["w"], "args": ev["args"], "result": ev["r"]})
    out.close(extra)


if __name__ == "__main__":
    main()
