"""C19 - deterministic line-level scheduler for the BackendZ3 GC guard.

Real Python threads run the REAL `claripy.backends.backend_z3._enter_z3/_exit_z3` (directly, or through the real
`condom` wrapper) under `sys.settrace`.  A thread is parked
  * once when it starts                                   (kind "start")
  * at the `call` event of _enter_z3/_exit_z3             (kind "call"; nothing of the call has happened yet)
  * at every `line` event inside those functions (and inside any helper of backend_z3.py they call)   (kind "line")
and only the thread chosen by the scheduler runs, until its next park.  `backend_z3._gc_lock` is replaced by a
scheduler-aware lock (an acquire of a held lock parks the thread as "blocked": a disabled step), `backend_z3.gc` by a
model object holding one flag, `backend_z3.log` by a proxy that counts `error()` calls made inside the guard.  These are
module globals looked up at call time, so nothing in /repo is touched.

ENVIRONMENT steps (thread id n+1 in schedules): the scheduler itself flips the model collector flag - the application
calling gc.enable()/gc.disable() - but only while the guard is idle (no thread inside the guard, nothing in flight), at
most `flips` times per run; `base` remembers what the application last chose.

In flight (per thread) = _enter_z3 has RETURNED and the matching _exit_z3 has not yet been CALLED (resumed from its
`call` park).

Used as a library by the worker entry point at the bottom:  python -m harness.sched job.json out-prefix
  job kinds   replay  : follow model paths (TLC's dumped state graph) step by step, compare projections + enabled sets
              explore : the harness's own exhaustive exploration of line interleavings (re-execution, state-hash pruning)
              run     : execute one schedule (replay files)
Each kind writes  <out>.traces.ndjson  (observable traces for spec/TraceGc.tla) and  <out>.json  (results).
"""
from __future__ import annotations

import _thread
import hashlib
import json
import os
import sys
import threading
import time

ENTER, EXIT = "_enter_z3", "_exit_z3"
ANCHOR_COUNT, ANCHOR_SAVED, ANCHOR_LOCK = "_active_z3_calls", "_gc_was_enabled", "_gc_lock"


class Abort(BaseException):
    """raised inside a parked thread to unwind it when a run is abandoned"""


class Hang(Exception):
    """a step did not come back within the watchdog time"""


class HarnessError(Exception):
    """the code under test lacks an anchor the property names"""


class ModelGC:
    """stands in for the `gc` module inside backend_z3"""

    def __init__(self, flag, real):
        self.flag = bool(flag)
        self._real = real
        self.calls = 0

    def isenabled(self):
        self.calls += 1
        return self.flag

    def enable(self):
        self.calls += 1
        self.flag = True

    def disable(self):
        self.calls += 1
        self.flag = False

    def __getattr__(self, name):
        return getattr(self._real, name)


class ModelLog:
    """stands in for backend_z3.log: error() inside the guard = one underflow report"""

    def __init__(self, run, real):
        self._run = run
        self._real = real

    def error(self, *a, **k):
        r = self._run
        if r.cur is not None and r.depth[r.cur] > 0:
            r.ufl += 1

    def __getattr__(self, name):
        return getattr(self._real, name)


class SLock:
    """scheduler-aware replacement of threading.Lock(): exactly one thread runs at a time, so no inner locking"""

    def __init__(self, run):
        self._run = run
        self.holder = None
        self.acquires = 0

    def acquire(self, blocking=True, timeout=-1):
        r = self._run
        t = r.cur
        while self.holder is not None:
            if not blocking:
                return False
            r.park(t, "blocked")          # disabled step: come back when the scheduler thinks the lock is free
        self.holder = t
        self.acquires += 1
        return True

    def release(self):
        if self.holder is None:
            raise RuntimeError("release unlocked lock")
        self.holder = None

    def locked(self):
        return self.holder is not None

    def __enter__(self):
        return self.acquire()

    def __exit__(self, *a):
        self.release()
        return False


class Env:
    """per-process: the module under test and what a fresh interpreter looked like"""

    def __init__(self):
        import gc as real_gc

        import z3

        import claripy  # noqa: F401
        import claripy.backends.backend_z3 as bz
        self.bz = bz
        self.z3 = z3
        self.real_gc = real_gc
        self.real_log = bz.log
        for a in (ENTER, EXIT, ANCHOR_COUNT, ANCHOR_SAVED, ANCHOR_LOCK, "gc", "condom"):
            if not hasattr(bz, a):
                raise HarnessError("anchor missing in backend_z3: " + a)
        self.file = bz._enter_z3.__code__.co_filename
        self.init = {k: v for k, v in vars(bz).items() if type(v) in (int, bool) and not k.startswith("__")}


def flatten(items):
    """the enters/exits a sequence of condom'd calls must perform.  item = ["C", [items]] | ["R", kind]"""
    out = []

    def body(b):
        for it in b:
            if it[0] == "R":
                return True
            out.append("E")
            r = body(it[1])
            out.append("X")
            if r:
                return True
        return False

    for it in items:
        out.append("E")
        body(it[1])
        out.append("X")
    return "".join(out)


def expected_outcomes(items):
    """what each top-level condom'd call of a driver must end with"""
    def body(b):
        for it in b:
            if it[0] == "R":
                return {"z3": "ClaripyZ3Error", "rt": "RuntimeError"}[it[1]]
            r = body(it[1])
            if r != "ok":
                return r
        return "ok"
    return [body(it[1]) for it in items]


class Run:
    """one execution: fresh threads, fresh guard state"""

    def __init__(self, env, scripts, gc0, drivers=None, watchdog=15.0, want_locals=False, flips=0):
        self.env = env
        bz = env.bz
        self.n = len(scripts)
        self.scripts = [list(s) for s in scripts]
        self.drivers = drivers or [None] * self.n
        self.gc0 = bool(gc0)
        self.maxflips = int(flips or 0)
        self.flips = 0
        self.base = bool(gc0)
        self.watchdog = watchdog
        self.want_locals = want_locals
        for k, v in env.init.items():
            setattr(bz, k, v)
        self.lock = SLock(self)
        self.gc = ModelGC(gc0, env.real_gc)
        setattr(bz, ANCHOR_LOCK, self.lock)
        bz.gc = self.gc
        bz.log = ModelLog(self, env.real_log)
        self.opcodes = {getattr(bz, ENTER).__code__: ENTER, getattr(bz, EXIT).__code__: EXIT}
        n = self.n
        self.cur = None
        self.ufl = 0
        self.kind = ["new"] * n
        self.func = [""] * n
        self.off = [0] * n
        self.stack = [()] * n
        self.depth = [0] * n
        self.ins = [False] * n
        self.fl = [0] * n
        self.pos = [0] * n
        self.excp = [False] * n
        self.crash = False
        self.bgc = False
        self.dead = False
        self.hung = False
        self.errors = []
        self.outcomes = [[] for _ in range(n)]
        self.aborting = False
        self.steps = 0
        # binary hand-off semaphores: raw locks (threading.Semaphore is Python code and would itself be traced)
        self._back = _thread.allocate_lock()
        self._back.acquire()
        self._go = []
        for _ in range(n):
            g = _thread.allocate_lock()
            g.acquire()
            self._go.append(g)
        self.threads = []
        for t in range(n):
            th = threading.Thread(target=self._main, args=(t,), daemon=True, name=f"gc-sched-{t}")
            self.threads.append(th)
            self.cur = t
            th.start()
            if not self._back.acquire(timeout=self.watchdog):
                self.hung = True
                raise Hang(f"thread {t} did not reach its start park")
        self.cur = None

    # ------------------------------------------------------------------ inside the controlled threads
    def park(self, t, kind, frame=None):
        self.kind[t] = kind
        if frame is not None:
            code = frame.f_code
            self.func[t] = code.co_name
            self.off[t] = frame.f_lineno - code.co_firstlineno
            if self.want_locals:
                st = []
                f = frame
                while f is not None and f.f_code.co_filename == self.env.file:
                    loc = tuple(sorted((k, repr(v)) for k, v in f.f_locals.items()
                                       if type(v) in (int, bool, str, type(None), float)))
                    st.append((f.f_code.co_name, f.f_lineno - f.f_code.co_firstlineno, loc))
                    if f.f_code in self.opcodes:
                        break
                    f = f.f_back
                self.stack[t] = tuple(st)
        self._back.release()
        self._go[t].acquire()
        if self.aborting:
            raise Abort()

    def _main(self, t):
        run = self
        opcodes = self.opcodes
        file = self.env.file

        def ltrace(frame, event, arg):
            if event == "line":
                run.excp[t] = False
                run.park(t, "line", frame)
            elif event == "exception":
                if not isinstance(arg[1], Abort) and arg[0] is not Abort:
                    run.excp[t] = True
            elif event == "return":
                name = opcodes.get(frame.f_code)
                if name is not None:
                    run.depth[t] -= 1
                    run.ins[t] = False
                    if run.aborting:
                        pass
                    elif run.excp[t]:
                        run.crash = True
                        run.errors.append(f"thread {t + 1}: exception left {name}")
                    else:
                        run.pos[t] += 1
                        if name == ENTER:
                            run.fl[t] += 1
            return ltrace

        def gtrace(frame, event, arg):
            code = frame.f_code
            name = opcodes.get(code)
            if name is not None:
                run.park(t, "call", frame)
                run.depth[t] += 1
                run.ins[t] = True
                run.excp[t] = False
                if name == EXIT and run.fl[t] > 0:
                    run.fl[t] -= 1
                return ltrace
            if run.depth[t] > 0 and code.co_filename == file:
                return ltrace
            return None

        try:
            sys.settrace(gtrace)
            self.park(t, "start")
            if self.drivers[t] is None:
                self._drive_plain(t)
            else:
                self._drive_condom(t)
        except Abort:
            pass
        except BaseException as ex:  # noqa: BLE001
            if not self.aborting:
                self.crash = True
                self.errors.append(f"thread {t + 1}: {type(ex).__name__}: {ex}")
        finally:
            sys.settrace(None)
            self.kind[t] = "fin"
            self.func[t] = ""
            self.off[t] = 0
            self.stack[t] = ()
            self._back.release()

    def _drive_plain(self, t):
        bz = self.env.bz
        for op in self.scripts[t]:
            if op == "E":
                bz._enter_z3()
            else:
                bz._exit_z3()

    def _mk(self, item):
        body = item[1]
        env = self.env

        def f():
            # the body of a condom'd call IS the Z3 call in progress: the collector must be off here
            if self.gc.flag:
                self.bgc = True
            for it in body:
                if self.gc.flag:
                    self.bgc = True
                if it[0] == "C":
                    self._mk(it)()
                elif it[1] == "z3":
                    raise env.z3.Z3Exception("verif: injected")
                else:
                    raise RuntimeError("verif: injected")
            if self.gc.flag:
                self.bgc = True
            return None

        return env.bz.condom(f)

    def _drive_condom(self, t):
        for it in self.drivers[t]:
            try:
                self._mk(it)()
            except Abort:
                raise
            except Exception as ex:  # noqa: BLE001
                self.outcomes[t].append(type(ex).__name__)
            else:
                self.outcomes[t].append("ok")

    # ------------------------------------------------------------------ scheduler side
    def idle(self):
        return not any(self.ins) and all(f == 0 or k == "fin" for f, k in zip(self.fl, self.kind))

    def env_enabled(self):
        return self.flips < self.maxflips and self.idle()

    def step(self, t):
        """resume thread t (0-based) until its next park; returns the park kind.  t == n is the environment: the
        application flips the collector flag (only while idle; otherwise the step is disabled = "blocked")"""
        if t == self.n:
            if not self.env_enabled():
                return "blocked"
            self.steps += 1
            self.gc.flag = not self.gc.flag
            self.base = self.gc.flag
            self.flips += 1
            return "ev"
        if self.kind[t] == "fin":
            raise ValueError("thread finished")
        self.cur = t
        self.steps += 1
        self._go[t].release()
        # global watchdog: a step is a few bytecodes; allow 4x the nominal time so that a loaded box cannot fake a hang
        if not self._back.acquire(timeout=self.watchdog) and not self._back.acquire(timeout=3 * self.watchdog):
            self.hung = True
            raise Hang(f"thread {t + 1} did not park within {4 * self.watchdog}s")
        self.cur = None
        return self.kind[t]

    def candidates(self):
        """threads that may be able to move: not finished, and not known to be waiting for a held lock"""
        held = self.lock.holder is not None
        c = [t for t in range(self.n) if self.kind[t] != "fin" and not (held and self.kind[t] == "blocked")]
        if self.env_enabled():
            c.append(self.n)
        return c

    def all_fin(self):
        return all(k == "fin" for k in self.kind)

    def _anchor(self, name):
        v = getattr(self.env.bz, name, None)
        if type(v) not in (int, bool):
            raise HarnessError(f"anchor {name} is {v!r}")
        return v

    def obs(self):
        """observable state for spec/GcGuardAbs.tla"""
        return {"gc": self.gc.flag, "act": int(self._anchor(ANCHOR_COUNT)), "ufl": self.ufl, "fl": list(self.fl),
                "ins": list(self.ins), "pos": list(self.pos), "fin": [k == "fin" for k in self.kind],
                "base": self.base, "flips": self.flips, "bgc": self.bgc, "crash": self.crash, "dead": self.dead}

    def proj(self):
        """projection compared with the model's node"""
        h = self.lock.holder
        return {"active": int(self._anchor(ANCHOR_COUNT)), "saved": bool(self._anchor(ANCHOR_SAVED)),
                "gc": self.gc.flag, "lock": 0 if h is None else h + 1, "ufl": self.ufl,
                "pc": [[("line" if k == "blocked" else k), f, o] for k, f, o in zip(self.kind, self.func, self.off)]
                      + [["ev" if self.flips < self.maxflips else "fin", "", 0]],
                "base": self.base, "flips": self.flips, "pos": list(self.pos), "inflight": list(self.fl), "ins": list(self.ins)}

    def state_hash(self):
        bz = self.env.bz
        g = tuple((k, getattr(bz, k, None)) for k in sorted(self.env.init))
        th = tuple((("line" if k == "blocked" else k), f, o, s, p, fl, i)
                   for k, f, o, s, p, fl, i in zip(self.kind, self.func, self.off, self.stack, self.pos, self.fl, self.ins))
        return hash((g, self.gc.flag, self.lock.holder, self.ufl, self.crash, self.bgc, self.base, self.flips, th))

    def finish(self):
        """unwind whatever is still parked"""
        self.aborting = True
        for t in range(self.n):
            if self.kind[t] != "fin" and not self.hung:
                try:
                    self.step(t)
                except Hang:
                    break
        for k in list(self.env.init):
            setattr(self.env.bz, k, self.env.init[k])


# ----------------------------------------------------------------------------------------------------------------
# job kinds
# ----------------------------------------------------------------------------------------------------------------

def _cfg(job):
    return {"scripts": [list(s) for s in job["scripts"]], "gc0": bool(job["gc0"]), "flips": int(job.get("flips") or 0)}


def run_schedule(env, job, sched, watchdog=15.0):
    """execute one schedule (1-based thread ids); stops at the first step that cannot be taken.
    returns (states, executed_schedule, info)"""
    run = Run(env, job["scripts"], job["gc0"], job.get("drivers"), watchdog=watchdog, flips=job.get("flips"))
    st = [run.obs()]
    done = []
    info = {"diverged": None}
    try:
        for k, t in enumerate(sched):
            t0 = t - 1
            if t0 < 0 or t0 > run.n or (t0 < run.n and run.kind[t0] == "fin"):
                info["diverged"] = f"step {k}: thread {t} has finished"
                break
            if t0 < run.n and run.kind[t0] == "blocked" and run.lock.holder is not None:
                info["diverged"] = f"step {k}: thread {t} is blocked"
                break
            r = run.step(t0)
            if r == "blocked":
                info["diverged"] = f"step {k}: thread {t} is blocked"
                break
            done.append(t)
            st.append(run.obs())
        if info["diverged"] is None and not run.all_fin() and job.get("check_dead"):
            # is the remaining system stuck ?  (a blocked probe changes nothing; a thread that moves is recorded)
            moved = False
            for u in run.candidates():
                if run.step(u) != "blocked":
                    moved = True
                    done.append(u + 1)
                    st.append(run.obs())
                    break
            if not moved:
                run.dead = True
                st.append(run.obs())
    except Hang as ex:
        run.dead = True
        info["hang"] = str(ex)
        st.append(run.obs())
    info["errors"] = list(run.errors)
    info["outcomes"] = run.outcomes
    info["proj"] = run.proj() if not run.hung else None
    run.finish()
    return st, done, info


def job_replay(env, job, out):
    """follow model paths.  job: scripts, drivers?, graph file {nodes:{id:proj}, enabled:{id:[tids]}}, paths:
    [{"root": id, "gc0": bool, "steps": [[tid, nodeid], ...], "drivers": optional override}]"""
    with open(job["graph"]) as f:
        G = json.load(f)
    nodes, enabled = G["nodes"], G["enabled"]
    res = []
    nsteps = nprobes = 0
    with open(out + ".traces.ndjson", "w") as tf:
        for pi, path in enumerate(job["paths"]):
            drivers = path.get("drivers", job.get("drivers"))
            j = {"scripts": job["scripts"], "gc0": path["gc0"], "drivers": drivers, "flips": job.get("flips")}
            drift = None
            sched = []
            run = Run(env, j["scripts"], j["gc0"], drivers, watchdog=job.get("watchdog", 15.0), flips=j["flips"])
            st = [run.obs()]
            try:
                cur = path["root"]
                d = _diff(nodes[cur], run.proj())
                if d:
                    drift = {"step": 0, "what": "initial state", "diff": d}
                for k, (t, nid) in enumerate(path["steps"]):
                    if drift:
                        break
                    en = set(enabled[cur])
                    # threads the model says are disabled must be blocked in the code
                    for u in range(run.n):
                        if (u + 1) in en or run.kind[u] in ("fin", "blocked"):
                            continue
                        if nodes[cur]["pc"][u][0] == "fin":
                            continue   # reported by the projection comparison
                        nprobes += 1
                        r = run.step(u)
                        if r != "blocked":
                            drift = {"step": k, "what": f"thread {u + 1} can run in the code, is disabled in the model",
                                     "node": nodes[cur], "code": run.proj()}
                            break
                    if drift:
                        break
                    if ((run.n + 1) in en) != run.env_enabled():
                        drift = {"step": k, "what": "environment step enabled in %s only" %
                                 ("the model" if (run.n + 1) in en else "the code"), "node": nodes[cur], "code": run.proj()}
                        break
                    if t <= run.n and run.kind[t - 1] == "fin":
                        drift = {"step": k, "what": f"thread {t} has terminated in the code, model takes a step",
                                 "node": nodes[cur], "code": run.proj()}
                        break
                    r = run.step(t - 1)
                    nsteps += 1
                    if r == "blocked":
                        drift = {"step": k, "what": f"thread {t} is blocked in the code, enabled in the model",
                                 "node": nodes[cur], "code": run.proj()}
                        break
                    sched.append(t)
                    st.append(run.obs())
                    d = _diff(nodes[nid], run.proj())
                    if d:
                        drift = {"step": k + 1, "what": "state after step of thread %d" % t, "diff": d,
                                 "from": nodes[cur]["pc"]}
                        break
                    cur = nid
                if not drift and not enabled[cur] and not run.all_fin():
                    drift = {"step": len(path["steps"]), "what": "model terminated, code has live threads",
                             "code": run.proj()}
                if not drift and drivers and any(drivers) and run.all_fin():
                    for t0, dr in enumerate(drivers):
                        if dr is not None and run.outcomes[t0] != expected_outcomes(dr):
                            drift = {"step": len(path["steps"]), "what": "condom outcome",
                                     "got": run.outcomes[t0], "want": expected_outcomes(dr)}
            except Hang as ex:
                run.dead = True
                st.append(run.obs())
                drift = {"step": len(sched), "what": "hang: " + str(ex)}
            errs = list(run.errors)
            run.finish()
            tf.write(json.dumps({"cfg": _cfg(j), "drv": _drv(drivers), "sched": sched, "st": st},
                                separators=(",", ":")) + "\n")
            res.append({"path": pi, "drift": drift, "errors": errs, "steps": len(sched)})
            if run.hung:
                break
    with open(out + ".json", "w") as f:
        json.dump({"results": res, "steps": nsteps, "probes": nprobes, "traces": len(res)}, f)


def _drv(drivers):
    """uniform, null-free rendering of the drivers for trace files"""
    if not drivers:
        return ""
    return json.dumps(drivers, separators=(",", ":"))


def _diff(node, proj):
    d = {}
    for k in ("active", "saved", "gc", "lock", "ufl", "pos", "inflight", "ins", "base", "flips"):
        if node[k] != proj[k]:
            d[k] = {"model": node[k], "code": proj[k]}
    for t, (a, b) in enumerate(zip(node["pc"], proj["pc"])):
        if list(a) != list(b):
            d[f"pc[{t + 1}]"] = {"model": a, "code": b}
    return d


def job_explore(env, job, out):
    """exhaustive exploration of the line interleavings of the real code by re-execution with state-hash pruning.
    Every execution is written as a trace.  job: scripts, gc0, drivers?, max_exec, part/nparts/split_depth"""
    j = {"scripts": job["scripts"], "gc0": job["gc0"], "drivers": job.get("drivers"), "flips": job.get("flips")}
    nparts, part, split = job.get("nparts", 1), job.get("part", 0), job.get("split_depth", 0)
    max_exec = job.get("max_exec", 10 ** 9)
    deadline = time.time() + job.get("budget_s", 10 ** 9)
    visited = set()
    todo = [[]]
    nexec = ntrans = nsteps = ndead = nhang = 0
    complete = True
    with open(out + ".traces.ndjson", "w") as tf:
        while todo:
            if nexec >= max_exec or time.time() > deadline or nhang >= 1:
                complete = False
                break
            pre = todo.pop()
            run = Run(env, j["scripts"], j["gc0"], j["drivers"], watchdog=job.get("watchdog", 15.0), want_locals=True,
                      flips=j["flips"])
            st = [run.obs()]
            sched = []
            new = False
            try:
                ok = True
                for t in pre:
                    r = run.step(t)
                    nsteps += 1
                    if r == "blocked":
                        ok = False       # sibling that turned out to be disabled: nothing new
                        break
                    sched.append(t + 1)
                    st.append(run.obs())
                if ok and pre:
                    ntrans += 1
                while ok:
                    h = run.state_hash()
                    if split and len(sched) == split and nparts > 1:
                        if int(hashlib.sha256(repr(h).encode()).hexdigest(), 16) % nparts != part:
                            break
                    if h in visited:
                        break
                    visited.add(h)
                    new = True
                    cands = run.candidates()
                    # when the lock is held try the non-holders first: a blocked one costs nothing
                    hd = run.lock.holder
                    cands.sort(key=lambda u: (u == hd, u))
                    moved = None
                    base = list(sched)
                    for u in cands:
                        if moved is None:
                            r = run.step(u)
                            nsteps += 1
                            if r == "blocked":
                                continue
                            moved = u
                            ntrans += 1
                            sched.append(u + 1)
                            st.append(run.obs())
                        else:
                            todo.append([x - 1 for x in base] + [u])
                    if moved is None:
                        if not run.all_fin():
                            run.dead = True
                            ndead += 1
                            st.append(run.obs())
                        break
            except Hang:
                nhang += 1
                run.dead = True
                st.append(run.obs())
                new = True
            errs = list(run.errors)
            run.finish()
            nexec += 1
            if new or len(pre) == 0:
                tf.write(json.dumps({"cfg": _cfg(j), "drv": _drv(j["drivers"]), "sched": sched, "st": st},
                                    separators=(",", ":")) + "\n")
            del errs
    with open(out + ".json", "w") as f:
        json.dump({"executions": nexec, "states": len(visited), "transitions": ntrans, "steps": nsteps,
                   "deadlocks": ndead, "hangs": nhang, "complete": complete}, f)


def job_run(env, job, out):
    st, done, info = run_schedule(env, job, job["sched"], watchdog=job.get("watchdog", 15.0))
    with open(out + ".traces.ndjson", "w") as tf:
        tf.write(json.dumps({"cfg": _cfg(job), "drv": _drv(job.get("drivers")), "sched": done, "st": st},
                            separators=(",", ":")) + "\n")
    with open(out + ".json", "w") as f:
        json.dump({"executed": done, "info": info}, f)


def main(argv):
    with open(argv[1]) as f:
        job = json.load(f)
    out = argv[2]
    sys.setswitchinterval(1e-4)
    try:
        env = Env()
        {"replay": job_replay, "explore": job_explore, "run": job_run}[job["kind"]](env, job, out)
    except HarnessError as ex:
        with open(out + ".json", "w") as f:
            json.dump({"harness_error": str(ex)}, f)
    sys.stdout.flush()
    os._exit(0)     # parked daemon threads (after a hang) must not keep the interpreter alive


if __name__ == "__main__":
    main(sys.argv)
