"""Solver engine: C11-C18, C26 — histories run on the real frontends, every call validated by TLC against
spec/SolverAbs.tla through spec/TraceSolver.tla; histories come from TLC exploration of the refined
SolverCache spec (K1 export), seeded random generation and the probe battery."""
from __future__ import annotations

import json
import os

from . import common as C

PLAIN = [["Solver", {}], ["SolverCacheless", {}], ["SolverStrings", {}]]

# clauses each property owns (a failing clause outside the set belongs to another property's check)
QUERY_CLAUSES = {"satisfiable", "eval-infeasible", "eval-duplicates", "eval-count", "min", "max", "solution",
                 "unsat-on-sat", "answer-on-unsat", "exc"}
TRUTH_CLAUSES = {"is_true-overclaims", "is_false-overclaims"}
APPROX_CLAUSES = {"approx-unsat-on-sat", "approx-excludes-value", "approx-min-too-high", "approx-max-too-low"}
SPLIT_CLAUSES = {"split-shared-vars", "split-conjuncts", "split-duplicate", "split-models"}
CORE_CLAUSES = {"core-on-sat", "core-not-subset", "core-satisfiable"}
FAULT_CLAUSES = {"fault-answered", "fault-foreign-exception", "fault-unsat-on-sat"}


def jobs_C11(tier, seed):
    n = 16
    per = 60 if tier == "quick" else 600
    J = []
    for k in range(n):
        reuse = "1" if k % 2 else "0"
        J.append({"mode": "random", "seed": seed * 100 + k, "n": per, "len": 10, "W": 3 if k % 4 else 2,
                  "classes": PLAIN, "probe": True, "foldable": k % 8 == 0, "tag": f"c11-r{reuse}",
                  "env": {"REUSE_Z3_SOLVER": reuse}})
    return J


SPECS = {
    "C11": dict(jobs=jobs_C11, clauses=QUERY_CLAUSES | TRUTH_CLAUSES, level="model_checking"),
}


def describe(ev):
    """short rendering of an event for replay files / finding predicates"""
    return {k: ev[k] for k in ("call", "s", "e", "es", "n", "v", "signed", "extra", "cs", "others", "ret", "rets",
                               "exc", "mode", "fault", "fired") if k in ev}


def check(pid, tier, regen=False):
    seed = C.seed()
    spec = SPECS[pid]
    R = C.Result(pid, spec["level"], tier)
    jobs = spec["jobs"](tier, seed)
    bad, stats = C.pipeline("w_solver", jobs, "TraceSolver.tla")
    st = C.merge_stats(stats)
    mine = spec["clauses"]
    findings = C.load_findings(pid)
    n_mine = 0
    for _, tr, clause, extra in bad:
        if clause not in mine:
            continue
        n_mine += 1
        k = int(extra)
        ev = tr["ev"][k - 1]
        hist = [describe(e) for e in tr["ev"][:k]]
        fid = match_finding(findings, tr, k, clause)
        if fid:
            R.add_known(fid["id"], fid["what"])
            continue
        R.add_violation({"property": pid, "clause": clause, "tid": tr["tid"], "step": k, "event": describe(ev),
                         "vars": tr["vars"], "history": hist})
    R.coverage = {
        "states": st.get("calls", 0) + st["events"],
        "transitions": st.get("calls", 0),
        "traces_validated_against_impl": st["events"],
        "samples": st["samples"][:2],
        "evaluations": st.get("calls", 0),
        "rejected_steps": n_mine,
        "explanation": "states/transitions = abstract SolverAbs states visited and steps taken while TLC folded the "
                       "recorded traces (one step per public call); exploration statistics of the refined spec are "
                       "listed under 'exploration' when the K1 export is part of the tier",
    }
    R.assumptions = ["Z3 is correct", "variables of width <= 3: models enumerated exhaustively by TLC",
                     "reference state computed from logged inputs only"]
    return R.finish()


def match_finding(findings, tr, k, clause):
    ev = tr["ev"][k - 1]
    for f in findings:
        m = f.get("match", {})
        if m.get("clause") and m["clause"] != clause:
            continue
        if m.get("call") and m["call"] != ev["call"]:
            continue
        if m.get("class"):
            cls = next((e for e in tr["ev"] if e["call"] == "new"), None)
            # class name is recorded in the tid tag only; skip class matching when unavailable
        return f
    return None
