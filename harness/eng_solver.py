"""Solver engine: C11-C18, C26 — histories run on the real frontends, every call validated by TLC against
spec/SolverAbs.tla through spec/TraceSolver.tla; histories come from TLC exploration of the refined
SolverCache spec (K1 export), seeded random generation and the probe battery."""
from __future__ import annotations

import json
import os

from . import common as C

PLAIN = [["Solver", {}], ["SolverCacheless", {}], ["SolverStrings", {}]]

# clauses each property owns (a failing clause outside the set belongs to another property's check)
QUERY_CLAUSES = {"isolation", "satisfiable", "eval-infeasible", "eval-duplicates", "eval-count", "min", "max", "solution",
                 "unsat-on-sat", "answer-on-unsat", "eval-on-unsat", "solution-on-unsat", "exc"}
TRUTH_CLAUSES = {"is_true-overclaims", "is_false-overclaims"}
APPROX_CLAUSES = {"approx-unsat-on-sat", "approx-excludes-value", "approx-min-too-high", "approx-max-too-low",
                  "approx-none-on-sat"}
SPLIT_CLAUSES = {"split-shared-vars", "split-conjuncts", "split-duplicate", "split-models"}
CORE_CLAUSES = {"core-on-sat", "core-not-subset", "core-satisfiable"}   # unsat_core() on sat / foreign element / sat core
FAULT_CLAUSES = {"fault-answered", "fault-foreign-exception", "fault-unsat-on-sat"}


def jobs_C11(tier, seed):
    n = 16
    per = 60 if tier == "quick" else 600
    J = []
    for k in range(n):
        reuse = "1" if k % 2 else "0"
        J.append({"mode": "random", "seed": seed * 100 + k, "n": per, "len": 10, "W": 3 if k % 4 else 2,
                  "classes": PLAIN, "probe": True, "foldable": k % 8 == 0, "tag": f"c11-r{reuse}",
                  "env": {"REUSE_Z3_SOLVER": reuse}})
    return J


def jobs_generic(classes, tag, per_q, per_t, W=3, n=16, **kw):
    def f(tier, seed):
        per = per_q if tier == "quick" else per_t
        J = []
        for k in range(n):
            reuse = "1" if k % 2 else "0"
            j = {"mode": "random", "seed": seed * 100 + k, "n": per, "len": 10, "W": W, "classes": classes,
                 "probe": True, "tag": f"{tag}-r{reuse}", "env": {"REUSE_Z3_SOLVER": reuse}}
            j.update(kw)
            J.append(j)
        return J
    return f


COMPOSITE = [["SolverComposite", {}]]
REPL_EXACT = [["SolverReplacement", {}], ["SolverReplacement", {"auto_replace": False}], ["SolverHybrid", {}],
              ["SolverReplacementCacheless", {}]]
APPROX = [["SolverVSA", {}], ["SolverHybrid", {"approximate_first": True}]]
ALL_EXACT = PLAIN + COMPOSITE + [["SolverReplacement", {}], ["SolverHybrid", {}]]
TRACKED = [["Solver", {"track": True}], ["SolverComposite", {"track": True}], ["SolverCacheless", {"track": True}]]

def directed_C15(tier, seed):
    """scripted multi-solver scenarios: three independently created solvers over different variables, each solved (warm
    caches) or not, then combine / merge in every role order, then probes"""
    import random
    from .w_solver import alphabet
    from .term import free_vars
    A = alphabet(3)
    rng = random.Random(seed + 77)
    cx = [c for c in A["cons"] if set(free_vars(c)) == {"x"}]
    cy = [c for c in A["cons"] if set(free_vars(c)) == {"y"}]
    cxy = [c for c in A["cons"] if set(free_vars(c)) == {"x", "y"}]
    H = []
    classes = [["Solver", {}], ["SolverCacheless", {}], ["SolverComposite", {}], ["SolverHybrid", {}], ["SolverStrings", {}]]
    for cls, kw in classes:
        for _ in range(10 if tier == "quick" else 120):
            h = [["new", cls, kw], ["new", cls, kw], ["new", cls, kw]]
            pools = rng.choice([[cy, cx, cx], [cx, cy, cx], [cx, cx, cy], [cx, cy, cxy], [cy, cx, cxy]])
            for sid in range(3):
                for _k in range(rng.randint(1, 2)):
                    h.append(["add", sid, [rng.choice(pools[sid])]])
                if rng.random() < 0.8:
                    h.append([rng.choice(["satisfiable", "eval"]), sid] + ([[]] if h[-1][0] != "eval" else []))
                    if h[-1][0] == "eval":
                        h[-1] = ["eval", sid, rng.choice(A["exprs"][:2]), rng.choice([1, 9]), []]
                    else:
                        h[-1] = ["satisfiable", sid, []]
            order = rng.sample([0, 1, 2], 3)
            if rng.random() < 0.6:
                h.append(["combine", order[0], [order[1], order[2]]])
            else:
                h.append(["merge", order[0], [order[1], order[2]], [rng.choice(A["cons"]) for _ in range(3)], -1])
            if rng.random() < 0.3:
                h.append(["split", 3])
            H.append(h)
    return H


def directed_C16(tier, seed):
    """scripted core scenarios: unsatisfiability established at add() time by a single contradicting constraint (the
    cheap pairwise path) or only by the backend, then split / merge with a satisfiable sibling / branch; unsat_core is
    probed on every live tracked solver at the end (core_probes)"""
    import random
    from .w_solver import alphabet
    from .term import BVS, BVV, T
    A = alphabet(3)
    x, y = BVS("x", 3), BVS("y", 3)
    rng = random.Random(seed + 16)
    H = []
    for cls in ("Solver", "SolverComposite", "SolverCacheless"):
        for _ in range(12 if tier == "quick" else 150):
            a, b = rng.sample(range(8), 2)
            h = [["new", cls, {"track": True}]]
            pre = [["add", 0, [T("__eq__", y, BVV(rng.randrange(8), 3))]], ["add", 0, [T("__eq__", x, BVV(a, 3))]]]
            if rng.random() < 0.5:
                pre.reverse()
            h += pre
            if rng.random() < 0.5:
                h.append(["satisfiable", 0, []])
            h.append(["branch", 0])                                                  # 1 = live sibling
            contra = rng.choice([T("__eq__", x, BVV(b, 3)), T("__ne__", x, BVV(a, 3)), T("UGT", x, BVV(7, 3))])
            h.append(["add", 0, [contra]] if rng.random() < 0.7 else ["add", 0, [contra, T("ULE", y, BVV(7, 3))]])
            h.append(["add", 1, [T("ULT", x, BVV(a + 1 if a < 7 else 7, 3))]] if rng.random() < 0.6 else ["satisfiable", 1, []])
            h.append(["unsat_core", 0])
            r = rng.random()
            if r < 0.4:
                h.append(["split", 0])
            elif r < 0.8:
                h.append(["merge", 0, [1], [T("__eq__", y, BVV(0, 3)), T("__ne__", y, BVV(9 % 8, 3))], -1])
            else:
                h.append(["combine", 1, [0]])
            H.append(h)
    return H


def directed_C13(tier, seed):
    """queries with extra constraints are hypothetical: for every (constraint, extra) pair of the alphabet, on every
    replacement / hybrid / VSA class: add, ask with the extra constraints, then ask the same without them (and on a branch
    taken afterwards)"""
    from .w_solver import get_alphabet
    A = get_alphabet({"W": 3, "alpha": "approx"})
    x = A["exprs"][0]
    H = []
    classes = [["SolverVSA", {}], ["SolverHybrid", {}], ["SolverHybrid", {"approximate_first": True}], ["SolverReplacement", {}]]
    pairs = [(c, e) for c in A["cons"] for e in A["extras"] if e]
    if tier == "quick":
        import random
        pairs = random.Random(seed + 13).sample(pairs, min(len(pairs), 60))
    for cls, kw in classes:
        for c, e in pairs:
            for q in ("satisfiable", "eval"):
                first = ["satisfiable", 0, e] if q == "satisfiable" else ["eval", 0, x, 9, e]
                H.append([["new", cls, kw], ["add", 0, [c]], first, ["satisfiable", 0, []], ["eval", 0, x, 9, []],
                          ["branch", 0], ["satisfiable", 1, []], ["max", 1, x, False, []]])
    return H


def directed_C18(tier, seed):
    """scripted pickle scenarios: replacements installed / removed around a round trip, tracked and untracked solvers
    pickled before their first query, every frontend class"""
    from .w_solver import alphabet
    from .term import BVS, BVV, T
    A = alphabet(3)
    x, y = BVS("x", 3), BVS("y", 3)
    H = []
    exprs = [T("__add__", x, BVV(1, 3)), T("__xor__", x, BVV(1, 3)), T("__add__", x, y), x]
    for cls in ("SolverReplacement", "SolverReplacementCacheless"):
        for v in (0, 3, 7):
            for e in exprs:
                for pre in (True, False):
                    h = [["new", cls, {}]]
                    if pre:
                        h.append(["add_replacement", 0, x, BVV(v, 3), True])
                    h.append(["pickle", 0])
                    if not pre:
                        h += [["add_replacement", 0, x, BVV(v, 3), True], ["add_replacement", 1, x, BVV(v, 3), True]]
                    for s in (0, 1):
                        h.append(["eval", s, e, 9, []])
                    for s in (0, 1):
                        h.append(["remove_replacements", s, x])
                    for s in (0, 1):
                        h.append(["eval", s, e, 9, []])
                    for s in (0, 1):
                        h.append(["max", s, e, False, []])
                    H.append(h)
    classes = [["Solver", {}], ["Solver", {"track": True}], ["SolverCacheless", {}], ["SolverComposite", {}],
               ["SolverComposite", {"track": True}], ["SolverHybrid", {}], ["SolverHybrid", {"approximate_first": True}],
               ["SolverStrings", {}], ["SolverReplacement", {}]]
    cons = A["cons"]
    import random
    rng = random.Random(seed)
    for cls, kw in classes:
        for _ in range(6 if tier == "quick" else 40):
            h = [["new", cls, kw]]
            ok = [c for c in cons if not (kw.get("approximate_first") and "__and__" in json.dumps(c))]
            for _k in range(rng.randint(0, 3)):
                h.append(["add", 0, [rng.choice(ok)]])
            if rng.random() < 0.4:
                h.append(["satisfiable", 0, []])
            if rng.random() < 0.3:
                h.append(["add", 0, [rng.choice(ok)]])
            h.append(["pickle", 0])
            H.append(h)
    return H


SPECS = {
    "C11": dict(jobs=jobs_C11, clauses=QUERY_CLAUSES | TRUTH_CLAUSES, level="model_checking", k1=True),
    "C12": dict(jobs=lambda tier, seed: jobs_generic(COMPOSITE, "c12", 50, 500, W=2, alpha="xyz", multi=True)(tier, seed)
                + jobs_generic(COMPOSITE, "c12w1", 25, 250, n=4, W=1, alpha="xyz", multi=True)(tier, seed),     # 1-bit variables
                clauses=QUERY_CLAUSES | TRUTH_CLAUSES | SPLIT_CLAUSES, level="model_checking", k1c=True),
    "C13": dict(jobs=lambda tier, seed: jobs_generic(REPL_EXACT, "c13", 40, 400, n=10, with_bool=True, pickle=True)(tier, seed)
                + jobs_generic(APPROX, "c13a", 40, 400, n=4, alpha="approx", multi=True)(tier, seed)
                + jobs_generic([["SolverHybrid", {}]], "c13h", 40, 400, n=4, alpha="approx", multi=True,
                               cfg={"hybrid_exact": False})(tier, seed)
                + [{"mode": "list", "W": 3, "alpha": "approx", "histories": directed_C13(tier, seed)[(k // 2)::2], "probe": True,
                    "tag": "c13d", "cfg": ({"hybrid_exact": False} if k % 2 else {}), "env": {"REUSE_Z3_SOLVER": "0"}}
                   for k in range(4)],
                clauses=QUERY_CLAUSES | TRUTH_CLAUSES | APPROX_CLAUSES, level="model_checking", k1r=True),
    "C14": dict(jobs=lambda tier, seed: jobs_generic(ALL_EXACT + [["SolverReplacementCacheless", {}]], "c14", 40, 400, n=12,
                                                     branchy=True)(tier, seed)
                + jobs_generic([["SolverHybrid", {}], ["SolverVSA", {}]], "c14a", 40, 400, n=4, branchy=True, alpha="approx",
                               cfg={"hybrid_exact": False})(tier, seed),
                clauses=QUERY_CLAUSES | TRUTH_CLAUSES | APPROX_CLAUSES | {"isolation"}, level="model_checking", k1w=True),
    "C15": dict(jobs=lambda tier, seed: jobs_generic(PLAIN + [["SolverHybrid", {}]], "c15", 40, 400, n=8, multi=True)(tier, seed)
                + jobs_generic(COMPOSITE, "c15c", 40, 400, n=8, W=2, alpha="xyz", multi=True)(tier, seed)
                + [{"mode": "list", "W": 3, "histories": directed_C15(tier, seed)[k::4], "probe": True, "tag": "c15d",
                    "env": {"REUSE_Z3_SOLVER": "1" if k == 3 else "0"}} for k in range(4)],
                clauses=QUERY_CLAUSES | TRUTH_CLAUSES | SPLIT_CLAUSES, level="model_checking"),
    "C16": dict(jobs=lambda tier, seed: jobs_generic(TRACKED, "c16", 50, 500, n=10)(tier, seed)
                + jobs_generic(TRACKED, "c16m", 50, 500, n=6, multi=True)(tier, seed)
                + [{"mode": "list", "W": 3, "histories": directed_C16(tier, seed)[k::2], "probe": True, "tag": "c16d",
                    "env": {"REUSE_Z3_SOLVER": str(k)}} for k in range(2)],
                clauses=CORE_CLAUSES | {"exc"}, level="model_checking"),
    "C17": dict(jobs=jobs_generic(PLAIN + COMPOSITE, "c17", 50, 500, faults=True, branchy=True),
                clauses=QUERY_CLAUSES | FAULT_CLAUSES, level="fault_enumeration"),
    "C18": dict(jobs=lambda tier, seed: jobs_generic(ALL_EXACT + [["SolverComposite", {"track": True}], ["Solver", {"track": True}],
                                                                 ],
                                                     "c18", 36, 400, pickle=True)(tier, seed)
                + [{"mode": "list", "W": 3, "histories": directed_C18(tier, seed)[k::4], "probe": True, "tag": "c18d",
                    "env": {"REUSE_Z3_SOLVER": "0"}} for k in range(4)],
                clauses=QUERY_CLAUSES | TRUTH_CLAUSES | APPROX_CLAUSES | {"pickle-divergence"}, level="model_checking"),
}


# ----------------------------------------------------------------------------------------------
# K1: TLC explores the refined cache model (spec/SolverCache.tla) and exports one history per reachable state
# ----------------------------------------------------------------------------------------------

def explore_cache(tier, seed, budget):
    """returns (stats dict, list of histories to replay on the real claripy.Solver)"""
    import random
    import re
    import shutil
    import subprocess
    import tempfile
    from . import term as TM
    from .w_solver import alphabet1
    A = alphabet1(2)
    # the denotations handed to TLC must be those of the terms handed to claripy
    for t, d in list(zip(A["cons"], A["cden"])) + [(e[0], d) for e, d in zip(A["extras"], A["eden"]) if e]:
        got = [v for v in range(4) if TM.z3_eval(t, {"x": v}) == 1]
        if got != d:
            raise C.MachineryError(f"alphabet denotation mismatch for {t}: {got} != {d}")
    d = tempfile.mkdtemp(prefix="k1-", dir=C.scratch())
    shutil.copy(os.path.join(C.SPEC, "SolverCache.tla"), d)
    depth = 4 if tier == "quick" else 5
    fmt = lambda ds: "<<" + ",".join("{" + ",".join(map(str, x)) + "}" for x in ds) + ">>"  # noqa: E731
    with open(os.path.join(d, "MC.tla"), "w") as f:
        f.write("---- MODULE MC ----\nEXTENDS SolverCache\n"
                f"MC_CDen == {fmt(A['cden'])}\nMC_EDen == {fmt(A['eden'])}\n====\n")
    with open(os.path.join(d, "MC.cfg"), "w") as f:
        f.write(f"CONSTANTS\n W = 2\n CDen <- MC_CDen\n EDen <- MC_EDen\n NVals = {{1,2,5}}\n NS = 2\n MaxDepth = {depth}\n"
                "SPECIFICATION Spec\nCONSTRAINT Depth\nVIEW view\nPROPERTY AnswerStep\nINVARIANT CacheSound\n"
                "INVARIANT SatcSound\nINVARIANT EvalExhSound\nINVARIANT OptExhSound\nCHECK_DEADLOCK FALSE\n")
    cmd = ["java", "-XX:+UseParallelGC", "-Xmx8g", "-cp", C.TLA_CP, "tlc2.TLC", "-workers", "8", "-noGenerateSpecTE",
           "-metadir", os.path.join(d, "md"), "-config", "MC.cfg", "-dump", os.path.join(d, "states"), "-coverage", "1",
           "MC.tla"]
    p = subprocess.run(cmd, cwd=d, capture_output=True, text=True, timeout=1500)
    out = p.stdout + p.stderr
    st = C.tlc_stats(out)
    if st is None:
        raise C.MachineryError("SolverCache exploration failed:\n" + out[-3000:])
    stats = {"states": st["distinct"], "transitions": st["generated"], "depth": depth,
             "model_violation": None}
    hists = []
    cex = None
    if "is violated" in out:
        # the refined model itself admits a wrong answer: keep TLC's counterexample and replay it first
        hs = re.findall(r"hist = (<<.*>>)", out)
        cex = hs[-1] if hs else None
        stats["model_violation"] = re.findall(r"Error: (.* is violated.*)", out)[:1]
    # actions never taken = vacuity
    for act in ("Add", "Satisfiable", "Eval", "Optimum", "Solution", "Branch"):
        m = re.search(r"<%s line \d+, col \d+ to line \d+, col \d+ of module SolverCache>: (\d+):(\d+)" % act, out)
        if m and int(m.group(2)) == 0 and not stats["model_violation"]:
            raise C.MachineryError(f"vacuity: action {act} of SolverCache was never taken")
    tup = re.compile(r"<<(\d+), (\d+), (\d+), (\d+)>>")
    dump = os.path.join(d, "states.dump")
    raw = []
    if os.path.exists(dump):
        with open(dump) as f:
            for line in f:
                if line.startswith("/\\ hist = "):
                    raw.append([tuple(map(int, t)) for t in tup.findall(line)])
    if cex:
        raw.insert(0, [tuple(map(int, t)) for t in tup.findall(cex)])
    shutil.rmtree(d, ignore_errors=True)

    def to_ops(h):
        ops = [["new", "Solver", {}]]
        for op, s_, a, b in h:
            s0 = s_ - 1
            if op == 1:
                ops.append(["add", s0, [A["cons"][a - 1]]])
            elif op == 2:
                ops.append(["satisfiable", s0, A["extras"][a - 1]])
            elif op == 3:
                ops.append(["eval", s0, A["exprs"][0], a, A["extras"][b - 1]])
            elif op in (4, 5):
                ops.append(["min" if op == 4 else "max", s0, A["exprs"][0], bool(a), A["extras"][b - 1]])
            elif op == 6:
                ops.append(["solution", s0, A["exprs"][0], TM.BVV(a, 2), A["extras"][b - 1], True])
            elif op == 7:
                ops.append(["branch", s0])
        return ops

    # every reachable refined state extended by every input = one replay per transition of the state graph
    inputs = [(1, c, 0) for c in range(1, len(A["cons"]) + 1)] + [(2, e, 0) for e in range(1, 5)] + \
             [(3, n, e) for n in (1, 2, 5) for e in range(1, 5)] + \
             [(o, sg, e) for o in (4, 5) for sg in (0, 1) for e in range(1, 5)] + \
             [(6, v, e) for v in range(4) for e in range(1, 5)] + [(7, 0, 0)]
    rng = random.Random(seed)
    allh = []
    for h in raw:
        nlive = 1 + sum(1 for t in h if t[0] == 7)
        for (o, a, b) in inputs:
            for s_ in range(1, nlive + 1):
                if o == 7 and nlive >= 2:
                    continue
                allh.append(h + [(o, s_, a if o != 7 else nlive + 1, b)])
    stats["state_histories"] = len(raw)
    stats["transition_histories"] = len(allh)
    if len(allh) > budget:
        pick = rng.sample(range(len(allh)), budget)
        allh = [allh[i] for i in sorted(pick)]
    if cex:
        allh.insert(0, [tuple(map(int, t)) for t in tup.findall(cex)])
    stats["replayed"] = len(allh)
    hists = [to_ops(h) for h in allh]
    return stats, hists


def composite_alphabet():
    """constraints / query expressions of spec/SolverComposite.tla's model instance (W = 2; x, y, z) as terms and as the
    constants handed to TLC; the denotations are recomputed from the terms with Z3's semantics (term.z3_eval)"""
    from . import term as TM
    W = 2
    x, y, z = TM.BVS("x", W), TM.BVS("y", W), TM.BVS("z", W)
    cons = [TM.T("__eq__", x, TM.BVV(1, W)), TM.T("__eq__", y, x), TM.T("__ne__", z, TM.BVV(0, W)),
            TM.T("__eq__", x, TM.BVV(2, W)), TM.T("ULT", y, z), TM.BoolV(False)]
    qs = [x, TM.T("__add__", x, y), z, TM.T("__xor__", y, z)]
    num = {"x": 1, "y": 2, "z": 3}
    asg = [{"x": a % 4, "y": (a // 4) % 4, "z": a // 16} for a in range(64)]
    cden = [sorted(i + 1 for i, a in enumerate(asg) if TM.z3_eval(c, a) == 1) for c in cons]
    qval = [[TM.z3_eval(q, a) for a in asg] for q in qs]
    cvars = [sorted(num[v] for v in TM.free_vars(c)) for c in cons]
    qvars = [sorted(num[v] for v in TM.free_vars(q)) for q in qs]
    return {"cons": cons, "qs": qs, "cden": cden, "qval": qval, "cvars": cvars, "qvars": qvars, "W": W}


def explore_composite(tier, seed, budget):
    """K1 for SolverComposite: TLC explores spec/SolverComposite.tla (refinement property AnswerStep + five invariants
    of the child partition); every reachable state x every input becomes one history replayed on the real class, with
    the model's partition (names registered per child, variables per child, flag) as the expected refined state"""
    import random
    import re
    import shutil
    import subprocess
    import tempfile
    A = composite_alphabet()
    d = tempfile.mkdtemp(prefix="k1c-", dir=C.scratch())
    shutil.copy(os.path.join(C.SPEC, "SolverComposite.tla"), d)
    depth = 4 if tier == "quick" else 5
    S = lambda xs: "{" + ",".join(map(str, xs)) + "}"            # noqa: E731
    Q = lambda xs, f: "<<" + ",".join(f(x) for x in xs) + ">>"   # noqa: E731
    with open(os.path.join(d, "MC.tla"), "w") as f:
        f.write("---- MODULE MC ----\nEXTENDS SolverComposite\n"
                f"MC_CVars == {Q(A['cvars'], S)}\nMC_CDen == {Q(A['cden'], S)}\nMC_QVars == {Q(A['qvars'], S)}\n"
                f"MC_QVal == {Q(A['qval'], lambda r: Q(r, str))}\n====\n")
    with open(os.path.join(d, "MC.cfg"), "w") as f:
        f.write(f"CONSTANTS\n NV = 3\n NC = {len(A['cons'])}\n NQ = {len(A['qs'])}\n NA = 64\n MaxDepth = {depth}\n"
                " CVars <- MC_CVars\n CDen <- MC_CDen\n QVars <- MC_QVars\n QVal <- MC_QVal\n"
                "SPECIFICATION Spec\nCONSTRAINT Depth\nVIEW view\nPROPERTY AnswerStep\nINVARIANT RegDisjoint\n"
                "INVARIANT RegWithinVars\nINVARIANT Coverage\nINVARIANT FlagSound\nINVARIANT CheckedSat\n"
                "CHECK_DEADLOCK FALSE\n")
    cfg_text = open(os.path.join(d, "MC.cfg")).read()
    with open(os.path.join(d, "MC.cfg"), "w") as f:
        f.write(cfg_text.replace("CONSTANTS\n", 'CONSTANTS\n Variant = "code"\n', 1))
    with open(os.path.join(d, "MCneg.cfg"), "w") as f:
        f.write(cfg_text.replace("CONSTANTS\n", 'CONSTANTS\n Variant = "nomerge"\n', 1).replace("MaxDepth = %d" % depth, "MaxDepth = 3"))
    # negative control: the same properties must be refuted on a model that does not merge the children an add touches
    pn = subprocess.run(["java", "-XX:+UseParallelGC", "-Xmx4g", "-cp", C.TLA_CP, "tlc2.TLC", "-workers", "4", "-noGenerateSpecTE",
                         "-metadir", os.path.join(d, "mdn"), "-config", "MCneg.cfg", "MC.tla"], cwd=d, capture_output=True,
                        text=True, timeout=1200)
    if "is violated" not in pn.stdout + pn.stderr:
        raise C.MachineryError("vacuity: SolverComposite's properties hold on the negative-control variant 'nomerge':\n" +
                               (pn.stdout + pn.stderr)[-1500:])
    neg = re.findall(r"Error: (?:Invariant|Action property) (\w+) is violated", pn.stdout + pn.stderr)
    cmd = ["java", "-XX:+UseParallelGC", "-Xmx8g", "-cp", C.TLA_CP, "tlc2.TLC", "-workers", "8", "-noGenerateSpecTE",
           "-metadir", os.path.join(d, "md"), "-config", "MC.cfg", "-dump", os.path.join(d, "states"), "-coverage", "1",
           "MC.tla"]
    p = subprocess.run(cmd, cwd=d, capture_output=True, text=True, timeout=2400)
    out = p.stdout + p.stderr
    st = C.tlc_stats(out)
    if st is None:
        raise C.MachineryError("SolverComposite exploration failed:\n" + out[-3000:])
    stats = {"states": st["distinct"], "transitions": st["generated"], "depth": depth, "model_violation": None,
             "negative_control_refuted_by": neg[:1]}
    if "is violated" in out:
        stats["model_violation"] = re.findall(r"Error: (.* is violated.*)", out)[:1]
    for act in ("Add", "Sat", "Eval", "Simplify", "Split"):
        m = re.search(r"<%s line \d+, col \d+ to line \d+, col \d+ of module SolverComposite[^>]*>: (\d+):(\d+)" % act, out)
        if not m or int(m.group(2)) == 0:
            raise C.MachineryError(f"vacuity: action {act} of SolverComposite was never taken")
    # states: hist + kids + flag
    states = []
    rec = re.compile(r"\[[^\[\]]*\]")
    fld = lambda r, k: [int(x) for x in re.findall(r"\d+", re.search(k + r" \|->\s*\{([^}]*)\}", r).group(1))]  # noqa: E731
    with open(os.path.join(d, "states.dump")) as f:
        text = f.read()
    for block in re.split(r"^State \d+:\s*$", text, flags=re.M)[1:]:
        # values may be wrapped over several lines: cut the block at the variable headers
        pos = {v: block.index("/\\ %s = " % v) for v in ("kids", "flag", "added", "hist", "ret")}
        order = sorted(pos, key=pos.get)
        val = {}
        for i, v in enumerate(order):
            end = pos[order[i + 1]] if i + 1 < len(order) else len(block)
            val[v] = block[pos[v]:end]
        states.append({"kids": [(fld(r, "reg"), fld(r, "cs")) for r in rec.findall(val["kids"])],
                       "flag": "TRUE" in val["flag"],
                       "hist": [tuple(map(int, t)) for t in re.findall(r"<<(\d+),\s*(\d+)>>", val["hist"])]})
    shutil.rmtree(d, ignore_errors=True)
    if len(states) != st["distinct"]:
        raise C.MachineryError(f"state dump has {len(states)} states, TLC reports {st['distinct']}")
    name = {1: "x", 2: "y", 3: "z"}
    nc = len(A["cons"])

    def ivars(i):
        return A["cvars"][i - 1] if i <= nc else A["qvars"][i - nc - 1]

    def parts(sd):
        return sorted([sorted(name[v] for v in reg), sorted({name[v] for i in cs for v in ivars(i)})] for reg, cs in sd["kids"])

    def to_op(t):
        o, a = t
        if o == 1:
            return ["add", 0, [A["cons"][a - 1]]]
        if o == 2:
            return ["satisfiable", 0, []]
        if o == 3:
            return ["eval", 0, A["qs"][a - 1], 5, []]
        if o == 4:
            return ["simplify", 0]
        return ["split", 0]

    inputs = [(1, c) for c in range(1, nc + 1)] + [(2, 0)] + [(3, q) for q in range(1, len(A["qs"]) + 1)] + [(4, 0), (5, 0)]
    allh = [(sd, i) for sd in states for i in inputs]
    stats["state_histories"] = len(states)
    stats["transition_histories"] = len(allh)
    rng = random.Random(seed)
    if len(allh) > budget:
        allh = [allh[i] for i in sorted(rng.sample(range(len(allh)), budget))]
    stats["replayed"] = len(allh)
    hists, expect = [], []
    for sd, i in allh:
        hists.append([["new", "SolverComposite", {}]] + [to_op(t) for t in sd["hist"]] + [["partition", 0], to_op(i)])
        expect.append({"parts": parts(sd), "flag": sd["flag"]})
    return stats, hists, expect


def tla_lit(t):
    """term (nested lists) -> TLA+ literal"""
    if isinstance(t, str):
        return '"' + t + '"'
    if isinstance(t, bool):
        return "TRUE" if t else "FALSE"
    if isinstance(t, int):
        return str(t)
    return "<<" + ", ".join(tla_lit(x) for x in t) + ">>"


def parse_tla(text):
    """TLA+ value printed by TLC (tuples, sets, strings, naturals, booleans) -> nested Python lists (sets as sorted lists)"""
    import re
    toks = re.findall(r'<<|>>|\{|\}|\[|\]|\|->|,|"[^"]*"|-?\d+|TRUE|FALSE|[A-Za-z_]\w*', text)
    pos = [0]

    def val():
        t = toks[pos[0]]
        pos[0] += 1
        if t == "[":
            rec = {}
            while toks[pos[0]] != "]":
                if toks[pos[0]] == ",":
                    pos[0] += 1
                    continue
                key = toks[pos[0]]
                pos[0] += 2          # key |->
                rec[key] = val()
            pos[0] += 1
            return rec
        if t in ("<<", "{"):
            close = ">>" if t == "<<" else "}"
            out = []
            while toks[pos[0]] != close:
                if toks[pos[0]] == ",":
                    pos[0] += 1
                    continue
                out.append(val())
            pos[0] += 1
            return sorted(out, key=json.dumps) if t == "{" else out
        if t.startswith('"'):
            return t[1:-1]
        if t in ("TRUE", "FALSE"):
            return t == "TRUE"
        return int(t)
    return val()


def replacement_alphabet():
    from . import term as TM
    W = 2
    x, y, b = TM.BVS("x", W), TM.BVS("y", W), TM.BoolS("b")
    k = lambda v: TM.BVV(v, W)  # noqa: E731
    cons = [TM.T("__eq__", x, k(1)), TM.T("__eq__", TM.T("__xor__", x, k(1)), k(3)), TM.T("__eq__", y, x),
            TM.T("__ne__", x, k(1)), TM.T("ULT", y, k(2)), TM.T("__eq__", x, k(2)), TM.T("Not", b),
            TM.T("Or", b, TM.T("__eq__", x, k(3)))]
    qs = [x, TM.T("__xor__", x, k(1)), y, TM.T("__add__", x, y), TM.T("If", b, x, y)]
    return {"cons": cons, "qs": qs, "vars": [["x", W], ["y", W], ["b", 0]], "W": W}


def explore_replacement(tier, seed, budget):
    """K1 for SolverReplacement: TLC explores spec/SolverReplacement.tla (term semantics of Term.tla; invariants
    ReplImplied, CacheImplied, ActualEquiv; action property OnlyKnown; negative control Strict, whose counterexample is
    the known finding derived from the model alone); every reachable state x input is replayed on the real class with the
    model's replacement dictionary as the expected refined state"""
    import random
    import re
    import shutil
    import subprocess
    import tempfile
    from . import term as TM
    A = replacement_alphabet()
    for t in A["cons"] + A["qs"]:
        if json.dumps(TM.ser(TM.build(t, "std"))) != json.dumps(t):
            raise C.MachineryError("alphabet term is rewritten by claripy when built (the model works on built terms): %s -> %s"
                                   % (t, TM.ser(TM.build(t, "std"))))
    d = tempfile.mkdtemp(prefix="k1r-", dir=C.scratch())
    for m in ("SolverReplacement.tla", "Term.tla", "BVBits.tla"):
        shutil.copy(os.path.join(C.SPEC, m), d)
    depth = 3 if tier == "quick" else 4
    with open(os.path.join(d, "MC.tla"), "w") as f:
        f.write("---- MODULE MC ----\nEXTENDS SolverReplacement\n"
                f"MC_Cons == {tla_lit(A['cons'])}\nMC_Qs == {tla_lit(A['qs'])}\nMC_VarsL == {tla_lit(A['vars'])}\n====\n")
    base = (f"CONSTANTS\n MaxDepth = %d\n Cs <- MC_Cons\n Qs <- MC_Qs\n VarsL <- MC_VarsL\nSPECIFICATION Spec\n"
            "CONSTRAINT DepthOK\nVIEW view\n%s\nINVARIANT ReplImplied\nINVARIANT CacheImplied\nINVARIANT ActualEquiv\n"
            "CHECK_DEADLOCK FALSE\n")
    with open(os.path.join(d, "MC.cfg"), "w") as f:
        f.write(base % (depth, "PROPERTY OnlyKnown"))
    with open(os.path.join(d, "MCneg.cfg"), "w") as f:
        f.write(base % (3, "PROPERTY Strict"))
    java = ["java", "-XX:+UseParallelGC", "-Xss64m", "-Xmx8g", "-cp", C.TLA_CP, "tlc2.TLC", "-workers", "8", "-noGenerateSpecTE"]
    pn = subprocess.run(java + ["-metadir", os.path.join(d, "mdn"), "-config", "MCneg.cfg", "MC.tla"], cwd=d,
                        capture_output=True, text=True, timeout=1800)
    outn = pn.stdout + pn.stderr
    if "Strict is violated" not in outn.replace("\n", " ") and "is violated" not in outn:
        raise C.MachineryError("SolverReplacement: the strict refinement property is NOT refuted by the model (the known finding "
                               "is expected as its counterexample):\n" + outn[-1500:])
    p = subprocess.run(java + ["-metadir", os.path.join(d, "md"), "-config", "MC.cfg", "-dump", os.path.join(d, "states"),
                               "-coverage", "1", "MC.tla"], cwd=d, capture_output=True, text=True, timeout=3000)
    out = p.stdout + p.stderr
    st = C.tlc_stats(out)
    if st is None:
        raise C.MachineryError("SolverReplacement exploration failed:\n" + out[-3000:])
    stats = {"states": st["distinct"], "transitions": st["generated"], "depth": depth, "model_violation": None,
             "strict_property_refuted": True}
    if "is violated" in out:
        stats["model_violation"] = re.findall(r"Error: (.* is violated.*)", out)[:1]
    for act in ("Add", "Sat", "EvalQ"):
        m = re.search(r"<%s line \d+, col \d+ to line \d+, col \d+ of module SolverReplacement[^>]*>: (\d+):(\d+)" % act, out)
        if not m or int(m.group(2)) == 0:
            raise C.MachineryError(f"vacuity: action {act} of SolverReplacement was never taken")
    with open(os.path.join(d, "states.dump")) as f:
        text = f.read()
    shutil.rmtree(d, ignore_errors=True)
    states = []
    for block in re.split(r"^State \d+:\s*$", text, flags=re.M)[1:]:
        pos = {v: block.index("/\\ %s = " % v) for v in ("repl", "cache", "actual", "added", "hist", "ret")}
        order = sorted(pos, key=pos.get)
        val = {}
        for i, v in enumerate(order):
            end = pos[order[i + 1]] if i + 1 < len(order) else len(block)
            val[v] = block[pos[v]:end].split("=", 1)[1]
        states.append({"repl": parse_tla(val["repl"]), "hist": parse_tla(val["hist"])})
    if len(states) != st["distinct"]:
        raise C.MachineryError(f"state dump has {len(states)} states, TLC reports {st['distinct']}")

    def to_op(t):
        o, a = t
        if o == 1:
            return ["add", 0, [A["cons"][a - 1]]]
        if o == 2:
            return ["satisfiable", 0, []]
        return ["eval", 0, A["qs"][a - 1], 5, []]

    inputs = [(1, c) for c in range(1, len(A["cons"]) + 1)] + [(2, 0)] + [(3, q) for q in range(1, len(A["qs"]) + 1)]
    allh = [(sd, i) for sd in states for i in inputs]
    stats["state_histories"] = len(states)
    stats["transition_histories"] = len(allh)
    rng = random.Random(seed)
    if len(allh) > budget:
        allh = [allh[i] for i in sorted(rng.sample(range(len(allh)), budget))]
    stats["replayed"] = len(allh)
    hists, expect = [], []
    for sd, i in allh:
        hists.append([["new", "SolverReplacement", {}]] + [to_op(t) for t in sd["hist"]] + [["replstate", 0], to_op(i)])
        expect.append({"repl": sorted(sd["repl"], key=json.dumps)})
    # candidate keys: every subterm of the alphabet
    keys = []

    def sub(t):
        if t not in keys:
            keys.append(t)
        for a in t[3]:
            sub(a)
    for t in A["cons"] + A["qs"]:
        sub(t)
    return stats, hists, expect, keys


def explore_cow(tier, seed, budget):
    """K1 for branch() on SolverComposite: TLC explores spec/SolverCompositeCow.tla (two composites sharing child objects,
    ownership / claiming; AnswerStep + CoverageC, RegWithinVars, OwnedExclusive; negative control 'noclaim'); every
    reachable state x input is replayed on a real SolverComposite and its branch, with the partition of BOTH compared"""
    import random
    import re
    import shutil
    import subprocess
    import tempfile
    A = composite_alphabet()
    d = tempfile.mkdtemp(prefix="k1w-", dir=C.scratch())
    shutil.copy(os.path.join(C.SPEC, "SolverCompositeCow.tla"), d)
    depth = 3 if tier == "quick" else 4
    S = lambda xs: "{" + ",".join(map(str, xs)) + "}"            # noqa: E731
    Q = lambda xs, f: "<<" + ",".join(f(x) for x in xs) + ">>"   # noqa: E731
    with open(os.path.join(d, "MC.tla"), "w") as f:
        f.write("---- MODULE MC ----\nEXTENDS SolverCompositeCow\n"
                f"MC_CVars == {Q(A['cvars'], S)}\nMC_CDen == {Q(A['cden'], S)}\nMC_QVars == {Q(A['qvars'], S)}\n"
                f"MC_QVal == {Q(A['qval'], lambda r: Q(r, str))}\n====\n")
    base = ("CONSTANTS\n Variant = \"%s\"\n NV = 3\n NC = %d\n NQ = %d\n NA = 64\n MaxDepth = %d\n CVars <- MC_CVars\n"
            " CDen <- MC_CDen\n QVars <- MC_QVars\n QVal <- MC_QVal\nSPECIFICATION Spec\nCONSTRAINT DepthOK\nVIEW view\n"
            "PROPERTY AnswerStep\nINVARIANT CoverageC\nINVARIANT RegWithinVars\nINVARIANT OwnedExclusive\nCHECK_DEADLOCK FALSE\n")
    with open(os.path.join(d, "MC.cfg"), "w") as f:
        f.write(base % ("code", len(A["cons"]), len(A["qs"]), depth))
    with open(os.path.join(d, "MCneg.cfg"), "w") as f:
        f.write(base % ("noclaim", len(A["cons"]), len(A["qs"]), 3))
    java = ["java", "-XX:+UseParallelGC", "-Xmx8g", "-cp", C.TLA_CP, "tlc2.TLC", "-workers", "8", "-noGenerateSpecTE"]
    pn = subprocess.run(java + ["-metadir", os.path.join(d, "mdn"), "-config", "MCneg.cfg", "MC.tla"], cwd=d,
                        capture_output=True, text=True, timeout=1800)
    outn = pn.stdout + pn.stderr
    neg = re.findall(r"Error: (?:Invariant|Action property) (\w+) is violated", outn)
    if not neg:
        raise C.MachineryError("vacuity: SolverCompositeCow's properties hold on the negative-control variant 'noclaim':\n" + outn[-1500:])
    p = subprocess.run(java + ["-metadir", os.path.join(d, "md"), "-config", "MC.cfg", "-dump", os.path.join(d, "states"),
                               "-coverage", "1", "MC.tla"], cwd=d, capture_output=True, text=True, timeout=3000)
    out = p.stdout + p.stderr
    st = C.tlc_stats(out)
    if st is None:
        raise C.MachineryError("SolverCompositeCow exploration failed:\n" + out[-3000:])
    stats = {"states": st["distinct"], "transitions": st["generated"], "depth": depth, "model_violation": None,
             "negative_control_refuted_by": neg[:1]}
    if "is violated" in out:
        stats["model_violation"] = re.findall(r"Error: (.* is violated.*)", out)[:1]
    for act in ("Add", "Sat", "Eval", "Branch"):
        m = re.search(r"<%s line \d+, col \d+ to line \d+, col \d+ of module SolverCompositeCow[^>]*>: (\d+):(\d+)" % act, out)
        if not m or int(m.group(2)) == 0:
            raise C.MachineryError(f"vacuity: action {act} of SolverCompositeCow was never taken")
    with open(os.path.join(d, "states.dump")) as f:
        text = f.read()
    shutil.rmtree(d, ignore_errors=True)
    name = {1: "x", 2: "y", 3: "z"}
    nc = len(A["cons"])

    def ivars(i):
        return A["cvars"][i - 1] if i <= nc else A["qvars"][i - nc - 1]
    states = []
    for block in re.split(r"^State \d+:\s*$", text, flags=re.M)[1:]:
        pos = {v: block.index("/\\ %s = " % v) for v in ("obj", "comp", "hist", "ret")}
        order = sorted(pos, key=pos.get)
        val = {}
        for i, v in enumerate(order):
            end = pos[order[i + 1]] if i + 1 < len(order) else len(block)
            val[v] = parse_tla(block[pos[v]:end].split("=", 1)[1])
        parts = []
        for cmp_ in val["comp"]:
            if not cmp_["live"]:
                continue
            kids = {}
            for v, oid in enumerate(cmp_["reg"], 1):
                if oid:
                    kids.setdefault(oid, []).append(name[v])
            parts.append({"parts": sorted([sorted(regs), sorted({name[x] for it in val["obj"][oid - 1] for x in ivars(it)})]
                                          for oid, regs in kids.items()), "flag": cmp_["flag"]})
        states.append({"hist": val["hist"], "expect": parts})
    if len(states) != st["distinct"]:
        raise C.MachineryError(f"state dump has {len(states)} states, TLC reports {st['distinct']}")

    def to_op(t):
        o, c, a = t
        sid = c - 1
        if o == 1:
            return ["add", sid, [A["cons"][a - 1]]]
        if o == 2:
            return ["satisfiable", sid, []]
        if o == 3:
            return ["eval", sid, A["qs"][a - 1], 5, []]
        return ["branch", 0]

    allh = []
    for sd in states:
        live = len(sd["expect"])
        ins = [(1, c, k) for c in range(1, live + 1) for k in range(1, nc + 1)] + [(2, c, 0) for c in range(1, live + 1)] + \
              [(3, c, q) for c in range(1, live + 1) for q in range(1, len(A["qs"]) + 1)] + ([(4, 1, 0)] if live == 1 else [])
        allh += [(sd, i) for i in ins]
    stats["state_histories"] = len(states)
    stats["transition_histories"] = len(allh)
    rng = random.Random(seed)
    if len(allh) > budget:
        allh = [allh[i] for i in sorted(rng.sample(range(len(allh)), budget))]
    stats["replayed"] = len(allh)
    hists, expect = [], []
    for sd, i in allh:
        hists.append([["new", "SolverComposite", {}]] + [to_op(t) for t in sd["hist"]] +
                     [["partition", k] for k in range(len(sd["expect"]))] + [to_op(i)])
        expect.append(sd["expect"])
    return stats, hists, expect


def simplify_stream(R, pid, tier, seed):
    """C09, solver level: Solver.simplify() (explicit, or implied by min / max / eval) keeps the model set, also when some
    constraints carry a SimplificationAvoidanceAnnotation and the rest simplifies to a conjunction"""
    classes = PLAIN + COMPOSITE + [["SolverReplacement", {}], ["SolverHybrid", {}]]
    jobs = jobs_generic(classes, "c09s", 25, 250, n=8, saa=True)(tier, seed) + \
        jobs_generic(COMPOSITE + [["Solver", {}]], "c09s3", 25, 250, n=4, W=2, alpha="xyz", saa=True)(tier, seed)
    bad, stats = C.pipeline("w_solver", jobs, "TraceSolver.tla")
    st = C.merge_stats(stats)
    findings = C.load_findings(pid) + C.load_findings("C13")
    for _, tr, clause, extra in bad:
        if clause not in QUERY_CLAUSES:
            continue
        k = int(extra)
        if not any(e["call"] == "simplify" or e["call"] in ("min", "max", "eval", "batch_eval") for e in tr["ev"][:k]):
            continue
        fid = match_finding(findings, tr, k, clause)
        if fid:
            R.add_known(fid["id"], fid["what"])
            continue
        R.add_violation({"property": pid, "clause": "solver-simplify-" + clause, "tid": tr["tid"], "step": k,
                         "event": describe(tr["ev"][k - 1]), "vars": tr["vars"], "history": [describe(e) for e in tr["ev"][:k]]})
    return st.get("calls", 0)


def truth_stream(R, pid, tier, seed):
    """C10, solver level: is_true / is_false relative to constraints and extra constraints, on every frontend class incl.
    the VSA-backed ones, after adds / branch / merge / combine / split; only the over-claim clauses are C10's"""
    classes = PLAIN + COMPOSITE + [["SolverReplacement", {}], ["SolverHybrid", {}], ["SolverReplacementCacheless", {}]]
    jobs = jobs_generic(classes, "c10", 30, 300, n=8, truthy=True, multi=True)(tier, seed) + \
        jobs_generic([["SolverVSA", {}], ["SolverHybrid", {}]], "c10a", 30, 300, n=4, truthy=True, multi=True, alpha="approx",
                     cfg={"hybrid_exact": False})(tier, seed)
    bad, stats = C.pipeline("w_solver", jobs, "TraceSolver.tla")
    st = C.merge_stats(stats)
    findings = C.load_findings(pid)
    for _, tr, clause, extra in bad:
        if clause not in TRUTH_CLAUSES:
            continue
        k = int(extra)
        fid = match_finding(findings, tr, k, clause)
        if fid:
            R.add_known(fid["id"], fid["what"])
            continue
        R.add_violation({"property": pid, "clause": clause, "tid": tr["tid"], "step": k, "event": describe(tr["ev"][k - 1]),
                         "vars": tr["vars"], "history": [describe(e) for e in tr["ev"][:k]]})
    # floating point: truth claims about fpToIEEEBV(f) under fpEQ(f, c) on every frontend class (TraceFPSolve.tla)
    fb, fstats = C.pipeline("w_fpsolve", [{"classes": classes + [["SolverHybrid", {"approximate_first": True}]]}], "TraceFPSolve.tla")
    for _, ev, clause, _x in fb:
        if clause in ("fp-is_true-overclaims", "fp-is_false-overclaims"):
            R.add_violation({"property": pid, "clause": clause, "cls": ev["cls"], "kw": ev["kw"], "format": [ev["eb"], ev["sb"]],
                             "constant": ev["c"], "spelling": ev["spell"], "is_true_raw_eq_poszero": ev["ist0"],
                             "is_false_raw_eq_negzero": ev["isf1"]})
    return st.get("calls", 0) + C.merge_stats(fstats)["events"]


def describe(ev):
    """short rendering of an event for replay files / finding predicates"""
    return {k: ev[k] for k in ("call", "s", "e", "es", "n", "v", "signed", "extra", "cs", "others", "ret", "rets",
                               "exc", "mode", "fault", "fired", "cls", "kw", "new", "anc", "groups", "checks") if k in ev}


def check(pid, tier, regen=False):
    seed = C.seed()
    spec = SPECS[pid]
    R = C.Result(pid, spec["level"], tier)
    jobs = spec["jobs"](tier, seed)
    k1 = None
    if spec.get("k1"):
        k1, hists = explore_cache(tier, seed, 2400 if tier == "quick" else 60000)
        n = 16
        for k in range(n):
            part = hists[k::n]
            if part:
                reuse = "1" if k % 4 == 3 else "0"
                jobs.append({"mode": "list", "W": 2, "alpha": "x1", "histories": part, "probe": True,
                             "tag": f"k1-r{reuse}", "env": {"REUSE_Z3_SOLVER": reuse}})
    k1c = None
    if spec.get("k1c"):
        k1c, hists, expect = explore_composite(tier, seed, 1600 if tier == "quick" else 60000)
        n = 16
        for k in range(n):
            if hists[k::n]:
                jobs.append({"mode": "list", "W": 2, "alpha": "xyz", "histories": hists[k::n], "expect_parts": expect[k::n],
                             "probe": True, "tag": "k1c", "env": {"REUSE_Z3_SOLVER": "0"}})
    k1w = None
    if spec.get("k1w"):
        k1w, hists, expect = explore_cow(tier, seed, 1200 if tier == "quick" else 40000)
        n = 16
        for k in range(n):
            if hists[k::n]:
                jobs.append({"mode": "list", "W": 2, "alpha": "xyz", "histories": hists[k::n], "expect_parts": expect[k::n],
                             "probe": True, "tag": "k1w", "env": {"REUSE_Z3_SOLVER": "0"}})
    k1r = None
    if spec.get("k1r"):
        k1r, hists, expect, keys = explore_replacement(tier, seed, 1200 if tier == "quick" else 40000)
        n = 16
        for k in range(n):
            if hists[k::n]:
                jobs.append({"mode": "list", "W": 2, "with_bool": True, "histories": hists[k::n], "expect_repl": expect[k::n],
                             "probe": True, "tag": "k1r", "cfg": {"repl_keys": keys}, "env": {"REUSE_Z3_SOLVER": "0"}})
    bad, stats = C.pipeline("w_solver", jobs, "TraceSolver.tla")
    st = C.merge_stats(stats)
    mine = spec["clauses"]
    findings = C.load_findings(pid)
    n_mine = 0
    for _, tr, clause, extra in bad:
        if clause not in mine:
            continue
        n_mine += 1
        k = int(extra)
        ev = tr["ev"][k - 1]
        hist = [describe(e) for e in tr["ev"][:k]]
        fid = match_finding(findings, tr, k, clause)
        if fid:
            R.add_known(fid["id"], fid["what"])
            continue
        R.add_violation({"property": pid, "clause": clause, "tid": tr["tid"], "step": k, "event": describe(ev),
                         "vars": tr["vars"], "history": hist})
    n_xp = 0
    if pid == "C18":
        # expressions: in-process identity, collected-original and fresh-process (PYTHONHASHSEED 0 / 1 / random) round trips
        pj = [{"n": 40 if tier == "quick" else 400, "seed": seed * 100 + k} for k in range(8)]
        pbad, pstats = C.pipeline("w_pickle", pj, "TracePickle.tla")
        n_xp = C.merge_stats(pstats)["events"]
        for _, ev, clause, _x in pbad:
            R.add_violation({"property": pid, "clause": "expr-" + clause, "mode": ev.get("mode"), "original": ev["w"],
                             "roundtrip": ev["r"], "probes": [p for p in ev["probes"] if p[0] != p[1]][:3]})
    R.coverage = {
        "expression_roundtrips": n_xp,
        "states": st.get("calls", 0) + st["events"],
        "transitions": st.get("calls", 0),
        "traces_validated_against_impl": st["events"],
        "samples": st["samples"][:2],
        "evaluations": st.get("calls", 0),
        "distinct_nontrivial": st["nontrivial"],
        "rule": "evaluations = public frontend calls executed and validated; distinct_nontrivial = distinct histories "
                "(input sequences incl. class/options and any armed fault), every one followed by the probe battery",
        "rejected_steps": n_mine,
        "explanation": "states/transitions = abstract SolverAbs states visited and steps taken while TLC folded the "
                       "recorded traces (one step per public call); exploration statistics of the refined spec are "
                       "listed under 'exploration' when the K1 export is part of the tier",
    }
    if k1c:
        k1c["partition_checked"] = st.get("partition_checked", 0)
        k1c["partition_drift"] = st.get("partition_drift", 0)
        k1c["partition_finer_than_model"] = st.get("partition_finer", 0)
        k1c["drift_samples"] = [x for s_ in stats for x in s_.get("drift_samples", [])][:3]
        if k1c["partition_checked"] != k1c["replayed"]:
            raise C.MachineryError(f"partition observed for {k1c['partition_checked']} of {k1c['replayed']} replayed histories")
        R.coverage["exploration"] = k1c
        R.coverage["states"] = k1c["states"]
        R.coverage["transitions"] = k1c["transitions"]
        R.coverage["explanation"] = ("states/transitions: TLC exploration of the refined partition model spec/SolverComposite.tla "
                                     "(refinement property AnswerStep + invariants RegDisjoint, RegWithinVars, Coverage, "
                                     "FlagSound, CheckedSat) to depth %d; %d of %d state x input histories replayed on the real "
                                     "class, each followed by the probe battery; after the state's history the partition of "
                                     "the real object (names per child, variables per child, flag) is compared with the "
                                     "model's (partition_finer_than_model: Z3's simplification rewrote constraints, which the model does not do; "
                                     "partition_drift = other disagreements: the model is then not the code; no verdict)"
                                     % (k1c["depth"], k1c["replayed"], k1c["transition_histories"]))
        if k1c["model_violation"]:
            R.notes.append("SPEC-DRIFT: refined model violates %s" % k1c["model_violation"])
        if k1c["partition_drift"]:
            R.notes.append("SPEC-DRIFT: %d of %d replayed histories end in a partition other than the model's" %
                           (k1c["partition_drift"], k1c["partition_checked"]))
    if k1w:
        k1w["partition_checked"] = st.get("partition_checked", 0)
        k1w["partition_drift"] = st.get("partition_drift", 0)
        k1w["partition_finer_than_model"] = st.get("partition_finer", 0)
        k1w["drift_samples"] = [x for s_ in stats for x in s_.get("drift_samples", [])][:3]
        if k1w["partition_checked"] != k1w["replayed"]:
            raise C.MachineryError(f"partitions observed for {k1w['partition_checked']} of {k1w['replayed']} replayed histories")
        R.coverage["exploration"] = k1w
        R.coverage["states"] = k1w["states"]
        R.coverage["transitions"] = k1w["transitions"]
        R.coverage["explanation"] = ("states/transitions: TLC exploration of spec/SolverCompositeCow.tla (a SolverComposite and its "
                                     "branch sharing child objects; ownership and claiming; AnswerStep per composite + CoverageC, "
                                     "RegWithinVars, OwnedExclusive; negative control 'noclaim' refuted) to depth %d; %d of %d state "
                                     "x input histories replayed on the real class and its branch, the partitions of both compared "
                                     "with the model's (no verdict); every call validated against SolverAbs (isolation clause)"
                                     % (k1w["depth"], k1w["replayed"], k1w["transition_histories"]))
        if k1w["model_violation"]:
            R.notes.append("SPEC-DRIFT: refined model violates %s" % k1w["model_violation"])
        if k1w["partition_drift"]:
            R.notes.append("SPEC-DRIFT: %d of %d replayed histories end in partitions other than the model's" %
                           (k1w["partition_drift"], k1w["partition_checked"]))
    if k1r:
        k1r["refined_state_checked"] = st.get("partition_checked", 0)
        k1r["refined_state_drift"] = st.get("partition_drift", 0)
        k1r["drift_samples"] = [x for s_ in stats for x in s_.get("drift_samples", [])][:3]
        if k1r["refined_state_checked"] != k1r["replayed"]:
            raise C.MachineryError(f"replacement state observed for {k1r['refined_state_checked']} of {k1r['replayed']} histories")
        R.coverage["exploration"] = k1r
        R.coverage["states"] = k1r["states"]
        R.coverage["transitions"] = k1r["transitions"]
        R.coverage["explanation"] = ("states/transitions: TLC exploration of the refined model spec/SolverReplacement.tla (term "
                                     "semantics of Term.tla; invariants ReplImplied, CacheImplied, ActualEquiv; action property "
                                     "OnlyKnown; the strict refinement property is refuted by TLC with the known finding as its "
                                     "counterexample) to depth %d; %d of %d state x input histories replayed on the real class; "
                                     "after the state's history the replacement dictionary of the real object is compared with "
                                     "the model's (refined_state_drift: disagreements, no verdict)"
                                     % (k1r["depth"], k1r["replayed"], k1r["transition_histories"]))
        if k1r["model_violation"]:
            R.notes.append("SPEC-DRIFT: refined model violates %s" % k1r["model_violation"])
        if k1r["refined_state_drift"]:
            R.notes.append("SPEC-DRIFT: %d of %d replayed histories end in a replacement dictionary other than the model's" %
                           (k1r["refined_state_drift"], k1r["refined_state_checked"]))
    if k1:
        R.coverage["exploration"] = k1
        R.coverage["states"] = k1["states"]
        R.coverage["transitions"] = k1["transitions"]
        R.coverage["explanation"] = ("states/transitions: TLC exploration of the refined cache model spec/SolverCache.tla "
                                     "(AnswerStep refinement property + cache invariants) to depth %d; one history per "
                                     "reachable refined state extended by every input was exported, %d of %d replayed on "
                                     "the real Solver and validated against SolverAbs together with the random histories"
                                     % (k1["depth"], k1["replayed"], k1["transition_histories"]))
        if k1["model_violation"]:
            R.notes.append("SPEC-DRIFT: refined model violates %s (counterexample replayed on the code)" % k1["model_violation"])
    if pid == "C13":
        # solution sets of floating-point equalities on the replacing / hybrid frontends (plain Solver as the control)
        fb, fstats = C.pipeline("w_fpsolve", [{"classes": [["Solver", {}], ["SolverReplacement", {}], ["SolverHybrid", {}],
                                                           ["SolverReplacementCacheless", {}], ["SolverComposite", {}]]}],
                                "TraceFPSolve.tla")
        R.coverage["fp_solution_set_events"] = C.merge_stats(fstats)["events"]
        for _, ev, clause, _x in fb:
            if clause in ("fp-is_true-overclaims", "fp-is_false-overclaims"):
                continue                                  # C10's clauses
            R.add_violation({"property": pid, "clause": clause, "cls": ev["cls"], "format": [ev["eb"], ev["sb"]], "constant": ev["c"],
                             "spelling": ev["spell"], "eval": ev["vals"], "solution_negzero": ev["negz"],
                             "solution_poszero": ev["poz"], "exc": ev["exc"]})
    if pid in ("C11", "C12", "C13"):
        # executions this framework did not script: the repository's own test-suite and wide-width histories, recorded
        # by harness/recorder.py and validated against spec/Knowledge.tla (no term semantics, any width)
        from . import eng_knowledge
        R.coverage["knowledge_monitor"] = eng_knowledge.stream(R, pid, tier, seed)
    R.assumptions = ["Z3 is correct", "variables of width <= 3: models enumerated exhaustively by TLC",
                     "reference state computed from logged inputs only"]
    return R.finish()


def _pred_composite_unsat_flag(tr, k, clause):
    """SolverComposite keeps the fact "unsatisfiable" outside its children (the private _unsat flag for a concretely
    false constraint; a variable-free child holding False after simplification) and combine() / merge() / split()
    do not carry it over: a result whose reference model set is empty answers as if it were satisfiable"""
    evs = tr["ev"][:k]
    ev = evs[-1]
    if ev.get("cls") not in ("SolverComposite", "SolverCompositeChild"):
        return False
    if not any(e["call"] in ("combine", "merge", "split") for e in evs):
        return False
    if clause in ("answer-on-unsat", "eval-on-unsat", "solution-on-unsat", "split-models"):
        return True
    if clause == "core-satisfiable" and len(ev.get("rets", [])) == 0:
        return True          # the derived solver does not know it is unsatisfiable: no core
    if clause == "satisfiable" and ev["ret"] == [[[1]]]:
        return True
    # a merge operand that is unsatisfiable only through the private flag contributes its merge condition as if it
    # were satisfiable: the merged solver is too weak (wrong answers on a satisfiable state as well)
    return any(e["call"] in ("add", "merge") and e.get("cfalse") for e in evs)


def _pred_composite_stale_child(tr, k, clause):
    """split() of a SolverComposite after a query that spanned several variables: the merged child created for the
    query stays registered for variables that have no constraints, so the parts overlap"""
    evs = tr["ev"][:k]
    ev = evs[-1]
    if ev.get("cls") != "SolverComposite" or ev["call"] != "split" or clause != "split-shared-vars":
        return False

    def nvars(t):
        from .term import free_vars
        return len(free_vars(t))
    return any(e["call"] in ("eval", "batch_eval", "min", "max", "solution") and
               max([nvars(e["e"])] + [nvars(x) for x in e["es"]] + [nvars(x) for x in e["extra"]] + [0]) >= 2
               for e in evs)


def _pred_core_empty_on_concrete_false(tr, k, clause):
    """the constraints are unsatisfiable because a constraint folded to False when it was built; the backend was
    never asked and unsat_core() returns an empty core"""
    evs = tr["ev"][:k]
    ev = evs[-1]
    return ev["call"] == "unsat_core" and clause == "core-satisfiable" and len(ev["rets"]) == 0 and \
        (any(e["call"] in ("add", "merge") and e.get("cfalse") for e in evs)
         or any(t[0] == "BoolV" and t[2] == [0] for t in ev.get("scons", [])))


def _pred_replacement_concrete_on_unsat(tr, k, clause):
    """SolverReplacement answers a query whose expression becomes concrete under the installed replacements
    without consulting the constraints, also when those are unsatisfiable"""
    ev = tr["ev"][k - 1]
    return ev.get("cls", "").startswith("SolverReplacement") and \
        clause in ("answer-on-unsat", "eval-on-unsat", "solution-on-unsat")


def _strip_ann(t):
    return [t[0], t[1], t[2], [_strip_ann(a) for a in t[3]]]


def _pred_core_annotation_confusion(tr, k, clause):
    """unsat_core() maps Z3's core back to claripy constraints through a per-backend cache keyed by the Z3 term, which
    does not see annotations: the core can contain a constraint that differs from the added one only in its
    annotations (possibly one that a different solver added)"""
    if clause != "core-not-subset":
        return False
    ev = tr["ev"][k - 1]
    added = set()
    for e in tr["ev"][:k]:
        for t in list(e.get("cs", [])) + list(e.get("csb", [])) + list(e.get("scons", [])):
            added.add(json.dumps(_strip_ann(t)))
    return bool(ev["rets"]) and all(json.dumps(_strip_ann(t)) in added for t in ev["rets"]) and \
        any(len(t) > 4 for e in tr["ev"][:k] for t in e.get("cs", []))


PREDICATES = {"composite-unsat-flag": _pred_composite_unsat_flag,
              "core-annotation-confusion": _pred_core_annotation_confusion,
              "core-empty-on-concrete-false": _pred_core_empty_on_concrete_false,
              "composite-stale-child": _pred_composite_stale_child,
              "replacement-concrete-on-unsat": _pred_replacement_concrete_on_unsat}


def match_finding(findings, tr, k, clause):
    ev = tr["ev"][k - 1]
    for f in findings:
        m = f.get("match", {})
        if m.get("clauses") and clause not in m["clauses"]:
            continue
        if m.get("calls") and ev["call"] not in m["calls"]:
            continue
        if m.get("classes") and ev.get("cls") not in m["classes"]:
            continue
        pred = PREDICATES.get(m.get("pred"))
        if pred is None or not pred(tr, k, clause):
            continue
        return f
    return None
