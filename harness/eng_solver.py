"""Solver engine: C11-C18, C26 — histories run on the real frontends, every call validated by TLC against
spec/SolverAbs.tla through spec/TraceSolver.tla; histories come from TLC exploration of the refined
SolverCache spec (K1 export), seeded random generation and the probe battery."""
from __future__ import annotations

import json
import os

from . import common as C

PLAIN = [["Solver", {}], ["SolverCacheless", {}], ["SolverStrings", {}]]

# clauses each property owns (a failing clause outside the set belongs to another property's check)
QUERY_CLAUSES = {"isolation", "satisfiable", "eval-infeasible", "eval-duplicates", "eval-count", "min", "max", "solution",
                 "unsat-on-sat", "answer-on-unsat", "eval-on-unsat", "solution-on-unsat", "exc"}
TRUTH_CLAUSES = {"is_true-overclaims", "is_false-overclaims"}
APPROX_CLAUSES = {"approx-unsat-on-sat", "approx-excludes-value", "approx-min-too-high", "approx-max-too-low",
                  "approx-none-on-sat"}
SPLIT_CLAUSES = {"split-shared-vars", "split-conjuncts", "split-duplicate", "split-models"}
CORE_CLAUSES = {"core-on-sat", "core-not-subset", "core-satisfiable"}
FAULT_CLAUSES = {"fault-answered", "fault-foreign-exception", "fault-unsat-on-sat"}


def jobs_C11(tier, seed):
    n = 16
    per = 60 if tier == "quick" else 600
    J = []
    for k in range(n):
        reuse = "1" if k % 2 else "0"
        J.append({"mode": "random", "seed": seed * 100 + k, "n": per, "len": 10, "W": 3 if k % 4 else 2,
                  "classes": PLAIN, "probe": True, "foldable": k % 8 == 0, "tag": f"c11-r{reuse}",
                  "env": {"REUSE_Z3_SOLVER": reuse}})
    return J


def jobs_generic(classes, tag, per_q, per_t, W=3, n=16, **kw):
    def f(tier, seed):
        per = per_q if tier == "quick" else per_t
        J = []
        for k in range(n):
            reuse = "1" if k % 2 else "0"
            j = {"mode": "random", "seed": seed * 100 + k, "n": per, "len": 10, "W": W, "classes": classes,
                 "probe": True, "tag": f"{tag}-r{reuse}", "env": {"REUSE_Z3_SOLVER": reuse}}
            j.update(kw)
            J.append(j)
        return J
    return f


COMPOSITE = [["SolverComposite", {}]]
REPL_EXACT = [["SolverReplacement", {}], ["SolverReplacement", {"auto_replace": False}], ["SolverHybrid", {}],
              ["SolverReplacementCacheless", {}]]
APPROX = [["SolverVSA", {}], ["SolverHybrid", {"approximate_first": True}]]
ALL_EXACT = PLAIN + COMPOSITE + [["SolverReplacement", {}], ["SolverHybrid", {}]]
TRACKED = [["Solver", {"track": True}], ["SolverComposite", {"track": True}], ["SolverCacheless", {"track": True}]]

SPECS = {
    "C11": dict(jobs=jobs_C11, clauses=QUERY_CLAUSES | TRUTH_CLAUSES, level="model_checking", k1=True),
    "C12": dict(jobs=jobs_generic(COMPOSITE, "c12", 50, 500, W=2, alpha="xyz", multi=True),
                clauses=QUERY_CLAUSES | TRUTH_CLAUSES | SPLIT_CLAUSES, level="model_checking"),
    "C13": dict(jobs=lambda tier, seed: jobs_generic(REPL_EXACT, "c13", 40, 400, n=10, with_bool=True, pickle=True)(tier, seed)
                + jobs_generic(APPROX, "c13a", 40, 400, n=4, alpha="approx")(tier, seed)
                + jobs_generic([["SolverHybrid", {}]], "c13h", 40, 400, n=2, alpha="approx",
                               cfg={"hybrid_exact": False})(tier, seed),
                clauses=QUERY_CLAUSES | TRUTH_CLAUSES | APPROX_CLAUSES, level="model_checking"),
    "C14": dict(jobs=lambda tier, seed: jobs_generic(ALL_EXACT + [["SolverReplacementCacheless", {}]], "c14", 40, 400, n=12,
                                                     branchy=True)(tier, seed)
                + jobs_generic([["SolverHybrid", {}], ["SolverVSA", {}]], "c14a", 40, 400, n=4, branchy=True, alpha="approx",
                               cfg={"hybrid_exact": False})(tier, seed),
                clauses=QUERY_CLAUSES | TRUTH_CLAUSES | APPROX_CLAUSES | {"isolation"}, level="model_checking"),
    "C15": dict(jobs=lambda tier, seed: jobs_generic(PLAIN + [["SolverHybrid", {}]], "c15", 40, 400, n=8, multi=True)(tier, seed)
                + jobs_generic(COMPOSITE, "c15c", 40, 400, n=8, W=2, alpha="xyz", multi=True)(tier, seed),
                clauses=QUERY_CLAUSES | TRUTH_CLAUSES | SPLIT_CLAUSES, level="model_checking"),
    "C16": dict(jobs=jobs_generic(TRACKED, "c16", 50, 500), clauses=CORE_CLAUSES | {"exc"}, level="model_checking"),
    "C17": dict(jobs=jobs_generic(PLAIN + COMPOSITE, "c17", 50, 500, faults=True, branchy=True),
                clauses=QUERY_CLAUSES | FAULT_CLAUSES, level="fault_enumeration"),
    "C18": dict(jobs=jobs_generic(ALL_EXACT, "c18", 40, 400, pickle=True),
                clauses=QUERY_CLAUSES | TRUTH_CLAUSES, level="model_checking"),
}


# ----------------------------------------------------------------------------------------------
# K1: TLC explores the refined cache model (spec/SolverCache.tla) and exports one history per reachable state
# ----------------------------------------------------------------------------------------------

def explore_cache(tier, seed, budget):
    """returns (stats dict, list of histories to replay on the real claripy.Solver)"""
    import random
    import re
    import shutil
    import subprocess
    import tempfile
    from . import term as TM
    from .w_solver import alphabet1
    A = alphabet1(2)
    # the denotations handed to TLC must be those of the terms handed to claripy
    for t, d in list(zip(A["cons"], A["cden"])) + [(e[0], d) for e, d in zip(A["extras"], A["eden"]) if e]:
        got = [v for v in range(4) if TM.z3_eval(t, {"x": v}) == 1]
        if got != d:
            raise C.MachineryError(f"alphabet denotation mismatch for {t}: {got} != {d}")
    d = tempfile.mkdtemp(prefix="k1-", dir=C.scratch())
    shutil.copy(os.path.join(C.SPEC, "SolverCache.tla"), d)
    depth = 4 if tier == "quick" else 5
    fmt = lambda ds: "<<" + ",".join("{" + ",".join(map(str, x)) + "}" for x in ds) + ">>"  # noqa: E731
    with open(os.path.join(d, "MC.tla"), "w") as f:
        f.write("---- MODULE MC ----\nEXTENDS SolverCache\n"
                f"MC_CDen == {fmt(A['cden'])}\nMC_EDen == {fmt(A['eden'])}\n====\n")
    with open(os.path.join(d, "MC.cfg"), "w") as f:
        f.write(f"CONSTANTS\n W = 2\n CDen <- MC_CDen\n EDen <- MC_EDen\n NVals = {{1,2,5}}\n NS = 2\n MaxDepth = {depth}\n"
                "SPECIFICATION Spec\nCONSTRAINT Depth\nVIEW view\nPROPERTY AnswerStep\nINVARIANT CacheSound\n"
                "INVARIANT SatcSound\nINVARIANT EvalExhSound\nINVARIANT OptExhSound\nCHECK_DEADLOCK FALSE\n")
    cmd = ["java", "-XX:+UseParallelGC", "-Xmx8g", "-cp", C.TLA_CP, "tlc2.TLC", "-workers", "8", "-noGenerateSpecTE",
           "-metadir", os.path.join(d, "md"), "-config", "MC.cfg", "-dump", os.path.join(d, "states"), "-coverage", "1",
           "MC.tla"]
    p = subprocess.run(cmd, cwd=d, capture_output=True, text=True, timeout=1500)
    out = p.stdout + p.stderr
    st = C.tlc_stats(out)
    if st is None:
        raise C.MachineryError("SolverCache exploration failed:\n" + out[-3000:])
    stats = {"states": st["distinct"], "transitions": st["generated"], "depth": depth,
             "model_violation": None}
    hists = []
    cex = None
    if "is violated" in out:
        # the refined model itself admits a wrong answer: keep TLC's counterexample and replay it first
        hs = re.findall(r"hist = (<<.*>>)", out)
        cex = hs[-1] if hs else None
        stats["model_violation"] = re.findall(r"Error: (.* is violated.*)", out)[:1]
    # actions never taken = vacuity
    for act in ("Add", "Satisfiable", "Eval", "Optimum", "Solution", "Branch"):
        m = re.search(r"<%s line \d+, col \d+ to line \d+, col \d+ of module SolverCache>: (\d+):(\d+)" % act, out)
        if m and int(m.group(2)) == 0 and not stats["model_violation"]:
            raise C.MachineryError(f"vacuity: action {act} of SolverCache was never taken")
    tup = re.compile(r"<<(\d+), (\d+), (\d+), (\d+)>>")
    dump = os.path.join(d, "states.dump")
    raw = []
    if os.path.exists(dump):
        with open(dump) as f:
            for line in f:
                if line.startswith("/\\ hist = "):
                    raw.append([tuple(map(int, t)) for t in tup.findall(line)])
    if cex:
        raw.insert(0, [tuple(map(int, t)) for t in tup.findall(cex)])
    shutil.rmtree(d, ignore_errors=True)

    def to_ops(h):
        ops = [["new", "Solver", {}]]
        for op, s_, a, b in h:
            s0 = s_ - 1
            if op == 1:
                ops.append(["add", s0, [A["cons"][a - 1]]])
            elif op == 2:
                ops.append(["satisfiable", s0, A["extras"][a - 1]])
            elif op == 3:
                ops.append(["eval", s0, A["exprs"][0], a, A["extras"][b - 1]])
            elif op in (4, 5):
                ops.append(["min" if op == 4 else "max", s0, A["exprs"][0], bool(a), A["extras"][b - 1]])
            elif op == 6:
                ops.append(["solution", s0, A["exprs"][0], TM.BVV(a, 2), A["extras"][b - 1], True])
            elif op == 7:
                ops.append(["branch", s0])
        return ops

    # every reachable refined state extended by every input = one replay per transition of the state graph
    inputs = [(1, c, 0) for c in range(1, len(A["cons"]) + 1)] + [(2, e, 0) for e in range(1, 5)] + \
             [(3, n, e) for n in (1, 2, 5) for e in range(1, 5)] + \
             [(o, sg, e) for o in (4, 5) for sg in (0, 1) for e in range(1, 5)] + \
             [(6, v, e) for v in range(4) for e in range(1, 5)] + [(7, 0, 0)]
    rng = random.Random(seed)
    allh = []
    for h in raw:
        nlive = 1 + sum(1 for t in h if t[0] == 7)
        for (o, a, b) in inputs:
            for s_ in range(1, nlive + 1):
                if o == 7 and nlive >= 2:
                    continue
                allh.append(h + [(o, s_, a if o != 7 else nlive + 1, b)])
    stats["state_histories"] = len(raw)
    stats["transition_histories"] = len(allh)
    if len(allh) > budget:
        pick = rng.sample(range(len(allh)), budget)
        allh = [allh[i] for i in sorted(pick)]
    if cex:
        allh.insert(0, [tuple(map(int, t)) for t in tup.findall(cex)])
    stats["replayed"] = len(allh)
    hists = [to_ops(h) for h in allh]
    return stats, hists


def describe(ev):
    """short rendering of an event for replay files / finding predicates"""
    return {k: ev[k] for k in ("call", "s", "e", "es", "n", "v", "signed", "extra", "cs", "others", "ret", "rets",
                               "exc", "mode", "fault", "fired", "cls", "kw", "new", "anc", "groups", "checks") if k in ev}


def check(pid, tier, regen=False):
    seed = C.seed()
    spec = SPECS[pid]
    R = C.Result(pid, spec["level"], tier)
    jobs = spec["jobs"](tier, seed)
    k1 = None
    if spec.get("k1"):
        k1, hists = explore_cache(tier, seed, 2400 if tier == "quick" else 60000)
        n = 16
        for k in range(n):
            part = hists[k::n]
            if part:
                reuse = "1" if k % 4 == 3 else "0"
                jobs.append({"mode": "list", "W": 2, "alpha": "x1", "histories": part, "probe": True,
                             "tag": f"k1-r{reuse}", "env": {"REUSE_Z3_SOLVER": reuse}})
    bad, stats = C.pipeline("w_solver", jobs, "TraceSolver.tla")
    st = C.merge_stats(stats)
    mine = spec["clauses"]
    findings = C.load_findings(pid)
    n_mine = 0
    for _, tr, clause, extra in bad:
        if clause not in mine:
            continue
        n_mine += 1
        k = int(extra)
        ev = tr["ev"][k - 1]
        hist = [describe(e) for e in tr["ev"][:k]]
        fid = match_finding(findings, tr, k, clause)
        if fid:
            R.add_known(fid["id"], fid["what"])
            continue
        R.add_violation({"property": pid, "clause": clause, "tid": tr["tid"], "step": k, "event": describe(ev),
                         "vars": tr["vars"], "history": hist})
    R.coverage = {
        "states": st.get("calls", 0) + st["events"],
        "transitions": st.get("calls", 0),
        "traces_validated_against_impl": st["events"],
        "samples": st["samples"][:2],
        "evaluations": st.get("calls", 0),
        "distinct_nontrivial": st["nontrivial"],
        "rule": "evaluations = public frontend calls executed and validated; distinct_nontrivial = distinct histories "
                "(input sequences incl. class/options and any armed fault), every one followed by the probe battery",
        "rejected_steps": n_mine,
        "explanation": "states/transitions = abstract SolverAbs states visited and steps taken while TLC folded the "
                       "recorded traces (one step per public call); exploration statistics of the refined spec are "
                       "listed under 'exploration' when the K1 export is part of the tier",
    }
    if k1:
        R.coverage["exploration"] = k1
        R.coverage["states"] = k1["states"]
        R.coverage["transitions"] = k1["transitions"]
        R.coverage["explanation"] = ("states/transitions: TLC exploration of the refined cache model spec/SolverCache.tla "
                                     "(AnswerStep refinement property + cache invariants) to depth %d; one history per "
                                     "reachable refined state extended by every input was exported, %d of %d replayed on "
                                     "the real Solver and validated against SolverAbs together with the random histories"
                                     % (k1["depth"], k1["replayed"], k1["transition_histories"]))
        if k1["model_violation"]:
            R.notes.append("SPEC-DRIFT: refined model violates %s (counterexample replayed on the code)" % k1["model_violation"])
    R.assumptions = ["Z3 is correct", "variables of width <= 3: models enumerated exhaustively by TLC",
                     "reference state computed from logged inputs only"]
    return R.finish()


def _pred_composite_unsat_flag(tr, k, clause):
    """SolverComposite keeps the fact "unsatisfiable" outside its children (the private _unsat flag for a concretely
    false constraint; a variable-free child holding False after simplification) and combine() / merge() / split()
    do not carry it over: a result whose reference model set is empty answers as if it were satisfiable"""
    evs = tr["ev"][:k]
    ev = evs[-1]
    if ev.get("cls") not in ("SolverComposite", "SolverCompositeChild"):
        return False
    if not any(e["call"] in ("combine", "merge", "split") for e in evs):
        return False
    if clause in ("answer-on-unsat", "eval-on-unsat", "solution-on-unsat", "split-models"):
        return True
    if clause == "satisfiable" and ev["ret"] == [[[1]]]:
        return True
    # a merge operand that is unsatisfiable only through the private flag contributes its merge condition as if it
    # were satisfiable: the merged solver is too weak (wrong answers on a satisfiable state as well)
    return any(e["call"] in ("add", "merge") and e.get("cfalse") for e in evs)


def _pred_composite_stale_child(tr, k, clause):
    """split() of a SolverComposite after a query that spanned several variables: the merged child created for the
    query stays registered for variables that have no constraints, so the parts overlap"""
    evs = tr["ev"][:k]
    ev = evs[-1]
    if ev.get("cls") != "SolverComposite" or ev["call"] != "split" or clause != "split-shared-vars":
        return False

    def nvars(t):
        from .term import free_vars
        return len(free_vars(t))
    return any(e["call"] in ("eval", "batch_eval", "min", "max", "solution") and
               max([nvars(e["e"])] + [nvars(x) for x in e["es"]] + [nvars(x) for x in e["extra"]] + [0]) >= 2
               for e in evs)


def _pred_core_empty_on_concrete_false(tr, k, clause):
    """the constraints are unsatisfiable because a constraint folded to False when it was built; the backend was
    never asked and unsat_core() returns an empty core"""
    evs = tr["ev"][:k]
    ev = evs[-1]
    return ev["call"] == "unsat_core" and clause == "core-satisfiable" and len(ev["rets"]) == 0 and \
        any(e["call"] == "add" and e.get("cfalse") and e["s"] == ev["s"] for e in evs)


def _pred_replacement_concrete_on_unsat(tr, k, clause):
    """SolverReplacement answers a query whose expression becomes concrete under the installed replacements
    without consulting the constraints, also when those are unsatisfiable"""
    ev = tr["ev"][k - 1]
    return ev.get("cls", "").startswith("SolverReplacement") and \
        clause in ("answer-on-unsat", "eval-on-unsat", "solution-on-unsat")


PREDICATES = {"composite-unsat-flag": _pred_composite_unsat_flag,
              "core-empty-on-concrete-false": _pred_core_empty_on_concrete_false,
              "composite-stale-child": _pred_composite_stale_child,
              "replacement-concrete-on-unsat": _pred_replacement_concrete_on_unsat}


def match_finding(findings, tr, k, clause):
    ev = tr["ev"][k - 1]
    for f in findings:
        m = f.get("match", {})
        if m.get("clauses") and clause not in m["clauses"]:
            continue
        if m.get("calls") and ev["call"] not in m["calls"]:
            continue
        if m.get("classes") and ev.get("cls") not in m["classes"]:
            continue
        pred = PREDICATES.get(m.get("pred"))
        if pred is None or not pred(tr, k, clause):
            continue
        return f
    return None
