"""Solver engine: C11-C18, C26 — histories run on the real frontends, every call validated by TLC against
spec/SolverAbs.tla through spec/TraceSolver.tla; histories come from TLC exploration of the refined
SolverCache spec (K1 export), seeded random generation and the probe battery."""
from __future__ import annotations

import json
import os

from . import common as C

PLAIN = [["Solver", {}], ["SolverCacheless", {}], ["SolverStrings", {}]]

# clauses each property owns (a failing clause outside the set belongs to another property's check)
QUERY_CLAUSES = {"satisfiable", "eval-infeasible", "eval-duplicates", "eval-count", "min", "max", "solution",
                 "unsat-on-sat", "answer-on-unsat", "eval-on-unsat", "solution-on-unsat", "exc"}
TRUTH_CLAUSES = {"is_true-overclaims", "is_false-overclaims"}
APPROX_CLAUSES = {"approx-unsat-on-sat", "approx-excludes-value", "approx-min-too-high", "approx-max-too-low",
                  "approx-none-on-sat"}
SPLIT_CLAUSES = {"split-shared-vars", "split-conjuncts", "split-duplicate", "split-models"}
CORE_CLAUSES = {"core-on-sat", "core-not-subset", "core-satisfiable"}
FAULT_CLAUSES = {"fault-answered", "fault-foreign-exception", "fault-unsat-on-sat"}


def jobs_C11(tier, seed):
    n = 16
    per = 60 if tier == "quick" else 600
    J = []
    for k in range(n):
        reuse = "1" if k % 2 else "0"
        J.append({"mode": "random", "seed": seed * 100 + k, "n": per, "len": 10, "W": 3 if k % 4 else 2,
                  "classes": PLAIN, "probe": True, "foldable": k % 8 == 0, "tag": f"c11-r{reuse}",
                  "env": {"REUSE_Z3_SOLVER": reuse}})
    return J


def jobs_generic(classes, tag, per_q, per_t, W=3, n=16, **kw):
    def f(tier, seed):
        per = per_q if tier == "quick" else per_t
        J = []
        for k in range(n):
            reuse = "1" if k % 2 else "0"
            j = {"mode": "random", "seed": seed * 100 + k, "n": per, "len": 10, "W": W, "classes": classes,
                 "probe": True, "tag": f"{tag}-r{reuse}", "env": {"REUSE_Z3_SOLVER": reuse}}
            j.update(kw)
            J.append(j)
        return J
    return f


COMPOSITE = [["SolverComposite", {}]]
REPL_EXACT = [["SolverReplacement", {}], ["SolverReplacement", {"auto_replace": False}], ["SolverHybrid", {}],
              ["SolverReplacementCacheless", {}]]
APPROX = [["SolverVSA", {}], ["SolverHybrid", {"approximate_first": True}]]
ALL_EXACT = PLAIN + COMPOSITE + [["SolverReplacement", {}], ["SolverHybrid", {}]]
TRACKED = [["Solver", {"track": True}], ["SolverComposite", {"track": True}], ["SolverCacheless", {"track": True}]]

SPECS = {
    "C11": dict(jobs=jobs_C11, clauses=QUERY_CLAUSES | TRUTH_CLAUSES, level="model_checking"),
    "C12": dict(jobs=jobs_generic(COMPOSITE, "c12", 50, 500, W=2, alpha="xyz", multi=True),
                clauses=QUERY_CLAUSES | TRUTH_CLAUSES | SPLIT_CLAUSES, level="model_checking"),
    "C13": dict(jobs=lambda tier, seed: jobs_generic(REPL_EXACT, "c13", 40, 400, n=10, with_bool=True)(tier, seed)
                + jobs_generic(APPROX, "c13a", 40, 400, n=4, alpha="approx")(tier, seed)
                + jobs_generic([["SolverHybrid", {}]], "c13h", 40, 400, n=2, alpha="approx",
                               cfg={"hybrid_exact": False})(tier, seed),
                clauses=QUERY_CLAUSES | TRUTH_CLAUSES | APPROX_CLAUSES, level="model_checking"),
    "C14": dict(jobs=jobs_generic(ALL_EXACT, "c14", 40, 400, branchy=True),
                clauses=QUERY_CLAUSES | TRUTH_CLAUSES, level="model_checking"),
    "C15": dict(jobs=lambda tier, seed: jobs_generic(PLAIN + [["SolverHybrid", {}]], "c15", 40, 400, n=8, multi=True)(tier, seed)
                + jobs_generic(COMPOSITE, "c15c", 40, 400, n=8, W=2, alpha="xyz", multi=True)(tier, seed),
                clauses=QUERY_CLAUSES | TRUTH_CLAUSES | SPLIT_CLAUSES, level="model_checking"),
    "C16": dict(jobs=jobs_generic(TRACKED, "c16", 50, 500), clauses=CORE_CLAUSES | {"exc"}, level="model_checking"),
    "C17": dict(jobs=jobs_generic(PLAIN + COMPOSITE, "c17", 50, 500, faults=True, branchy=True),
                clauses=QUERY_CLAUSES | FAULT_CLAUSES, level="fault_enumeration"),
    "C18": dict(jobs=jobs_generic(ALL_EXACT, "c18", 40, 400, pickle=True),
                clauses=QUERY_CLAUSES | TRUTH_CLAUSES, level="model_checking"),
}


def describe(ev):
    """short rendering of an event for replay files / finding predicates"""
    return {k: ev[k] for k in ("call", "s", "e", "es", "n", "v", "signed", "extra", "cs", "others", "ret", "rets",
                               "exc", "mode", "fault", "fired", "cls", "kw", "new", "anc", "groups", "checks") if k in ev}


def check(pid, tier, regen=False):
    seed = C.seed()
    spec = SPECS[pid]
    R = C.Result(pid, spec["level"], tier)
    jobs = spec["jobs"](tier, seed)
    bad, stats = C.pipeline("w_solver", jobs, "TraceSolver.tla")
    st = C.merge_stats(stats)
    mine = spec["clauses"]
    findings = C.load_findings(pid)
    n_mine = 0
    for _, tr, clause, extra in bad:
        if clause not in mine:
            continue
        n_mine += 1
        k = int(extra)
        ev = tr["ev"][k - 1]
        hist = [describe(e) for e in tr["ev"][:k]]
        fid = match_finding(findings, tr, k, clause)
        if fid:
            R.add_known(fid["id"], fid["what"])
            continue
        R.add_violation({"property": pid, "clause": clause, "tid": tr["tid"], "step": k, "event": describe(ev),
                         "vars": tr["vars"], "history": hist})
    R.coverage = {
        "states": st.get("calls", 0) + st["events"],
        "transitions": st.get("calls", 0),
        "traces_validated_against_impl": st["events"],
        "samples": st["samples"][:2],
        "evaluations": st.get("calls", 0),
        "distinct_nontrivial": st["nontrivial"],
        "rule": "evaluations = public frontend calls executed and validated; distinct_nontrivial = distinct histories "
                "(input sequences incl. class/options and any armed fault), every one followed by the probe battery",
        "rejected_steps": n_mine,
        "explanation": "states/transitions = abstract SolverAbs states visited and steps taken while TLC folded the "
                       "recorded traces (one step per public call); exploration statistics of the refined spec are "
                       "listed under 'exploration' when the K1 export is part of the tier",
    }
    R.assumptions = ["Z3 is correct", "variables of width <= 3: models enumerated exhaustively by TLC",
                     "reference state computed from logged inputs only"]
    return R.finish()


def _pred_composite_unsat_flag(tr, k, clause):
    """a SolverComposite received a concretely false constraint (only recorded in its private _unsat flag) and a
    combine / merge / split happened before the failing step"""
    evs = tr["ev"][:k]
    ev = evs[-1]
    if ev.get("cls") not in ("SolverComposite", "SolverCompositeChild"):
        return False
    return any(e["call"] == "add" and e.get("cfalse") for e in evs) and \
        any(e["call"] in ("combine", "merge", "split") for e in evs)


def _pred_replacement_concrete_on_unsat(tr, k, clause):
    """SolverReplacement / SolverHybrid answer a query whose expression becomes concrete under the installed
    replacements without consulting the constraints, also when those are unsatisfiable"""
    ev = tr["ev"][k - 1]
    return ev.get("cls", "").startswith("SolverReplacement") and \
        clause in ("answer-on-unsat", "eval-on-unsat", "solution-on-unsat")


def _pred_composite_stale_child(tr, k, clause):
    """split() of a SolverComposite after a query that spanned several variables: the merged child created for the
    query stays registered for variables that have no constraints, so the parts overlap"""
    evs = tr["ev"][:k]
    ev = evs[-1]
    if ev.get("cls") != "SolverComposite" or ev["call"] != "split" or clause != "split-shared-vars":
        return False

    def nvars(t):
        from .term import free_vars
        return len(free_vars(t))
    return any(e["call"] in ("eval", "batch_eval", "min", "max", "solution") and
               max([nvars(e["e"])] + [nvars(x) for x in e["es"]] + [nvars(x) for x in e["extra"]] + [0]) >= 2
               for e in evs)


def _pred_core_empty_on_concrete_false(tr, k, clause):
    """the constraints are unsatisfiable because a constraint folded to False when it was built; the backend was
    never asked and unsat_core() returns an empty core"""
    evs = tr["ev"][:k]
    ev = evs[-1]
    return ev["call"] == "unsat_core" and clause == "core-satisfiable" and len(ev["rets"]) == 0 and \
        any(e["call"] == "add" and e.get("cfalse") and e["s"] == ev["s"] for e in evs)


PREDICATES = {"composite-unsat-flag": _pred_composite_unsat_flag,
              "core-empty-on-concrete-false": _pred_core_empty_on_concrete_false,
              "composite-stale-child": _pred_composite_stale_child,
              "replacement-concrete-on-unsat": _pred_replacement_concrete_on_unsat}


def match_finding(findings, tr, k, clause):
    ev = tr["ev"][k - 1]
    for f in findings:
        m = f.get("match", {})
        if m.get("clauses") and clause not in m["clauses"]:
            continue
        if m.get("calls") and ev["call"] not in m["calls"]:
            continue
        if m.get("classes") and ev.get("cls") not in m["classes"]:
            continue
        pred = PREDICATES.get(m.get("pred"))
        if pred is None or not pred(tr, k, clause):
            continue
        return f
    return None
