"""Worker for the utility engine (C08, C09): drives claripy's public utilities in a fresh interpreter and records
one event per call for spec/TraceExpr.tla (clauses in spec/UtilSem.tla).  Python never judges an output: it only
builds inputs, calls the utility and serialises inputs and outputs.

usage: python -m harness.w_util job.json outprefix
job = {"gen": <stream>, "part": k, "nparts": n, "seed": s, ...}
"""
from __future__ import annotations

import json
import random
import resource
import signal
import sys

from . import gen_expr as G
from . import gen_util as U
from . import term as TM
from .wlib import ShardWriter

DUMMY = ["BoolV", "", [0], []]


class _Timeout(Exception):
    pass


def _alarm(signum, frame):
    raise _Timeout()


def guarded(fn, secs=20):
    """run fn() with a budget of CPU time of this process (not wall-clock time: a loaded machine must not turn a fast
    call into a "Timeout"); returns (outcome, value)"""
    signal.signal(signal.SIGPROF, _alarm)
    signal.setitimer(signal.ITIMER_PROF, secs)
    import claripy
    try:
        return "ok", fn()
    except claripy.errors.ClaripyZeroDivisionError:
        return "ZeroDiv", None
    except _Timeout:
        return "Timeout", None
    except MemoryError:
        return "MemoryError", None
    except Exception as ex:  # noqa: BLE001
        return "PyError:" + type(ex).__name__, None
    finally:
        signal.setitimer(signal.ITIMER_PROF, 0)


def build(t):
    return guarded(lambda: TM.build(t, "std"))


_POOL = None


def guarded_thread(fn, secs=30):
    """run fn() in a (persistent) NON-MAIN thread of this process: claripy keeps a Z3 context, tactics and caches
    per thread, so the same call takes other paths than in the main thread.  returns (outcome, value)"""
    global _POOL
    import concurrent.futures as cf
    import claripy
    if _POOL is None:
        _POOL = cf.ThreadPoolExecutor(max_workers=1, thread_name_prefix="verif-worker")
    fut = _POOL.submit(fn)
    try:
        return "ok", fut.result(timeout=secs)
    except cf.TimeoutError:
        _POOL = None            # leave the stuck thread behind, use a fresh one
        return "Timeout", None
    except claripy.errors.ClaripyZeroDivisionError:
        return "ZeroDiv", None
    except MemoryError:
        return "MemoryError", None
    except Exception as ex:  # noqa: BLE001
        return "PyError:" + type(ex).__name__, None


def run_guarded(cx, fn, secs=20):
    return guarded_thread(fn, secs + 10) if cx.job.get("thread") else guarded(fn, secs)


def vars_asgs(terms, job, rng):
    fv = {}
    for t in terms:
        TM.free_vars(t, fv)
    nbits = sum(w if w else 1 for w in fv.values())
    asgs = [] if nbits <= job.get("enum_bits", 10) else G.rand_asgs(rng, fv, job.get("asgs", 24))
    return [[n, w] for n, w in sorted(fv.items())], asgs


def is_ast(a):
    import claripy
    return isinstance(a, claripy.ast.Base)


def in_language(a):
    """only BV / Bool ASTs are serialised for TLC's reference semantics"""
    import claripy
    return isinstance(a, (claripy.ast.BV, claripy.ast.Bool))


class Ctx:
    def __init__(self, job, out, rng):
        self.job, self.out, self.rng = job, out, rng
        self.det = bool(job.get("det", False))
        self.n = 0

    def emit(self, ev, nontrivial=None, sample=None):
        ev["det"] = self.det
        ev["gi"] = self.n
        self.n += 1
        self.out.write(ev, nontrivial_key=nontrivial, outcome=ev["k"] + ":" + ev.get("u", "") + ":" + ev["out"],
                       sample=sample)


# ----------------------------------------------------------------------------------------------
# C08 (c): excavate_ite / burrow_ite
# ----------------------------------------------------------------------------------------------

def ev_equiv(cx, u, a, fn):
    w = TM.ser(a)
    if cx.job.get("thread"):
        u = u + "@thread"
    oc, r = run_guarded(cx, lambda: fn(a), secs=cx.job.get("budget_s", 20))
    if oc == "Timeout":
        # a wall-clock budget is not an answer of the utility (Z3's aig tactic bit-blasts 64-bit divisions for
        # many seconds): counted, not judged
        oo = cx.out.stats["outcomes"]
        oo["equiv:" + u + ":Timeout(skipped)"] = oo.get("equiv:" + u + ":Timeout(skipped)", 0) + 1
        return None
    if oc == "ok" and not is_ast(r):
        oc, r = "NotAnAST", None
    rt = TM.ser(r) if oc == "ok" else DUMMY
    vs, asgs = vars_asgs([w, rt], cx.job, cx.rng)
    ev = {"k": "equiv", "u": u, "out": oc, "w": w, "r": rt, "vars": vs, "asgs": asgs}
    nt = oc == "ok" and rt != w
    cx.emit(ev, nontrivial=[u, w, rt] if nt else None, sample={"utility": u, "input": w, "output": rt} if nt else None)
    return r


def stream_ite(cx):
    import claripy
    for t in parts(cx, U.tree_pool(cx.job, cx.rng)):
        oc, a = build(t)
        if oc != "ok" or a.is_leaf():
            continue
        ev_equiv(cx, "excavate_ite", a, claripy.excavate_ite)
        b = ev_equiv(cx, "burrow_ite", a, claripy.burrow_ite)
        if cx.job.get("compose") and is_ast(b) and b is not a:
            ev_equiv(cx, "excavate_ite", b, claripy.excavate_ite)


def parts(cx, it):
    """slice `part` of `nparts` of every `stride`-th element of a stream"""
    part, nparts, stride = cx.job.get("part", 0), cx.job.get("nparts", 1), cx.job.get("stride", 1)
    j = 0
    for i, x in enumerate(it):
        if i % stride:
            continue
        if j % nparts == part:
            yield x
        j += 1


# ----------------------------------------------------------------------------------------------
# C08 (a): replace / replace_dict, (b): canonicalize
# ----------------------------------------------------------------------------------------------

def subnodes(a, limit=40):
    """distinct AST nodes of the tree claripy holds (pre-order)"""
    seen, out, stack = set(), [], [a]
    while stack and len(out) < limit:
        n = stack.pop()
        if not is_ast(n) or id(n) in seen:
            continue
        seen.add(id(n))
        out.append(n)
        stack.extend(reversed([x for x in n.args if is_ast(x)]))
    return out


def ev_subst(cx, u, a, olds, news, leaf_op=None):
    import claripy
    if u == "replace":
        call = lambda: claripy.replace(a, olds[0], news[0])     # noqa: E731
    elif u == "replace_dict":
        call = lambda: claripy.replace_dict(a, {o.hash(): n for o, n in zip(olds, news)})     # noqa: E731
    else:   # replace_dict with a leaf operation: olds/news additionally list every leaf and its image
        k = leaf_op["k"]
        call = lambda: claripy.replace_dict(a, {o.hash(): n for o, n in zip(olds[:k], news[:k])},    # noqa: E731
                                            leaf_operation=leaf_op["fn"])
    oc, r = guarded(call)
    if oc == "ok" and not is_ast(r):
        oc, r = "NotAnAST", None
    e = TM.ser(a)
    rt = TM.ser(r) if oc == "ok" else DUMMY
    ev = {"k": "subst", "u": u, "out": oc, "e": e, "os": [TM.ser(o) for o in olds], "ns": [TM.ser(n) for n in news],
          "r": rt, "same": bool(r is a)}
    nt = oc == "ok" and rt != e
    cx.emit(ev, nontrivial=[u, e, ev["os"], ev["ns"]] if nt else None,
            sample={"utility": u, "held": e, "old": ev["os"], "new": ev["ns"], "result": rt} if nt else None)


def same_sort_pool(cx, o, a, nodes):
    """replacement candidates of the sort (and width) of node o"""
    import claripy
    rng = cx.rng
    out = []
    if isinstance(o, claripy.ast.BV):
        w = o.length
        out.append(claripy.BVS("z", w, explicit_name=True))
        out.append(claripy.BVV(rng.getrandbits(w), w))
        out.append(o + 1)                                  # contains the replaced node itself
        out += [n for n in nodes if isinstance(n, claripy.ast.BV) and n.length == w and n is not o][:2]
    else:
        out.append(claripy.BoolS("e", explicit_name=True))
        out.append(claripy.BoolV(bool(rng.getrandbits(1))))
        out.append(claripy.Not(o))
        out += [n for n in nodes if isinstance(n, claripy.ast.Bool) and n is not o][:2]
    out.append(a) if type(a) is type(o) and getattr(a, "length", None) == getattr(o, "length", None) else None
    return out


def absent_nodes(cx, a, nodes):
    """nodes that do NOT occur in the held AST: a fresh variable, and the binary prefix x+1 of a flattened x+1+k"""
    import claripy
    out = [claripy.BVS("nx", 3, explicit_name=True), claripy.BoolS("nb", explicit_name=True)]
    for n in nodes:
        if n.op in ("__add__", "__mul__", "__and__", "__or__", "__xor__", "And", "Or") and len(n.args) >= 3:
            oc, p = guarded(lambda n=n: n.make_like(n.op, n.args[:2]))
            if oc == "ok" and all(p is not m for m in nodes):
                out.append(p)
    ids = {id(m) for m in nodes}
    return [o for o in out if id(o) not in ids]


def stream_subst(cx):
    import claripy
    rng = cx.rng
    full = cx.job.get("full", False)
    for t in parts(cx, U.tree_pool(cx.job, rng)):
        oc, a = build(t)
        if oc != "ok":
            continue
        nodes = subnodes(a)
        # every sub-node as the replaced node
        for o in nodes:
            pool = same_sort_pool(cx, o, a, nodes)
            if not full:
                pool = rng.sample(pool, min(2, len(pool)))
            for n in pool:
                ev_subst(cx, "replace", a, [o], [n])
        # nodes without an occurrence: returned untouched
        for o in absent_nodes(cx, a, nodes):
            n = claripy.BVV(1, o.length) if isinstance(o, claripy.ast.BV) else claripy.true()
            ev_subst(cx, "replace", a, [o], [n])
        # simultaneous maps (replace_dict): pairs of nodes incl. nested ones (the outer one wins), swaps of leaves
        cand = nodes[1:] if len(nodes) > 1 else nodes
        for _ in range(cx.job.get("maps", 3)):
            k = rng.randint(1, min(3, len(cand)))
            olds = rng.sample(cand, k)
            news = []
            for o in olds:
                pool = same_sort_pool(cx, o, a, nodes)
                news.append(rng.choice(pool))
            ev_subst(cx, "replace_dict", a, olds, news)
        leaves = [n for n in nodes if n.is_leaf() and n.op in ("BVS", "BoolS")]
        if len(leaves) >= 2:
            same = [(p, q) for p in leaves for q in leaves if p is not q and type(p) is type(q)
                    and getattr(p, "length", None) == getattr(q, "length", None)]
            if same:
                p, q = same[0]
                ev_subst(cx, "replace_dict", a, [p, q], [q, p])         # swap: simultaneous, not sequential
        # leaf operation: every leaf that is not a key of the map is rewritten by leaf_operation
        lf = [n for n in nodes if n.is_leaf()]

        def leaf_fn(x):
            if x.op == "BVS":
                return claripy.BVS(x.args[0] + "_p", x.length, explicit_name=True)
            if x.op == "BVV":
                return claripy.BVV((x.args[0] + 1) % (1 << x.length), x.length)
            return x
        inner = [n for n in nodes if not n.is_leaf() and n is not a]
        olds = inner[:1]
        news = [same_sort_pool(cx, o, a, nodes)[0] for o in olds]
        k = len(olds)
        ev_subst(cx, "replace_dict+leaf_operation", a, olds + lf, news + [leaf_fn(x) for x in lf],
                 leaf_op={"k": k, "fn": leaf_fn})
        # canonicalize
        ev_canon(cx, a)


def ev_canon(cx, a):
    oc, res = guarded(lambda: a.canonicalize())
    w = TM.ser(a)
    pairs, rt = [], DUMMY
    if oc == "ok":
        try:
            var_map, _ctr, r = res
            rt = TM.ser(r)
            seen = set()
            for leaf in a.leaf_asts():
                if leaf.op in ("BVS", "BoolS") and leaf.hash() in var_map and leaf.args[0] not in seen:
                    seen.add(leaf.args[0])
                    pairs.append([leaf.args[0], var_map[leaf.hash()].args[0]])
        except Exception as ex:  # noqa: BLE001
            oc = "BadResult:" + type(ex).__name__
    ev = {"k": "canon", "u": "canonicalize", "out": oc, "w": w, "r": rt, "map": pairs}
    nt = oc == "ok" and len(pairs) > 0
    cx.emit(ev, nontrivial=["canon", w] if nt else None, sample={"utility": "canonicalize", "input": w, "output": rt,
                                                                 "map": pairs} if nt else None)


def stream_canonchain(cx):
    """canonicalize(var_map, counter) threaded through 2-3 expressions"""
    job, rng = cx.job, cx.rng
    src = U.canon_chains(job.get("W", 3)) if job.get("chains") == "core" else U.canon_chains_rand(rng, job["n"])
    for chain in parts(cx, src):
        asts = []
        for t in chain:
            oc, a = build(t)
            if oc == "ok":
                asts.append(a)
        if len(asts) < 2:
            continue

        def call():
            vm, ctr, rs = None, None, []
            for a in asts:
                vm, ctr, r = a.canonicalize(var_map=vm, counter=ctr)
                rs.append(r)
            return vm, rs
        oc, res = guarded(call)
        ws = [TM.ser(a) for a in asts]
        rts, pairs = [], []
        if oc == "ok":
            try:
                vm, rs = res
                rts = [TM.ser(r) for r in rs]
                seen = set()
                for a in asts:
                    for leaf in a.leaf_asts():
                        if leaf.op in ("BVS", "BoolS") and leaf.hash() in vm and leaf.args[0] not in seen:
                            seen.add(leaf.args[0])
                            pairs.append([leaf.args[0], vm[leaf.hash()].args[0]])
            except Exception as ex:  # noqa: BLE001
                oc = "BadResult:" + type(ex).__name__
        ev = {"k": "canonchain", "u": "canonicalize(chained)", "out": oc, "ws": ws, "rs": rts, "map": pairs}
        nt = oc == "ok" and len(pairs) > 1
        cx.emit(ev, nontrivial=["canonchain", ws] if nt else None,
                sample={"utility": "canonicalize (var_map, counter threaded)", "inputs": ws, "outputs": rts, "map": pairs}
                if nt and len(pairs) > 2 else None)


# ----------------------------------------------------------------------------------------------
# C08 (d): ite_cases / reverse_ite_cases / ite_dict
# ----------------------------------------------------------------------------------------------

def stream_cases(cx):
    import claripy
    job, rng = cx.job, cx.rng
    if job.get("cases") == "core":
        src = (cl for W in job.get("widths", (3,)) for cl in U.case_lists_core(W))
    else:
        src = U.case_lists_rand(rng, 3, job["n"])
    for cases, dflt in parts(cx, src):
        try:
            bc = [(TM.build(c), TM.build(v)) for c, v in cases]
            bd = TM.build(dflt)
        except Exception:  # noqa: BLE001
            continue
        oc, r = guarded(lambda: claripy.ite_cases(bc, bd))
        if oc == "ok" and not is_ast(r):
            oc, r = "NotAnAST", None
        cs = [[TM.ser(c), TM.ser(v)] for c, v in bc]       # the conditions / values claripy was actually given
        rt = TM.ser(r) if oc == "ok" else DUMMY
        vs, asgs = vars_asgs([rt, TM.ser(bd)] + [x for p in cs for x in p], job, rng)
        ev = {"k": "cases", "u": "ite_cases", "out": oc, "cases": cs, "dflt": TM.ser(bd), "r": rt, "vars": vs, "asgs": asgs}
        nt = oc == "ok" and len(cs) > 0
        cx.emit(ev, nontrivial=["cases", cs, ev["dflt"]] if nt else None,
                sample={"utility": "ite_cases", "cases": cs, "default": ev["dflt"], "output": rt} if len(cs) > 1 else None)
        if oc != "ok":
            continue
        oc2, pairs = guarded(lambda: list(claripy.reverse_ite_cases(r)))
        ps = []
        if oc2 == "ok":
            try:
                ps = [[TM.ser(c), TM.ser(v)] for c, v in pairs]
            except Exception as ex:  # noqa: BLE001
                oc2 = "BadResult:" + type(ex).__name__
        vs2, asgs2 = vars_asgs([rt] + [x for p in ps for x in p], job, rng)
        ev2 = {"k": "revcases", "u": "reverse_ite_cases", "out": oc2, "w": rt, "pairs": ps, "vars": vs2, "asgs": asgs2}
        nt2 = oc2 == "ok" and len(ps) > 1
        cx.emit(ev2, nontrivial=["rev", rt] if nt2 else None,
                sample={"utility": "reverse_ite_cases", "input": rt, "pairs": ps} if nt2 else None)


def stream_dict(cx):
    import claripy
    job, rng = cx.job, cx.rng
    src = U.dicts_core(job.get("W", 3)) if job.get("dicts") == "core" else U.dicts_rand(rng, job["n"])
    for i, kv, dflt in parts(cx, src):
        try:
            bi, bd = TM.build(i), TM.build(dflt)
            d = {k: TM.build(v) for k, v in kv}
        except Exception:  # noqa: BLE001
            continue
        W = bi.length
        oc, r = guarded(lambda: claripy.ite_dict(bi, d, bd))
        if oc == "ok" and not is_ast(r):
            oc, r = "NotAnAST", None
        rt = TM.ser(r) if oc == "ok" else DUMMY
        kvs = [[TM.bits(k, W), TM.ser(v)] for k, v in d.items()]
        vs, asgs = vars_asgs([rt, TM.ser(bi), TM.ser(bd)] + [p[1] for p in kvs], job, rng)
        ev = {"k": "dict", "u": "ite_dict", "out": oc, "i": TM.ser(bi), "kv": kvs, "dflt": TM.ser(bd), "r": rt,
              "vars": vs, "asgs": asgs, "size": len(kvs)}
        nt = oc == "ok" and len(kvs) > 0
        cx.emit(ev, nontrivial=["dict", ev["i"], kvs, ev["dflt"]] if nt else None,
                sample={"utility": "ite_dict", "index": ev["i"], "table": [[TM.unbits(k), v] for k, v in kvs],
                        "default": ev["dflt"], "output": rt} if 4 <= len(kvs) <= 5 else None)


# ----------------------------------------------------------------------------------------------
# C08 (e): chop / get_byte / get_bytes
# ----------------------------------------------------------------------------------------------

def stream_slices(cx):
    job, rng = cx.job, cx.rng
    widths = job.get("widths", [8, 9, 12, 16, 20, 24, 31, 32, 33, 40, 48, 56, 63, 64])
    work = []
    for s in widths:
        for t in U.slice_inputs(rng, s):
            work.append((s, t))
    for s, t in parts(cx, work):
        oc, a = build(t)
        if oc != "ok":
            continue
        w = TM.ser(a)
        divs = [b for b in (1, 2, 3, 4, 5, 7, 8, 16, 32, s) if s % b == 0 and s // b <= 16]
        for b in sorted(set(divs)):
            oc, rs = guarded(lambda: a.chop(b))
            rts = []
            if oc == "ok":
                try:
                    rts = [TM.ser(x) for x in rs]
                except Exception as ex:  # noqa: BLE001
                    oc = "BadResult:" + type(ex).__name__
            vs, asgs = vars_asgs([w] + rts, job, rng)
            ev = {"k": "chop", "u": "chop", "out": oc, "w": w, "bits": b, "rs": rts, "vars": vs, "asgs": asgs}
            nt = oc == "ok" and len(rts) > 1
            cx.emit(ev, nontrivial=["chop", w, b] if nt else None,
                    sample={"utility": "chop", "input": w, "bits": b, "output": rts[:2]} if nt and len(rts) == 2 else None)
        nb = (s + 7) // 8
        for index in range(nb):
            sizes = range(1, nb - index + 1)
            for size in (sizes if nb <= 4 else sorted({1, 2, nb - index} & set(sizes))):
                for u in (("get_byte", "get_bytes") if size == 1 else ("get_bytes",)):
                    if u == "get_byte":
                        oc, r = guarded(lambda: a.get_byte(index))
                    else:
                        oc, r = guarded(lambda: a.get_bytes(index, size))
                    if oc == "ok" and not is_ast(r):
                        oc, r = "NotAnAST", None
                    rt = TM.ser(r) if oc == "ok" else DUMMY
                    vs, asgs = vars_asgs([w, rt], job, rng)
                    ev = {"k": "bytes", "u": u, "out": oc, "w": w, "index": index, "size": size, "r": rt, "vars": vs,
                          "asgs": asgs}
                    cx.emit(ev, nontrivial=["bytes", u, w, index, size] if oc == "ok" else None,
                            sample={"utility": u, "input": w, "index": index, "size": size, "output": rt})


# ----------------------------------------------------------------------------------------------
# C08 (f): identical
# ----------------------------------------------------------------------------------------------

def ev_identical(cx, ta, tb, cls):
    oa, a = build(ta)
    ob, b = build(tb)
    if oa != "ok" or ob != "ok":
        return
    oc, ans = guarded(lambda: a.identical(b))
    if oc == "ok" and not isinstance(ans, bool):
        oc = "NotABool"
    ev = {"k": "alpha", "u": "identical", "out": oc, "ans": bool(ans) if oc == "ok" else False, "w": TM.ser(a),
          "r": TM.ser(b), "cls": cls, "bv": bool(hasattr(a, "length") and a.length is not None and a.op != "BoolV"
                                                  and type(a).__name__ == "BV")}
    nt = oc == "ok" and ev["ans"] and ev["w"] != ev["r"]
    cx.emit(ev, nontrivial=["identical", ev["w"], ev["r"]] if nt else None,
            sample={"utility": "identical", "a": ev["w"], "b": ev["r"], "answer": ev["ans"]} if nt else None)


def stream_identical(cx):
    job, rng = cx.job, cx.rng
    if job.get("pairs") == "fixed":
        for ta, tb in parts(cx, U.identical_fixed()):
            ev_identical(cx, ta, tb, "fixed")
            ev_identical(cx, tb, ta, "fixed")
        return
    # random pairs of C01-style depth-2 terms: unrelated, same shape with another constant, consistently renamed,
    # inconsistently renamed
    W = job.get("W", 3)
    pool = []
    for i, t in enumerate(G.d2(W)):
        if rng.random() < job.get("keep", 0.002):
            pool.append(t)
    rng.shuffle(pool)
    for t in parts(cx, pool[:job["n"]]):
        u = rng.choice(pool)
        if TM.is_bool(t) == TM.is_bool(u):
            ev_identical(cx, t, u, "unrelated")
        m = U.mutate_const(rng, t)
        if m is not None:
            ev_identical(cx, t, m, "const-changed")
        ev_identical(cx, t, U.rename(t, {"x": "y", "y": "x", "c": "d"}), "renamed")
        ev_identical(cx, t, U.rename(t, {"x": "y"}), "merged-vars")
        ev_identical(cx, t, t, "same")


# ----------------------------------------------------------------------------------------------
# C09: simplify (Z3 round trip) over the C01 term streams
# ----------------------------------------------------------------------------------------------

def c01_terms(job, rng):
    g = job["src"]
    if g == "exh":
        W = job["W"]
        if job["depth"] == 1:
            yield from G.d1_bv(W)
            yield from G.d1_bool(W)
        else:
            yield from G.d2(W)
    elif g == "rules":
        yield from G.rule_instances(rng, tuple(job.get("widths", (1, 2, 3, 4, 8, 16, 32, 64))), job.get("per", 2))
    elif g == "rand":
        for _ in range(job["n"]):
            W = rng.choice(job.get("widths", [1, 2, 3, 4, 5, 7, 8, 9, 16, 31, 32, 33, 63, 64]))
            yield G.rand_term(rng, W, rng.randint(2, job.get("depth", 5)), want_bool=rng.random() < 0.35)
    elif g == "trees":
        yield from U.tree_pool(job, rng)
    elif g == "booltrees":
        for _ in range(job["n"]):
            yield U.rand_tree(rng, rng.choice(job.get("widths", (2, 3, 3))), rng.randint(2, job.get("depth", 4)), want_bool=True)


def sampled(job, it):
    k = job.get("sample", 1)
    off = job.get("sample_seed", 0) % k if k > 1 else 0
    for i, t in enumerate(it):
        if k > 1 and i % k != off:
            continue
        yield t


def stream_simplify(cx):
    import claripy
    seen = set()
    for t in parts(cx, sampled(cx.job, c01_terms(cx.job, cx.rng))):
        oc, a = build(t)
        if oc != "ok" or a.is_leaf() or id(a) in seen:
            continue
        seen.add(id(a))
        _keep.append(a)
        ev_equiv(cx, "simplify", a, claripy.simplify)


_keep = []


# ----------------------------------------------------------------------------------------------
# C09: Z3-side generation: applications of every BV/Bool declaration kind, abstracted by BackendZ3
# ----------------------------------------------------------------------------------------------

def z3_kinds(e, acc):
    """names of the Z3 declaration kinds in a z3 expression (observation for the coverage statement)"""
    import z3
    from claripy.backends.backend_z3 import z3_op_nums
    stack = [e]
    while stack:
        x = stack.pop()
        if z3.is_app(x):
            acc.add(z3_op_nums.get(x.decl().kind(), str(x.decl().kind())))
            stack.extend(x.children())
    return acc


def smt2_app(op, zargs, ctx):
    """application of an SMT-LIB operator that the z3 Python API does not expose, built by Z3's own parser"""
    import z3
    decls = {}
    for a in zargs:
        for v in _z3_consts(a):
            decls[str(v)] = v
    body = "(%s %s)" % (op, " ".join(a.sexpr() for a in zargs))
    probe = z3.parse_smt2_string("(assert (= %s %s))" % (body, body), decls=decls, ctx=ctx)
    return probe[0].arg(0)


def _z3_consts(e):
    import z3
    out, stack = [], [e]
    while stack:
        x = stack.pop()
        if z3.is_const(x) and x.decl().kind() == z3.Z3_OP_UNINTERPRETED:
            out.append(x)
        stack.extend(x.children())
    return out


def z3_apps(W, ctx):
    """(zop, ints, operand terms, constructor) for every BV/Bool operator of the Z3 API; operands are taken from a
    small pool of terms (variables and constants) of width W"""
    import z3
    x, y = TM.BVS("x", W), TM.BVS("y", W)
    c, d = TM.BoolS("c"), TM.BoolS("d")
    ks = [TM.BVV(v, W) for v in sorted({0, 1, (1 << W) - 1, 1 << (W - 1), 3 % (1 << W)})]
    bvs = [x, y] + ks
    bos = [c, d, TM.BoolV(True), TM.BoolV(False)]

    def Z(t):      # operands are leaves (or one comparison of leaves)
        if t[0] == "BVS":
            return z3.BitVec(t[1], t[2][0], ctx)
        if t[0] == "BVV":
            return z3.BitVecVal(TM.unbits(t[2]), len(t[2]), ctx)
        if t[0] == "BoolS":
            return z3.Bool(t[1], ctx)
        if t[0] == "BoolV":
            return z3.BoolVal(bool(t[2][0]), ctx)
        if t[0] == "ULT":
            return z3.ULT(Z(t[3][0]), Z(t[3][1]))
        raise ValueError(t[0])
    out = []
    bin_bv = {"bvadd": lambda a, b: a + b, "bvsub": lambda a, b: a - b, "bvmul": lambda a, b: a * b,
              "bvudiv": z3.UDiv, "bvurem": z3.URem, "bvsdiv": lambda a, b: a / b, "bvsrem": z3.SRem,
              "bvsmod": lambda a, b: a % b, "bvand": lambda a, b: a & b, "bvor": lambda a, b: a | b,
              "bvxor": lambda a, b: a ^ b, "bvshl": lambda a, b: a << b, "bvlshr": z3.LShR,
              "bvashr": lambda a, b: a >> b, "ext_rotate_left": z3.RotateLeft, "ext_rotate_right": z3.RotateRight,
              "concat": z3.Concat,
              "bvnand": lambda a, b: z3.BitVecRef(z3.Z3_mk_bvnand(ctx.ref(), a.as_ast(), b.as_ast()), ctx),
              "bvnor": lambda a, b: z3.BitVecRef(z3.Z3_mk_bvnor(ctx.ref(), a.as_ast(), b.as_ast()), ctx),
              "bvxnor": lambda a, b: z3.BitVecRef(z3.Z3_mk_bvxnor(ctx.ref(), a.as_ast(), b.as_ast()), ctx),
              "=": lambda a, b: a == b, "distinct": lambda a, b: z3.Distinct(a, b),
              "bvult": z3.ULT, "bvule": z3.ULE, "bvugt": z3.UGT, "bvuge": z3.UGE,
              "bvslt": lambda a, b: a < b, "bvsle": lambda a, b: a <= b, "bvsgt": lambda a, b: a > b,
              "bvsge": lambda a, b: a >= b}
    for zop, f in bin_bv.items():
        for a in bvs:
            for b in bvs:
                if a[0] == "BVV" and b[0] == "BVV" and not (a is ks[1] and b in (ks[0], ks[-1])):
                    continue            # keep a few constant-only applications
                out.append((zop, [], [a, b], lambda f=f, a=a, b=b: f(Z(a), Z(b))))
    for zop, f in {"bvneg": lambda a: -a, "bvnot": lambda a: ~a,
                   "bvredor": z3.BVRedOr, "bvredand": z3.BVRedAnd}.items():
        for a in bvs[:4]:
            out.append((zop, [], [a], lambda f=f, a=a: f(Z(a))))
    for a in bvs[:3]:
        for n in (0, 1, W - 1, W, W + 1):
            if n >= 0:
                out.append(("rotate_left", [n], [a], lambda a=a, n=n: z3.BitVecRef(
                    z3.Z3_mk_rotate_left(ctx.ref(), n, Z(a).as_ast()), ctx)))
                out.append(("rotate_right", [n], [a], lambda a=a, n=n: z3.BitVecRef(
                    z3.Z3_mk_rotate_right(ctx.ref(), n, Z(a).as_ast()), ctx)))
        for n in (0, 1, 2):
            out.append(("zero_extend", [n], [a], lambda a=a, n=n: z3.ZeroExt(n, Z(a))))
            out.append(("sign_extend", [n], [a], lambda a=a, n=n: z3.SignExt(n, Z(a))))
        for n in (1, 2):
            out.append(("repeat", [n], [a], lambda a=a, n=n: z3.RepeatBitVec(n, Z(a))))
        for hi in range(W):
            for lo in range(hi + 1):
                out.append(("extract", [hi, lo], [a], lambda a=a, hi=hi, lo=lo: z3.Extract(hi, lo, Z(a))))
        for b in bvs[:3]:
            out.append(("bvcomp", [], [a, b], lambda a=a, b=b: smt2_app("bvcomp", [Z(a), Z(b)], ctx)))
            for e in bvs[2:4]:
                out.append(("distinct", [], [a, b, e], lambda a=a, b=b, e=e: z3.Distinct(Z(a), Z(b), Z(e))))
                out.append(("bvadd", [], [a, b, e], lambda a=a, b=b, e=e: smt2_app("bvadd", [Z(a), Z(b), Z(e)], ctx)))
                out.append(("bvmul", [], [a, b, e], lambda a=a, b=b, e=e: smt2_app("bvmul", [Z(a), Z(b), Z(e)], ctx)))
                out.append(("bvxor", [], [a, b, e], lambda a=a, b=b, e=e: smt2_app("bvxor", [Z(a), Z(b), Z(e)], ctx)))
                out.append(("concat", [], [a, b, e], lambda a=a, b=b, e=e: z3.Concat(Z(a), Z(b), Z(e))))
            for cc in bos[:3]:
                out.append(("ite", [], [cc, a, b], lambda cc=cc, a=a, b=b: z3.If(Z(cc), Z(a), Z(b))))
    for p in bos:
        out.append(("not", [], [p], lambda p=p: z3.Not(Z(p))))
        for q in bos:
            out.append(("and", [], [p, q], lambda p=p, q=q: z3.And(Z(p), Z(q))))
            out.append(("or", [], [p, q], lambda p=p, q=q: z3.Or(Z(p), Z(q))))
            out.append(("xor", [], [p, q], lambda p=p, q=q: z3.Xor(Z(p), Z(q))))
            out.append(("=>", [], [p, q], lambda p=p, q=q: z3.Implies(Z(p), Z(q))))
            out.append(("=", [], [p, q], lambda p=p, q=q: Z(p) == Z(q)))
            out.append(("distinct", [], [p, q], lambda p=p, q=q: z3.Distinct(Z(p), Z(q))))
            out.append(("ite", [], [c, p, q], lambda p=p, q=q: z3.If(Z(c), Z(p), Z(q))))
    out.append(("and", [], [c, d, TM.T("ULT", x, y)], lambda: z3.And(Z(c), Z(d), z3.ULT(Z(x), Z(y)))))
    out.append(("or", [], [c, d, TM.T("ULT", x, y)], lambda: z3.Or(Z(c), Z(d), z3.ULT(Z(x), Z(y)))))
    return out


def stream_z3abs(cx):
    import claripy
    import z3
    job, rng = cx.job, cx.rng
    bz = claripy.backends.z3
    ctx = bz._context
    kinds_direct, kinds_simplified = set(), set()
    for W in job.get("widths", (1, 2, 3)):
        for zop, ints, args, mk in parts(cx, z3_apps(W, ctx)):
            oc, ze = guarded(mk)
            if oc != "ok":
                continue
            for via in ("direct", "simplify"):
                if via == "simplify":
                    oc2, zs = guarded(lambda: z3.simplify(ze))
                    if oc2 != "ok" or zs.eq(ze):
                        continue
                    target = zs
                    z3_kinds(zs, kinds_simplified)
                else:
                    target = ze
                    z3_kinds(ze, kinds_direct)
                top = _kind_name(target)
                oc3, r = guarded(lambda: bz._abstract(target))
                if oc3 == "ok" and not is_ast(r):
                    oc3, r = "NotAnAST", None
                if oc3 == "ok" and not in_language(r):
                    oc3 = "NotBVBool"
                rt = TM.ser(r) if oc3 == "ok" else DUMMY
                vs, asgs = vars_asgs(args + [rt], job, rng)
                ev = {"k": "z3abs", "u": "abstract:" + via, "out": oc3, "zop": zop, "ints": ints, "args": args, "r": rt,
                      "vars": vs, "asgs": asgs, "kind": top, "via": via}
                cx.emit(ev, nontrivial=["z3abs", via, zop, ints, args] if oc3 == "ok" else None,
                        sample={"z3": str(target), "decl_kind": top, "abstracted": rt} if oc3 == "ok" else None)
    cx.extra = {"kinds_direct": sorted(kinds_direct), "kinds_simplified": sorted(kinds_simplified)}


def _kind_name(e):
    from claripy.backends.backend_z3 import z3_op_nums
    try:
        return z3_op_nums.get(e.decl().kind(), str(e.decl().kind()))
    except Exception:  # noqa: BLE001
        return "?"


# ----------------------------------------------------------------------------------------------
# C09: FP / string expressions: outcome of claripy.simplify only
# ----------------------------------------------------------------------------------------------

def fp_str_pool():
    import claripy
    F, D = claripy.FSORT_FLOAT, claripy.FSORT_DOUBLE
    f, g = claripy.FPS("f", F, explicit_name=True), claripy.FPS("g", F, explicit_name=True)
    dd = claripy.FPS("dd", D, explicit_name=True)
    one = claripy.FPV(1.0, F)
    rm = claripy.fp.RM.RM_NearestTiesEven
    s, t = claripy.StringS("s", explicit_name=True), claripy.StringS("t", explicit_name=True)
    x = claripy.BVS("x", 32, explicit_name=True)
    ab = claripy.StringV("ab")
    P = [
        ("fpIsNaN(f)", lambda: claripy.fpIsNaN(f)), ("fpIsInf(f)", lambda: claripy.fpIsInf(f)),
        ("fpIsNaN(dd)", lambda: claripy.fpIsNaN(dd)), ("fpIsInf(dd)", lambda: claripy.fpIsInf(dd)),
        ("Not(fpIsNaN(f))", lambda: claripy.Not(claripy.fpIsNaN(f))),
        ("And(fpIsInf(f),fpGT(f,1))", lambda: claripy.And(claripy.fpIsInf(f), claripy.fpGT(f, one))),
        ("fpIsNaN(fpAdd(f,g))", lambda: claripy.fpIsNaN(claripy.fpAdd(rm, f, g))),
        ("fpEQ(f,g)", lambda: claripy.fpEQ(f, g)), ("fpLT(f,1)", lambda: claripy.fpLT(f, one)),
        ("fpLEQ(f,g)", lambda: claripy.fpLEQ(f, g)), ("fpGT(f,g)", lambda: claripy.fpGT(f, g)),
        ("fpGEQ(f,1)", lambda: claripy.fpGEQ(f, one)), ("f==g", lambda: f == g), ("f!=1", lambda: f != one),
        ("fpLT(fpAdd(f,g),1)", lambda: claripy.fpLT(claripy.fpAdd(rm, f, g), one)),
        ("fpLT(fpSub(f,g),1)", lambda: claripy.fpLT(claripy.fpSub(rm, f, g), one)),
        ("fpLT(fpMul(f,g),1)", lambda: claripy.fpLT(claripy.fpMul(rm, f, g), one)),
        ("fpLT(fpDiv(f,g),1)", lambda: claripy.fpLT(claripy.fpDiv(rm, f, g), one)),
        ("fpLT(fpSqrt(f),1)", lambda: claripy.fpLT(claripy.fpSqrt(rm, f), one)),
        ("fpLT(fpNeg(f),1)", lambda: claripy.fpLT(claripy.fpNeg(f), one)),
        ("fpLT(fpAbs(f),1)", lambda: claripy.fpLT(claripy.fpAbs(f), one)),
        ("fpToIEEEBV(f)==x", lambda: claripy.fpToIEEEBV(f) == x),
        ("fpToFP(x)<1", lambda: claripy.fpLT(claripy.fpToFP(x, F), one)),
        ("fpToFP(rm,dd,F)<1", lambda: claripy.fpLT(claripy.fpToFP(rm, dd, F), one)),
        ("fpToFP(rm,x signed)<1", lambda: claripy.fpLT(claripy.fpToFP(rm, x, F), one)),
        ("fpToFPUnsigned(rm,x)<1", lambda: claripy.fpLT(claripy.fpToFPUnsigned(rm, x, F), one)),
        ("fpToSBV(f)==x", lambda: claripy.fpToSBV(rm, f, 32) == x),
        ("fpToUBV(f)==x", lambda: claripy.fpToUBV(rm, f, 32) == x),
        ("fpAdd(f,g) (FP-sorted)", lambda: claripy.fpAdd(rm, f, g)),
        ("s==ab", lambda: s == ab), ("s!=t", lambda: s != t),
        ("StrContains(s,ab)", lambda: claripy.StrContains(s, ab)),
        ("StrPrefixOf(ab,s)", lambda: claripy.StrPrefixOf(ab, s)),
        ("StrSuffixOf(ab,s)", lambda: claripy.StrSuffixOf(ab, s)),
        ("StrLen(s)==3", lambda: claripy.StrLen(s) == 3),
        ("StrIndexOf(s,ab,0)==1", lambda: claripy.StrIndexOf(s, ab, claripy.BVV(0, 64)) == 1),
        ("StrToInt(s)==7", lambda: claripy.StrToInt(s) == 7),
        ("StrIsDigit(s)", lambda: claripy.StrIsDigit(s)),
        ("StrConcat(s,t)==ab", lambda: claripy.StrConcat(s, t) == ab),
        ("StrSubstr(0,1,s)==ab", lambda: claripy.StrSubstr(claripy.BVV(0, 64), claripy.BVV(1, 64), s) == ab),
        ("StrReplace(s,ab,t)==ab", lambda: claripy.StrReplace(s, ab, t) == ab),
        ("IntToStr(x64)==ab", lambda: claripy.IntToStr(claripy.BVS("x64", 64, explicit_name=True)) == ab),
    ]
    # every rounding mode under every operator that takes one (the round trip must hand the same mode back)
    for m in claripy.fp.RM:
        n = m.value
        P += [
            ("fpLT(fpAdd[%s](f,g),1)" % n, lambda m=m: claripy.fpLT(claripy.fpAdd(m, f, g), one)),
            ("fpLT(fpSub[%s](f,g),g)" % n, lambda m=m: claripy.fpLT(claripy.fpSub(m, f, g), g)),
            ("fpGT(fpMul[%s](f,g),1)" % n, lambda m=m: claripy.fpGT(claripy.fpMul(m, f, g), one)),
            ("fpLEQ(fpDiv[%s](f,g),f)" % n, lambda m=m: claripy.fpLEQ(claripy.fpDiv(m, f, g), f)),
            ("fpEQ(fpSqrt[%s](f),g)" % n, lambda m=m: claripy.fpEQ(claripy.fpSqrt(m, f), g)),
            ("fpLT(fpToFP[%s](dd,F),1)" % n, lambda m=m: claripy.fpLT(claripy.fpToFP(m, dd, F), one)),
            ("fpLT(fpToFP[%s](x signed),1)" % n, lambda m=m: claripy.fpLT(claripy.fpToFP(m, x, F), one)),
            ("fpLT(fpToFPUnsigned[%s](x),1)" % n, lambda m=m: claripy.fpLT(claripy.fpToFPUnsigned(m, x, F), one)),
            ("fpToSBV[%s](f)==x" % n, lambda m=m: claripy.fpToSBV(m, f, 32) == x),
            ("fpToUBV[%s](f)==x" % n, lambda m=m: claripy.fpToUBV(m, f, 32) == x),
            ("fpAdd[%s](fpMul[RNE](f,g),g) (FP-sorted)" % n,
             lambda m=m: claripy.fpAdd(m, claripy.fpMul(claripy.fp.RM.RM_NearestTiesEven, f, g), g)),
            ("And(fpIsNaN(fpDiv[%s](f,g)),fpLT(g,1))" % n,
             lambda m=m: claripy.And(claripy.fpIsNaN(claripy.fpDiv(m, f, g)), claripy.fpLT(g, one))),
        ]
    return P


def stream_fpstr(cx):
    import claripy
    for desc, mk in parts(cx, fp_str_pool()):
        oc, a = guarded(mk)
        if oc != "ok":
            cx.emit({"k": "outcome", "u": "build", "out": "ok", "f": "build", "desc": desc, "built": oc})
            continue
        # translatable by the solver backend?  (the property quantifies over translatable expressions)
        oct, _ = guarded(lambda: claripy.backends.z3.convert(a))
        if oct != "ok":
            cx.emit({"k": "outcome", "u": "untranslatable", "out": "ok", "f": "convert", "desc": desc, "built": oct})
            continue
        th = "@thread" if cx.job.get("thread") else ""
        oc3, r = run_guarded(cx, lambda: claripy.simplify(a))
        if oc3 == "Timeout":        # a wall-clock budget is not an answer (see ev_equiv): counted, not judged
            oo = cx.out.stats["outcomes"]
            oo["outcome:simplify" + th + ":Timeout(skipped)"] = oo.get("outcome:simplify" + th + ":Timeout(skipped)", 0) + 1
            continue
        ev = {"k": "outcome", "u": "simplify" + th, "out": oc3, "f": "claripy.simplify" + th, "desc": desc, "built": "ok"}
        cx.emit(ev, nontrivial=["fpstr", "any" + th, desc], sample={"expr": desc, "outcome": oc3})
        if oc3 == "ok" and is_ast(r):
            # structural clause: the rounding modes / target sorts named in the expression survive the round trip
            try:
                w, rt = TM.ser(a), TM.ser(r)
            except Exception:  # noqa: BLE001
                continue
            ev = {"k": "fprt", "u": "simplify" + th, "out": "ok", "w": w, "r": rt, "desc": desc}
            cx.emit(ev, nontrivial=["fprt", th, desc] if "[" in desc else None,
                    sample={"expr": desc, "input": w, "output": rt} if "[RM_RT" in desc else None)


STREAMS = {"ite": stream_ite, "subst": stream_subst, "cases": stream_cases, "dict": stream_dict,
           "slices": stream_slices, "identical": stream_identical, "simplify": stream_simplify, "canonchain": stream_canonchain,
           "z3abs": stream_z3abs, "fpstr": stream_fpstr}


def main():
    job = json.load(open(sys.argv[1]))
    if job.get("rlimit_gb"):
        lim = int(job["rlimit_gb"] * (1 << 30))
        resource.setrlimit(resource.RLIMIT_AS, (lim, lim))
    out = ShardWriter(sys.argv[2], job.get("shard", 6000))
    extra = {}
    for sub in job.get("multi") or [job]:          # one interpreter, one history, several streams
        cx = Ctx(sub, out, random.Random(sub.get("seed", 0)))
        cx.extra = {}
        STREAMS[sub["gen"]](cx)
        for k, v in cx.extra.items():
            extra[k] = sorted(set(extra.get(k, [])) | set(v))
    out.close(extra=extra)


if __name__ == "__main__":
    main()
