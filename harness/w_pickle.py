"""Worker for C18 (expressions): pickle round trips in-process, after the original was collected, and in a fresh
interpreter with another PYTHONHASHSEED.

usage: python -m harness.w_pickle job.json outprefix          (phase A: build, pickle, spawn phase B, write events)
       python -m harness.w_pickle --load blobs.pkl out.json   (phase B: fresh process)
"""
from __future__ import annotations

import gc
import json
import os
import pickle
import random
import subprocess
import sys

from . import gen_expr as G
from . import term as TM
from .w_solver import Tag
from .wlib import ShardWriter


def probes(e):
    """operations applied to an expression after the round trip (must behave like on the original)"""
    import claripy
    out = []

    def add(fn):
        try:
            r = fn()
            out.append(TM.ser(r, ann=True) if isinstance(r, claripy.ast.Base) else ["VAL", repr(r), [], []])
        except Exception as ex:  # noqa: BLE001
            out.append(["EXC", type(ex).__name__, [], []])
    if isinstance(e, claripy.ast.BV):
        add(lambda: e & 0)
        add(lambda: e ^ e)
        add(lambda: e + 0)
        add(lambda: e | claripy.BVV((1 << e.length) - 1, e.length))
        add(lambda: claripy.If(claripy.true(), e, claripy.BVV(0, e.length)))
        add(lambda: claripy.Concat(e, claripy.BVV(1, 1))[0:0])
        add(lambda: e * 0)
    else:
        add(lambda: claripy.And(e, claripy.false()))
        add(lambda: claripy.Or(e, claripy.true()))
        add(lambda: claripy.Not(claripy.Not(e)))
        add(lambda: claripy.If(e, claripy.BVV(1, 1), claripy.BVV(1, 1)))
    add(lambda: sorted(e.variables))
    add(lambda: e.depth)
    add(lambda: sorted(TM.ann_ser(a)[0] for a in e._uneliminatable_annotations))
    add(lambda: sorted(TM.ann_ser(a)[0] for a in e._relocatable_annotations))
    return out


def decorate(rng, a):
    """annotate random sub-expressions (claripy's own annotation classes and a module-level test annotation)"""
    import claripy
    if not isinstance(a, claripy.ast.Base) or rng.random() < 0.3:
        return a
    anns = [lambda: claripy.annotation.StridedIntervalAnnotation(rng.choice([1, 2]), rng.choice([-2, -1, 0, 3]), 5),
            lambda: claripy.annotation.RegionAnnotation("r%d" % rng.randrange(2), rng.randrange(3)),
            lambda: claripy.annotation.SimplificationAvoidanceAnnotation(),
            lambda: claripy.annotation.UninitializedAnnotation(),
            lambda: Tag(rng.randrange(3))]
    leaves = [l for l in a.leaf_asts() if l.op in ("BVS", "BoolS")]
    if leaves and rng.random() < 0.7:
        l = rng.choice(leaves)
        try:
            a = claripy.replace(a, l, l.annotate(rng.choice(anns)()))
        except Exception:  # noqa: BLE001
            pass
    if rng.random() < 0.4:
        try:
            a = a.annotate(rng.choice(anns)())
        except Exception:  # noqa: BLE001
            pass
    return a


def rebuild_leaves_identical(e):
    """C06 across processes: building a leaf again in THIS process must give the object the unpickler produced"""
    import claripy
    for l in e.leaf_asts():
        try:
            if l.op == "BVS":
                n = claripy.BVS(l.args[0], l.args[1], explicit_name=True)
            elif l.op == "BoolS":
                n = claripy.BoolS(l.args[0], explicit_name=True)
            elif l.op == "FPS":
                n = claripy.FPS(l.args[0], l.args[1], explicit_name=True)
            elif l.op == "BVV":
                n = claripy.BVV(l.args[0], l.args[1])
            else:
                continue
            if l.annotations:
                n = n.annotate(*l.annotations)
            if n is not l:
                return False
        except Exception:  # noqa: BLE001
            return False
    return True


def phase_b(blobfile, outfile):
    with open(blobfile, "rb") as f:
        blobs = pickle.load(f)
    res = []
    for b in blobs:
        try:
            e = pickle.loads(b)
            res.append({"out": "ok", "r": TM.ser(e, ann=True), "probes": probes(e), "len": e.length or 0, "depth": e.depth,
                        "vars": sorted(e.variables), "rebuilt": rebuild_leaves_identical(e)})
        except Exception as ex:  # noqa: BLE001
            res.append({"out": "PyError:" + type(ex).__name__})
    with open(outfile, "w") as f:
        json.dump(res, f)


def main():
    if sys.argv[1] == "--load":
        phase_b(sys.argv[2], sys.argv[3])
        return
    job = json.load(open(sys.argv[1]))
    rng = random.Random(job.get("seed", 0))
    out = ShardWriter(sys.argv[2], 2000)
    exprs, orig = [], []
    for _ in range(job["n"]):
        W = rng.choice([1, 2, 3, 8, 16, 32, 64])
        t = G.rand_term(rng, W, rng.randint(1, 4), want_bool=rng.random() < 0.3)
        try:
            e = decorate(rng, TM.build(t, "std"))
        except Exception:  # noqa: BLE001
            continue
        exprs.append(e)
    import claripy
    for fs in (claripy.FSORT_DOUBLE, claripy.FSORT_FLOAT):
        f, g = claripy.FPS("pf", fs, explicit_name=True), claripy.FPS("pg", fs, explicit_name=True)
        for rm in (claripy.fp.RM.RM_NearestTiesEven, claripy.fp.RM.RM_TowardsZero, claripy.fp.RM.RM_TowardsPositiveInf):
            exprs += [claripy.fpToIEEEBV(claripy.fpAdd(rm, f, g)), claripy.fpLT(claripy.fpMul(rm, f, g), f)]
    blobs = [pickle.dumps(e, -1) for e in exprs]
    for e, b in zip(exprs, blobs):
        orig.append({"w": TM.ser(e, ann=True), "probes": probes(e), "same": pickle.loads(b) is e})
    # (1) in-process, original alive
    for o, e in zip(orig, exprs):
        ev = {"k": "xp", "mode": "alive", "inproc": True, "same": o["same"], "out": "ok", "w": o["w"], "r": o["w"],
              "probes": [], "len": e.length or 0, "depth": e.depth, "vars": sorted(e.variables), "rebuilt": True}
        out.write(ev, nontrivial_key=[o["w"]], outcome="alive", sample={"expr": o["w"]})
    # (2) in-process after the originals (and everything built from them) were collected
    del exprs, e
    gc.collect()
    for o, b in zip(orig, blobs):
        try:
            e2 = pickle.loads(b)
            ev = {"k": "xp", "mode": "collected", "inproc": False, "same": False, "out": "ok", "w": o["w"],
                  "r": TM.ser(e2, ann=True), "probes": [[x, y] for x, y in zip(o["probes"], probes(e2))],
                  "len": e2.length or 0, "depth": e2.depth, "vars": sorted(e2.variables),
                  "rebuilt": rebuild_leaves_identical(e2)}
            del e2
        except Exception as ex:  # noqa: BLE001
            ev = {"k": "xp", "mode": "collected", "inproc": False, "same": False, "out": "PyError:" + type(ex).__name__,
                  "w": o["w"], "r": o["w"], "probes": [], "len": 0, "depth": 0, "vars": [], "rebuilt": True}
        out.write(ev, outcome="collected")
    # (3) fresh interpreters with different hash seeds
    bf = sys.argv[2] + ".blobs.pkl"
    with open(bf, "wb") as f:
        pickle.dump(blobs, f)
    for hs in job.get("hashseeds", ["0", "1", "random"]):
        of = sys.argv[2] + f".b{hs}.json"
        env = dict(os.environ, PYTHONHASHSEED=hs)
        p = subprocess.run([sys.executable, "-m", "harness.w_pickle", "--load", bf, of], env=env, capture_output=True,
                           text=True, timeout=600)
        if p.returncode != 0:
            raise RuntimeError("phase B failed: " + p.stderr[-1000:])
        res = json.load(open(of))
        os.unlink(of)
        for o, r in zip(orig, res):
            if r["out"] != "ok":
                ev = {"k": "xp", "mode": "fresh-" + hs, "inproc": False, "same": False, "out": r["out"], "w": o["w"],
                      "r": o["w"], "probes": [], "len": 0, "depth": 0, "vars": [], "rebuilt": True}
            else:
                ev = {"k": "xp", "mode": "fresh-" + hs, "inproc": False, "same": False, "out": "ok", "w": o["w"],
                      "r": r["r"], "probes": [[x, y] for x, y in zip(o["probes"], r["probes"])], "len": r["len"],
                      "depth": r["depth"], "vars": r["vars"], "rebuilt": r["rebuilt"]}
            out.write(ev, outcome="fresh")
    os.unlink(bf)
    out.close()


if __name__ == "__main__":
    main()
