"""Term language shared by the TLA+ specs (spec/Term.tla) and the Python drivers.

term = [op, name, ints, args]  (+ optional 5th slot: annotation list)
BV constants are LSB-first bit lists so TLC never sees an integer >= 2^31.
"""
from __future__ import annotations

import struct


def bits(v: int, w: int) -> list[int]:
    return [(v >> i) & 1 for i in range(w)]


def unbits(b) -> int:
    return sum(int(x) << i for i, x in enumerate(b))


def BVS(n, w):
    return ["BVS", n, [w], []]


def BVV(v, w):
    return ["BVV", "", bits(v & ((1 << w) - 1), w), []]


def BoolS(n):
    return ["BoolS", n, [], []]


def BoolV(b):
    return ["BoolV", "", [1 if b else 0], []]


def T(op, *args, ints=(), name=""):
    return [op, name, list(ints), list(args)]


BOOL_OPS = {"BoolS", "BoolV", "__eq__", "__ne__", "ULT", "ULE", "UGT", "UGE", "SLT", "SLE", "SGT", "SGE", "And", "Or",
            "Not"}


def is_bool(t):
    if t[0] == "If":
        return is_bool(t[3][1])
    return t[0] in BOOL_OPS


def width(t):
    op, A = t[0], t[3]
    if op == "BVS":
        return t[2][0]
    if op == "BVV":
        return len(t[2])
    if op in BOOL_OPS:
        return 0
    if op == "Concat":
        return sum(width(a) for a in A)
    if op == "Extract":
        return t[2][0] - t[2][1] + 1
    if op in ("ZeroExt", "SignExt"):
        return t[2][0] + width(A[0])
    if op == "If":
        return width(A[1])
    return width(A[0])


def free_vars(t, acc=None):
    if acc is None:
        acc = {}
    if t[0] == "BVS":
        acc[t[1]] = t[2][0]
    elif t[0] == "BoolS":
        acc[t[1]] = 0
    else:
        for a in t[3]:
            free_vars(a, acc)
    return acc


def depth(t):
    return 1 + max((depth(a) for a in t[3]), default=0)


def size(t):
    return 1 + sum(size(a) for a in t[3])


def key(t):
    """hashable structural key"""
    return (t[0], t[1], tuple(t[2]), tuple(key(a) for a in t[3])) + ((repr(t[4]),) if len(t) > 4 else ())


# ----------------------------------------------------------------------------------------------
# serialising claripy ASTs
# ----------------------------------------------------------------------------------------------

def _fp_bits(val, sort):
    import claripy
    if sort == claripy.fp.FSORT_FLOAT or sort.length == 32:
        (i,) = struct.unpack("<I", struct.pack("<f", val))
        return bits(i, 32)
    (i,) = struct.unpack("<Q", struct.pack("<d", val))
    return bits(i, 64)


def ann_ser(a):
    """annotation -> JSON-able tagged list"""
    import claripy
    n = type(a).__name__
    if isinstance(a, claripy.annotation.StridedIntervalAnnotation):
        return ["SI", [str(a.stride), str(a.lower_bound), str(a.upper_bound)]]
    if isinstance(a, claripy.annotation.RegionAnnotation):
        return ["REG", [str(a.region_id), str(a.region_base_addr)]]
    k = getattr(a, "k", None)
    return [n, [str(k)]]


def ser(a, ann=False, memo=None):
    """claripy AST -> term.  With ann=True a 5th slot holds the node's annotations."""
    import claripy
    if memo is None:
        memo = {}
    h = (id(a), ann)
    if h in memo:
        return memo[h]
    op = a.op
    if op == "BVS":
        t = ["BVS", a.args[0], [a.args[1]], []]
    elif op == "BVV":
        v = a.args[0]
        t = ["BVV", "", bits(v, a.args[1]) if v is not None else [], []]
        if v is None:
            t[1] = "ESI%d" % a.args[1]
    elif op == "BoolS":
        t = ["BoolS", a.args[0], [], []]
    elif op == "BoolV":
        t = ["BoolV", "", [1 if a.args[0] else 0], []]
    elif op == "FPS":
        t = ["FPS", a.args[0], [a.args[1].exp, a.args[1].mantissa], []]
    elif op == "FPV":
        t = ["FPV", "", _fp_bits(a.args[0], a.args[1]), []]
    elif op == "StringS":
        t = ["StringS", a.args[0], [], []]
    elif op == "StringV":
        t = ["StringV", "", [ord(c) for c in a.args[0]], []]
    else:
        ints, names, args = [], [], []
        for x in a.args:
            if isinstance(x, claripy.ast.Base):
                args.append(ser(x, ann, memo))
            elif isinstance(x, bool):
                ints.append(int(x))
            elif isinstance(x, int):
                ints.append(x)
            elif isinstance(x, claripy.fp.RM):
                names.append(x.name)
            elif isinstance(x, claripy.fp.FSort):
                names.append(x.name)
                ints.extend([x.exp, x.mantissa])
            else:
                names.append(repr(x))
        t = [op, "|".join(names), ints, args]
    if ann:
        t = [*t, sorted(ann_ser(x) for x in a.annotations)]
    memo[h] = t
    return t


# ----------------------------------------------------------------------------------------------
# building claripy ASTs from terms through the public API
# ----------------------------------------------------------------------------------------------

_BIN_DUNDER = {"__add__": "+", "__sub__": "-", "__mul__": "*", "__floordiv__": "//", "__mod__": "%",
               "__and__": "&", "__or__": "|", "__xor__": "^", "__lshift__": "<<", "__rshift__": ">>"}


def spellings(t):
    """alternative ways of spelling the TOP operation of t through the public API"""
    op, A = t[0], t[3]
    out = ["std"]
    if op in _BIN_DUNDER and len(A) == 2:
        out.append("dunder")
        if A[1][0] == "BVV":
            out.append("rint")      # x + 3
        if A[0][0] == "BVV" and A[1][0] != "BVV":
            out.append("lint")      # 3 + x  -> __radd__
    if op in ("__eq__", "__ne__", "ULT", "ULE", "UGT", "UGE", "SLT", "SLE", "SGT", "SGE") and len(A) == 2 \
            and not is_bool(A[0]):
        if A[1][0] == "BVV":
            out.append("rint")
        if A[0][0] == "BVV" and A[1][0] != "BVV":
            out.append("lint")
        if op in ("ULT", "ULE", "UGT", "UGE"):
            out.append("pyop")      # x < y is ULT
    if op == "Extract":
        out += ["slice", "slice_neg"]
        if t[2][1] == 0:
            out.append("slice_none_lo")
        if t[2][0] == width(A[0]) - 1:
            out.append("slice_none_hi")
        if t[2][0] == t[2][1]:
            out.append("index")
    if op == "If":
        if A[1][0] == "BVV" and A[2][0] != "BVV":
            out.append("if_int_t")
        if A[2][0] == "BVV" and A[1][0] != "BVV":
            out.append("if_int_e")
        if A[0][0] == "BoolV":
            out.append("if_pybool")
        if A[1][0] == "BoolV" and A[2][0] != "BoolV":
            out.append("if_bool_t")
    if op in ("ZeroExt", "SignExt", "Concat"):
        out.append("method")
    if op in ("And", "Or") and len(A) == 2:
        out.append("pyop")
    if op == "Not":
        out.append("pyop")
    if op in ("SDiv", "SMod", "LShR", "RotateLeft", "RotateRight") and A[1][0] == "BVV":
        out.append("rint")
    return out


def build(t, how="std", cache=None):
    """term -> claripy AST.  `how` selects the spelling of the top operation only."""
    import claripy
    if cache is None:
        cache = {}
    op, A = t[0], t[3]
    if op == "BVS":
        return claripy.BVS(t[1], t[2][0], explicit_name=True)
    if op == "BVV":
        return claripy.BVV(unbits(t[2]), len(t[2]))
    if op == "BoolS":
        return claripy.BoolS(t[1], explicit_name=True)
    if op == "BoolV":
        return claripy.BoolV(bool(t[2][0]))
    k = (key(t), how)
    if how == "std" and k in cache:
        return cache[k]
    a = [build(x, "std", cache) for x in A]

    def val(i):
        return unbits(A[i][2])

    r = None
    if op in _BIN_DUNDER and len(A) == 2 and how != "std":
        x, y = a
        if how == "rint":
            y = val(1)
        elif how == "lint":
            x = val(0)
        if how == "dunder":
            r = getattr(x, op)(y)
        else:
            s = _BIN_DUNDER[op]
            if s == "+":
                r = x + y
            elif s == "-":
                r = x - y
            elif s == "*":
                r = x * y
            elif s == "//":
                r = x // y
            elif s == "%":
                r = x % y
            elif s == "&":
                r = x & y
            elif s == "|":
                r = x | y
            elif s == "^":
                r = x ^ y
            elif s == "<<":
                r = x << y
            elif s == ">>":
                r = x >> y
    elif op in ("__eq__", "__ne__", "ULT", "ULE", "UGT", "UGE", "SLT", "SLE", "SGT", "SGE") and how != "std":
        x, y = a
        if how == "rint":
            y = val(1)
        elif how == "lint":
            x = val(0)
        if how == "pyop":
            r = {"ULT": lambda: x < y, "ULE": lambda: x <= y, "UGT": lambda: x > y, "UGE": lambda: x >= y}[op]()
        elif op == "__eq__":
            r = x == y
        elif op == "__ne__":
            r = x != y
        elif how == "lint":
            # int OP bv : python reflects to bv.__gt__(int) etc; use the claripy function with an int
            r = getattr(claripy, op)(x, y)
        else:
            r = getattr(claripy, op)(x, y)
    elif op == "Extract" and how != "std":
        hi, lo = t[2]
        x = a[0]
        w = width(A[0])
        if how == "slice":
            r = x[hi:lo]
        elif how == "slice_neg":
            r = x[hi - w:lo - w] if lo - w < 0 else x[hi - w:lo]
        elif how == "slice_none_lo":
            r = x[hi:]
        elif how == "slice_none_hi":
            r = x[:lo]
        elif how == "index":
            r = x[hi]
    elif op == "If" and how != "std":
        c, tt, ee = a
        if how == "if_int_t":
            tt = val(1)
        elif how == "if_int_e":
            ee = val(2)
        elif how == "if_pybool":
            c = bool(A[0][2][0])
        elif how == "if_bool_t":
            tt = bool(A[1][2][0])
        r = claripy.If(c, tt, ee)
    elif op in ("ZeroExt", "SignExt") and how == "method":
        r = a[0].zero_extend(t[2][0]) if op == "ZeroExt" else a[0].sign_extend(t[2][0])
    elif op == "Concat" and how == "method":
        r = a[0].concat(*a[1:])
    elif op in ("And", "Or") and how == "pyop":
        r = (a[0] & a[1]) if op == "And" else (a[0] | a[1])
    elif op == "Not" and how == "pyop":
        r = ~a[0]
    elif op in ("SDiv", "SMod", "LShR", "RotateLeft", "RotateRight") and how == "rint":
        r = getattr(claripy, op)(a[0], val(1))
    if r is None:
        r = build_std(op, t, a)
    if how == "std":
        cache[k] = r
    return r


def build_std(op, t, a):
    import claripy
    import functools
    import operator
    if op in ("__add__", "__mul__", "__and__", "__or__", "__xor__", "__sub__"):
        f = {"__add__": operator.add, "__mul__": operator.mul, "__and__": operator.and_, "__or__": operator.or_,
             "__xor__": operator.xor, "__sub__": operator.sub}[op]
        return functools.reduce(f, a)
    if op == "__floordiv__":
        return a[0] // a[1]
    if op == "__mod__":
        return a[0] % a[1]
    if op == "__neg__":
        return -a[0]
    if op == "__invert__":
        return ~a[0]
    if op == "__lshift__":
        return a[0] << a[1]
    if op == "__rshift__":
        return a[0] >> a[1]
    if op == "__eq__":
        return a[0] == a[1]
    if op == "__ne__":
        return a[0] != a[1]
    if op in ("Extract",):
        return claripy.Extract(t[2][0], t[2][1], a[0])
    if op in ("ZeroExt", "SignExt"):
        return getattr(claripy, op)(t[2][0], a[0])
    if op in ("SDiv", "SMod", "LShR", "RotateLeft", "RotateRight", "ULT", "ULE", "UGT", "UGE", "SLT", "SLE", "SGT",
              "SGE", "Concat", "Reverse", "If", "And", "Or", "Not"):
        return getattr(claripy, op)(*a)
    raise ValueError("cannot build " + op)


# ----------------------------------------------------------------------------------------------
# independent Z3 reference (second opinion; never used for verdicts on its own)
# ----------------------------------------------------------------------------------------------

def to_z3(t, env=None):
    import z3
    if env is None:
        env = {}
    op, A = t[0], t[3]
    if op == "BVS":
        return z3.BitVec(t[1], t[2][0])
    if op == "BoolS":
        return z3.Bool(t[1])
    if op == "BVV":
        return z3.BitVecVal(unbits(t[2]), len(t[2]))
    if op == "BoolV":
        return z3.BoolVal(bool(t[2][0]))
    a = [to_z3(x, env) for x in A]
    import functools
    if op == "__add__":
        return functools.reduce(lambda x, y: x + y, a)
    if op == "__sub__":
        return functools.reduce(lambda x, y: x - y, a)
    if op == "__mul__":
        return functools.reduce(lambda x, y: x * y, a)
    if op == "__and__":
        return functools.reduce(lambda x, y: x & y, a)
    if op == "__or__":
        return functools.reduce(lambda x, y: x | y, a)
    if op == "__xor__":
        return functools.reduce(lambda x, y: x ^ y, a)
    if op == "__floordiv__":
        return z3.UDiv(a[0], a[1])
    if op == "__mod__":
        return z3.URem(a[0], a[1])
    if op == "SDiv":
        return a[0] / a[1]
    if op == "SMod":
        return z3.SRem(a[0], a[1])
    if op == "__neg__":
        return -a[0]
    if op == "__invert__":
        return ~a[0]
    if op == "__lshift__":
        return a[0] << a[1]
    if op == "__rshift__":
        return a[0] >> a[1]
    if op == "LShR":
        return z3.LShR(a[0], a[1])
    if op == "RotateLeft":
        return z3.RotateLeft(a[0], a[1])
    if op == "RotateRight":
        return z3.RotateRight(a[0], a[1])
    if op == "Concat":
        return z3.Concat(*a) if len(a) > 1 else a[0]
    if op == "Extract":
        return z3.Extract(t[2][0], t[2][1], a[0])
    if op == "ZeroExt":
        return z3.ZeroExt(t[2][0], a[0])
    if op == "SignExt":
        return z3.SignExt(t[2][0], a[0])
    if op == "Reverse":
        w = a[0].size()
        return z3.Concat(*[z3.Extract(8 * i + 7, 8 * i, a[0]) for i in range(w // 8)]) if w > 8 else a[0]
    if op == "If":
        return z3.If(a[0], a[1], a[2])
    if op == "__eq__":
        return a[0] == a[1]
    if op == "__ne__":
        return a[0] != a[1]
    if op == "ULT":
        return z3.ULT(a[0], a[1])
    if op == "ULE":
        return z3.ULE(a[0], a[1])
    if op == "UGT":
        return z3.UGT(a[0], a[1])
    if op == "UGE":
        return z3.UGE(a[0], a[1])
    if op == "SLT":
        return a[0] < a[1]
    if op == "SLE":
        return a[0] <= a[1]
    if op == "SGT":
        return a[0] > a[1]
    if op == "SGE":
        return a[0] >= a[1]
    if op == "And":
        return z3.And(*a)
    if op == "Or":
        return z3.Or(*a)
    if op == "Not":
        return z3.Not(a[0])
    raise ValueError("to_z3: " + op)


def z3_equiv(t1, t2):
    """True iff the two terms are equivalent according to Z3 (independent of claripy and of TLC)."""
    import z3
    s = z3.Solver()
    s.add(to_z3(t1) != to_z3(t2))
    return s.check() == z3.unsat


def z3_eval(t, asg):
    """evaluate term under asg {name: int} with Z3; returns int (Bool -> 0/1)"""
    import z3
    e = to_z3(t)
    subs = []
    for n, w in free_vars(t).items():
        if w == 0:
            subs.append((z3.Bool(n), z3.BoolVal(bool(asg[n]))))
        else:
            subs.append((z3.BitVec(n, w), z3.BitVecVal(asg[n], w)))
    r = z3.simplify(z3.substitute(e, *subs)) if subs else z3.simplify(e)
    if z3.is_bool(r):
        return 1 if z3.is_true(r) else 0
    return r.as_long()
