"""Expression engine: C01 (meaning), C04 (outcomes), C05 (metadata) — construction events validated by
spec/TraceExpr.tla (reference semantics spec/Term.tla + spec/BVBits.tla)."""
from __future__ import annotations

import json
import os

from . import common as C
from . import term as TM

META_CLAUSES = {"width", "variables", "concrete", "depth", "cvalue", "result-width"}


def jobs_for(tier, seed, what):
    """job lists for the construction streams"""
    J = []
    n = C.NPROC
    if what == "C04":
        nb = 600 if tier == "quick" else 6000
        J.append([{"gen": "boundary", "n": nb, "seed": seed * 1000 + k, "part": k, "nparts": n, "z3": 0, "meta": False,
                   "spell": True, "asgs": 8, "rlimit_gb": 2, "shard": 20000} for k in range(n)])
        for W in (1, 2):
            J.append([{"gen": "exh", "W": W, "depth": 1, "z3": 0, "meta": False, "spell": True}])
        J.append([{"gen": "rules", "per": 2, "seed": seed * 1000 + k, "z3": 0, "meta": False, "spell": True,
                   "asgs": 8, "rlimit_gb": 2, "shard": 20000} for k in range(4)])
        return J
    if what == "C05":
        nm = 150 if tier == "quick" else 1500
        J.append([{"gen": "metaops", "n": nm, "seed": seed * 1000 + k, "rlimit_gb": 4} for k in range(n)])
        J.append([{"gen": "fpmeta", "n": 60 if tier == "quick" else 600, "seed": seed * 1000 + k} for k in range(4)])
    if what in ("C01", "C05"):
        z3n = 1 if what == "C01" else 0
        meta = what == "C05"
        # bounded-exhaustive tiers
        for W in (1, 2):
            J.append([{"gen": "exh", "W": W, "depth": 1, "z3": z3n, "meta": meta, "spell": True}])
        J.append([{"gen": "exh", "W": 3, "depth": 1, "part": k, "nparts": 4, "z3": z3n, "meta": meta, "spell": True}
                  for k in range(4)])
        J.append([{"gen": "exh", "W": 1, "depth": 2, "part": k, "nparts": n, "z3": z3n, "meta": meta, "spell": True}
                  for k in range(n)])
        J.append([{"gen": "concat", "W": W, "part": k, "nparts": 2, "z3": z3n, "meta": meta, "spell": False,
                   "shard": 20000} for W in (2, 3) for k in range(2)])
        if tier == "quick":
            J.append([{"gen": "exh", "W": 2, "depth": 2, "part": k, "nparts": n, "z3": z3n, "meta": meta,
                       "spell": False, "sample": 4, "seed": seed, "shard": 20000} for k in range(n)])
            J.append([{"gen": "exh", "W": 3, "depth": 2, "part": k, "nparts": n, "z3": z3n, "meta": meta,
                       "spell": False, "sample": 32, "seed": seed, "shard": 20000} for k in range(n)])
        else:
            J.append([{"gen": "exh", "W": 2, "depth": 2, "part": k, "nparts": n, "z3": z3n, "meta": meta,
                       "spell": True} for k in range(n)])
            J.append([{"gen": "exh", "W": 3, "depth": 2, "part": k, "nparts": n, "z3": z3n, "meta": meta,
                       "spell": False} for k in range(n)])
            J.append([{"gen": "exh", "W": 4, "depth": 1, "part": k, "nparts": n, "z3": z3n, "meta": meta,
                       "spell": True} for k in range(n)])
        # rule-directed and random deep tiers (sampled assignments above 10 variable bits)
        per = 2 if tier == "quick" else 12
        J.append([{"gen": "rules", "per": per, "seed": seed * 1000 + k, "z3": 2 * z3n, "meta": meta, "spell": True,
                   "asgs": 24, "rlimit_gb": 4, "shard": 20000} for k in range(n)])
        nr = 250 if tier == "quick" else 4000
        J.append([{"gen": "rand", "n": nr, "depth": 5, "seed": seed * 1000 + 500 + k, "z3": 2 * z3n, "meta": meta,
                   "spell": False, "asgs": 24, "rlimit_gb": 4} for k in range(n)])
    return J


def second_opinion(ev):
    """independent Z3 check that w and r really differ (guards against a bug in OUR semantics).
    returns 'confirmed' | 'spec-suspect' | 'n/a'"""
    try:
        if ev.get("extra_vars"):
            return "confirmed"
        return "spec-suspect" if TM.z3_equiv(ev["w"], ev["r"]) else "confirmed"
    except Exception:  # noqa: BLE001
        return "n/a"


def shape(t, d=2):
    """coarse shape of a term (operator skeleton to depth d) used by finding predicates"""
    if d == 0 or not t[3]:
        return t[0] if t[0] not in ("BVV", "BVS", "BoolS", "BoolV") else {"BVV": "k", "BVS": "v", "BoolS": "b", "BoolV": "kb"}[t[0]]
    return t[0] + "(" + ",".join(shape(a, d - 1) for a in t[3]) + ")"


def contains(t, pred):
    if pred(t):
        return True
    return any(contains(a, pred) for a in t[3])


# predicates for known defects of the pinned tree (sampled tiers); exhaustive tiers use exact sets
def _nested_lshift(t):
    return t[0] == "__lshift__" and t[3][0][0] == "__lshift__"


PREDICATES = {
}


def classify(pid, ev, clause, exact):
    """return finding id or None"""
    s = C.sig([ev["w"], ev["how"], clause])
    if s in exact:
        return "exact"
    for f in C.load_findings(pid):
        m = f.get("match", {})
        if m.get("clause") not in (None, clause):
            continue
        pred = PREDICATES.get(m.get("pred"))
        if pred and contains(ev["w"], pred):
            return f["id"]
    return None


def rewrite_catalogue(tier):
    """K3: TLC checks the catalogue of rewrite rules (spec/Rewrites.tla) for all operand values at widths <= MaxW and
    refutes the three negative controls.  Returns evidence; a rule with counterexamples is a *predicted* defect
    (reported as drift, the verdict on the code comes from the trace validation)."""
    import re
    import tempfile
    d = tempfile.mkdtemp(prefix="rw-", dir=C.scratch())
    cfg = os.path.join(d, "Rewrites.cfg")
    with open(cfg, "w") as f:
        f.write("CONSTANTS\n MaxW = %d\n" % (3 if tier == "quick" else 4))
    rc, out = C.run_tlc("Rewrites.tla", cfg=cfg, timeout=1500)
    rules = re.findall(r'<<"RULE", "(\w+)", (\d+), (\d+)>>', out)
    ctl = re.search(r'<<"CONTROL", (\d+), (\d+), (\d+)>>', out)
    ctl2 = re.search(r'<<"CONTROL2", (\d+), (\d+)>>', out)
    if not rules or not ctl or not ctl2 or '<<"DONE"' not in out:
        raise C.MachineryError("Rewrites.tla did not complete:\n" + out[-2000:])
    failing = sorted({r for r, w, n in rules if int(n) > 0})
    return {"rules": len({r for r, _, _ in rules}), "obligations": len(rules), "failing_rules": failing,
            "negative_controls_counterexamples": [int(x) for x in ctl.groups() + ctl2.groups()]}


def fpstr_outcomes(R, tier, seed):
    """C04: constructions over floats and strings (NaN, infinities, metacharacters, extreme indices).  The FP / string
    engines record the outcome symbol of every folded construction; here only their clause "outcome" is taken (values
    are C02 / C03).  Known failing inputs are the same exact sets (the signature contains the clause)."""
    from . import eng_fp, eng_str
    n = 0
    for eng, pid2 in ((eng_fp, "C02"), (eng_str, "C03")):
        jobs = []
        for j in eng.jobs_for(tier, seed):
            j = dict(j)
            if j.get("group") in ("arith", "cmp", "d2") and tier == "quick":
                continue                     # value-heavy groups: their outcomes are covered by the unary/conversion pools
            j["solved"] = 0
            j["fresh_every"] = 0
            jobs.append(j)
        bad, stats = C.pipeline(eng.W.__name__.split(".")[-1], jobs, eng.TLA)
        st = C.merge_stats(stats)
        n += st["events"]
        exact = C.load_set(f"{pid2}-exact.txt") | (C.load_set(f"{pid2}-exact-thorough.txt") if tier == "thorough" else set())
        for jx, ev, clause, _x in bad:
            if clause != "outcome":
                continue
            sgn = eng.signature(ev, clause)
            if sgn in exact and not jobs[jx].get("rand"):
                g = eng.group_of(ev, clause)
                R.add_known(g.replace(pid2, "C04"), eng.GROUP_WHAT[g])
                continue
            R.add_violation({"property": "C04", "clause": "outcome", "engine": pid2, "outcome": ev.get("out"), "event": ev})
    return n


def check(pid, tier, regen=False):
    seed = C.seed()
    level = {"C01": "translation_validation", "C04": "exploration", "C05": "exploration"}[pid]
    R = C.Result(pid, level, tier)
    groups = jobs_for(tier, seed, pid)
    jobs = [j for g in groups for j in g]
    bad, stats = C.pipeline("w_expr", jobs, "TraceExpr.tla")
    st = C.merge_stats(stats)
    mine = {"C01": {"meaning", "z3-translation", "zerodiv-unjustified", "result-width"}, "C04": {"outcome"}, "C05": META_CLAUSES}[pid]
    exact = C.load_set(f"{pid}-exact.txt")
    new_exact = set()
    n_known = 0
    n_mine = 0
    for _, ev, clause, _x in bad:
        if clause not in mine:
            continue
        n_mine += 1
        if ev.get("k") == "strw":
            R.add_violation({"property": pid, "clause": clause, "operation": ev["op"], "string": ev["sa"], "pattern": ev["sb"],
                             "index_width": ev["iw"], "start": ev["start"], "folded_width": ev["lenf"],
                             "declared_width": ev["lend"]})
            continue
        s = C.sig([ev["w"], ev["how"], clause])
        new_exact.add(s)
        fid = classify(pid, ev, clause, exact)
        if fid:
            n_known += 1
            R.add_known(fid if fid != "exact" else f"{pid}-exact", "listed failing input (findings/%s-exact.txt)" % pid
                        if fid == "exact" else next(f["what"] for f in C.load_findings(pid) if f["id"] == fid))
            continue
        payload = {"property": pid, "clause": clause, "written": ev["w"], "how": ev["how"], "result": ev["r"],
                   "outcome": ev["out"], "z3": ev.get("z3"), "sig": s}
        if clause == "meaning":
            so = second_opinion(ev)
            payload["second_opinion"] = so
            if so == "spec-suspect":
                raise C.MachineryError("spec and Z3 disagree on " + json.dumps(payload)[:1500])
        R.add_violation(payload)
    n_fpstr = fpstr_outcomes(R, tier, seed) if pid == "C04" and not regen else 0
    cat = rewrite_catalogue(tier) if pid == "C01" else None
    if regen:
        with open(os.path.join(C.VERIF, "findings", f"{pid}-exact.txt"), "w") as f:
            for s in sorted(new_exact):
                f.write(s + "\n")
        print(f"regenerated findings/{pid}-exact.txt with {len(new_exact)} entries")
        R.violations = []
    R.coverage = {
        "programs": st["events"],
        "disagreements_checked": n_mine,
        "evaluations": st["events"],
        "distinct_nontrivial": st["nontrivial"],
        "rule": "one event per (written term, spelling) built through the public API; non-trivial = claripy returned a "
                "tree structurally different from the written one (rewritten/folded), distinct by (written, result)",
        "samples": st["samples"],
        "outcomes": st["outcomes"],
        "exhaustive": False,
        "exhaustive_scopes": "W=1 depth<=2 all terms; W=2,3 depth 1 all terms" + ("; W=2,3 depth 2 all" if tier == "thorough" else "; W=2 depth 2 1/2 sample, W=3 depth 2 1/16 sample (seeded)"),
        "known_instances": n_known,
        "fp_string_constructions": n_fpstr,
        "tlc_module": "TraceExpr.tla (Term.tla, BVBits.tla)" + (", TraceFP.tla, TraceStr.tla (outcome clause)" if n_fpstr else ""),
    }
    if cat:
        R.coverage["rewrite_catalogue"] = cat
        if cat["failing_rules"]:
            R.notes.append("SPEC-DRIFT: catalogue rules with counterexamples: %s" % cat["failing_rules"])
    R.assumptions = ["TLC evaluates spec/Term.tla correctly", "assignments are exhaustive up to 10 variable bits, "
                     "24 sampled (edge + random) above", "Z3 used only as second opinion / translation binding"]
    return R.finish()
