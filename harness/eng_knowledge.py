"""Knowledge monitor streams (spec/Knowledge.tla): executions this framework did not script -- the repository's own
test-suite and wide-width random histories -- recorded through harness/recorder.py and validated by TLC.  Used by the
solver engine for the properties whose frontends appear in them (by class)."""
from __future__ import annotations

from . import common as C

CLASSES = {
    "C11": {"Solver", "SolverCacheless", "SolverStrings", "SolverConcrete"},
    "C12": {"SolverComposite"},
    "C13": {"SolverReplacement", "SolverHybrid", "SolverReplacementCacheless"},
}
WIDE = {
    "C11": [["Solver", {}], ["SolverCacheless", {}]],
    "C12": [["SolverComposite", {}]],
    "C13": [["SolverReplacement", {}], ["SolverHybrid", {}]],
}


def shortcut_explained(blist):
    """known finding <pid>-replacement-concrete-on-unsat, as a predicate on a flagged step: the contradiction involves an
    answer a ReplacementFrontend gave through its concrete shortcut (recorder field 'shortcut'): the same trace WITHOUT
    those answers is validated again by TLC, and the step is explained iff it is not flagged any more"""
    import json
    import os
    import tempfile
    traces = {}
    for _, tr, clause, extra in blist:
        if any(e.get("shortcut") for e in tr["ev"]):
            traces.setdefault(tr["tid"], (tr, set()))[1].add((int(extra), clause))
    if not traces:
        return set()
    d = tempfile.mkdtemp(prefix="kn-", dir=C.scratch())
    path = os.path.join(d, "filtered.ndjson")
    order, maps = [], []
    with open(path, "w") as f:
        for tid, (tr, _) in traces.items():
            keep = [i for i, e in enumerate(tr["ev"], 1) if not e.get("shortcut")]
            maps.append({new: old for new, old in enumerate(keep, 1)})
            order.append(tid)
            f.write(json.dumps({"tid": tid, "maxid": tr["maxid"], "ev": [tr["ev"][i - 1] for i in keep]}) + "\n")
    rc, out = C.run_tlc("TraceKnowledge.tla", cfg="Empty.cfg", env={"TRACE_FILE": path})
    b, done = C.parse_event_output(out)
    if done != len(order):
        raise C.MachineryError("TraceKnowledge did not consume the filtered traces:\n" + out[-2000:])
    still = {(order[i - 1], maps[i - 1][int(x)], c) for (i, c, x) in b}
    res = set()
    for tid, (tr, flagged) in traces.items():
        for (k, clause) in flagged:
            if (tid, k, clause) not in still:
                res.add((tid, k, clause))
    return res


def selftest():
    """vacuity guard: hand-written traces that contradict themselves must be rejected, clause by clause"""
    import json
    import os
    import tempfile

    def ev(call, **kw):
        e = {"call": call, "cls": "Solver", "s": 0, "new": [], "res": [], "e": "E", "w": 4, "n": 0, "vals": [], "v": ["none", "", []],
             "extra": False, "signed": False, "exc": "", "others": [], "approx": False, "shortcut": False}
        e.update(kw)
        return e

    def bv(v):
        return ["bv", str(v), [(v >> i) & 1 for i in range(4)]]
    T = ["True"]
    cases = [
        ("eval-outside-exhaustive", [ev("eval", n=5, vals=[bv(1), bv(2)]), ev("add"), ev("eval", n=5, vals=[bv(3)])]),
        ("eval-count", [ev("eval", n=5, vals=[bv(1), bv(2)]), ev("eval", n=5, vals=[bv(1)])]),
        ("optimum-beaten-by-witness", [ev("eval", n=1, vals=[bv(1)]), ev("min", vals=[bv(2)])]),
        ("optimum-outside-bounds", [ev("max", vals=[bv(5)]), ev("add"), ev("max", vals=[bv(6)])]),
        ("unsat-after-sat", [ev("eval", n=1, vals=[bv(1)]), ev("satisfiable", vals=[["bool", "False", []]])]),
        ("answer-after-unsat", [ev("satisfiable", vals=[["bool", "False", []]]), ev("add"), ev("min", vals=[bv(0)])]),
        ("solution-false-for-witness", [ev("eval", n=1, vals=[bv(7)]), ev("solution", v=bv(7), vals=[["bool", "False", []]])]),
        ("", [ev("eval", n=5, vals=[bv(1), bv(2)]), ev("add"), ev("eval", n=5, vals=[bv(2)]), ev("min", vals=[bv(2)]),
              ev("branch", res=[1], new=[1]), ev("add", s=1), ev("satisfiable", s=1, vals=[["bool", "False", []]]),
              ev("max", vals=[bv(2)])]),
    ]
    d = tempfile.mkdtemp(prefix="kns-", dir=C.scratch())
    path = os.path.join(d, "selftest.ndjson")
    with open(path, "w") as f:
        for i, (_, evs) in enumerate(cases):
            f.write(json.dumps({"tid": f"selftest-{i}", "maxid": 1, "ev": evs}) + "\n")
    rc, out = C.run_tlc("TraceKnowledge.tla", cfg="Empty.cfg", env={"TRACE_FILE": path})
    b, done = C.parse_event_output(out)
    if done != len(cases):
        raise C.MachineryError("TraceKnowledge self-test did not complete:\n" + out[-2000:])
    for i, (clause, _) in enumerate(cases, 1):
        got = {c for (j, c, _x) in b if j == i}
        if (clause and clause not in got) or (not clause and got):
            raise C.MachineryError(f"Knowledge.tla self-test {i}: expected {clause or 'acceptance'}, TLC reported {sorted(got)}")
    return len(cases)


def stream(R, pid, tier, seed):
    """returns coverage dict; adds violations to R"""
    n_self = selftest()
    n = 8
    per = 12 if tier == "quick" else 150
    jobs = [{"kind": "repo", "tests": ["tests"]}]
    bad, stats = C.pipeline("w_repotests", jobs, "TraceKnowledge.tla")
    rst = stats[0]
    if rst.get("pytest_rc") not in (0, 1) or rst["events"] == 0:
        raise C.MachineryError("recording the repository's test-suite failed: " + str(rst.get("pytest_tail")))
    wjobs = [{"seed": seed * 100 + k, "n": per, "classes": WIDE[pid], "len": 12} for k in range(n)]
    wbad, wstats = C.pipeline("w_wide", wjobs, "TraceKnowledge.tla")
    wst = C.merge_stats(wstats)
    n_v = 0
    findings = {f["id"]: f for f in C.load_findings(pid)}
    explained = shortcut_explained([t for t in bad + wbad]) if (pid + "-replacement-concrete-on-unsat") in findings else set()
    for src, blist in (("repository test-suite", bad), ("wide-width history", wbad)):
        for _, tr, clause, extra in blist:
            k = int(extra)
            ev = tr["ev"][k - 1]
            if ev["cls"] not in CLASSES[pid]:
                continue
            if (tr["tid"], k, clause) in explained:
                f = findings[pid + "-replacement-concrete-on-unsat"]
                R.add_known(f["id"], f["what"])
                continue
            n_v += 1
            R.add_violation({"property": pid, "clause": "knowledge-" + clause, "source": src, "trace": tr["tid"], "step": k,
                             "event": {x: ev[x] for x in ("call", "cls", "s", "e", "n", "vals", "v", "extra", "signed", "exc")},
                             "history": [{x: e[x] for x in ("call", "s", "e", "n", "vals", "v", "extra", "signed", "exc", "res")}
                                         for e in tr["ev"][:k]][-40:]})
    return {"repo_test_traces": rst["events"], "repo_test_calls": rst["calls"], "repo_tests_pytest_rc": rst.get("pytest_rc"),
            "wide_histories": wst["events"], "wide_calls": wst.get("calls", 0), "knowledge_violations": n_v,
            "validator_selftest_traces": n_self}
