"""Worker for C26: values extracted from models are values the expression takes.

usage: python -m harness.w_values job.json outprefix
"""
from __future__ import annotations

import json
import random
import struct
import sys

from . import gen_expr as G
from . import term as TM
from .term import BVS, BVV, T
from .wlib import ShardWriter


def boundary(w):
    m = (1 << w) - 1
    return sorted({0, 1, 2, m, m - 1, 1 << (w - 1), (1 << (w - 1)) - 1, (1 << (w - 1)) + 1, 0x55555555_55555555_55555555_55555555 & m,
                   0xdeadbeef_cafebabe_01234567_89abcdef & m})


def bv_cases(rng, n):
    out = []
    widths = [1, 2, 7, 8, 16, 31, 32, 33, 63, 64, 65, 128, 256]
    for _ in range(n):
        W = rng.choice(widths)
        x, y = BVS("x", W), BVS("y", W)
        shapes = [x, T("__add__", x, y), T("__mul__", x, BVV(3, W)), T("__xor__", x, y), T("__sub__", y, x),
                  T("If", T("ULT", x, y), x, y), T("__invert__", x), T("__neg__", y), T("LShR", x, BVV(1, W)),
                  T("__rshift__", x, BVV(W // 2, W)), T("RotateLeft", x, BVV(1, W))]
        if W >= 2:
            shapes += [T("Extract", x, ints=(W - 1, W // 2)), T("ZeroExt", T("Extract", x, ints=(W // 2, 0)), ints=(3,)),
                       T("SignExt", T("Extract", y, ints=(W // 2, 0)), ints=(2,)), T("Concat", T("Extract", x, ints=(0, 0)), y)]
        e = rng.choice(shapes)
        we = TM.width(e)
        cons = []
        r = rng.random()
        v = rng.choice(boundary(we)) if rng.random() < 0.7 else rng.getrandbits(we)
        if r < 0.45:
            cons.append(T("__eq__", e, BVV(v, we)))
        elif r < 0.7:
            a, b = sorted([rng.getrandbits(we), rng.getrandbits(we)])
            cons += [T("UGE", e, BVV(a, we)), T("ULE", e, BVV(b, we))]
        elif r < 0.85:
            cons += [T("SGE", e, BVV(v, we)), T("__ne__", x, BVV(rng.choice(boundary(W)), W))]
        else:
            cons.append(G.rand_term(rng, W, 3, want_bool=True, names=("x", "y")))
        if rng.random() < 0.4:
            cons.append(T(rng.choice(["ULT", "SLT", "__ne__", "UGE"]), x, y))
        out.append({"W": W, "e": e, "cons": cons})
    return out


CLASSES = ["Solver", "SolverCacheless", "SolverComposite", "SolverHybrid", "SolverReplacement"]


def val_bits(v, ast):
    import claripy
    if isinstance(v, bool):
        return [1 if v else 0]
    w = ast.length if isinstance(ast, claripy.ast.Bits) else 1
    return TM.bits(v % (1 << w), w)


def witness(cons_asts, es_asts, vals, vars_):
    """ask an independent cache-less solver for a model of cons /\\ es == vals; returns [status, pairs]"""
    import claripy
    s = claripy.SolverCacheless()
    try:
        s.add(list(cons_asts))
        extra = []
        for a, v in zip(es_asts, vals):
            if isinstance(a, claripy.ast.Bool):
                extra.append(a == claripy.BoolV(bool(v[0])))
            else:
                extra.append(a == claripy.BVV(TM.unbits(v), a.length))
        vs = [claripy.BVS(n, w, explicit_name=True) if w else claripy.BoolS(n, explicit_name=True) for n, w in vars_]
        if not vs:
            return ["ok", []] if s.satisfiable(extra_constraints=extra) else ["unsat", []]
        r = s.batch_eval(vs, 1, extra_constraints=extra)
        tup = next(iter(r))
        return ["ok", [[n, val_bits(v, a)] for (n, w), v, a in zip(vars_, tup, vs)]]
    except claripy.errors.UnsatError:
        return ["unsat", []]
    except _Slow:
        raise
    except Exception as ex:  # noqa: BLE001
        return ["error:" + type(ex).__name__, []]


class _Slow(Exception):
    pass


def _alarm(signum, frame):
    raise _Slow()


def run_bv(job, rng, out):
    import signal
    signal.signal(signal.SIGPROF, _alarm)      # CPU time of this process, not wall-clock time
    skipped = 0
    for ci, case in enumerate(bv_cases(rng, job["n"])):
        signal.setitimer(signal.ITIMER_PROF, job.get("case_budget_s", 12))
        try:
            run_bv_case(case, rng, out)
        except _Slow:
            skipped += 1          # solver time budget exceeded: the case is dropped, not judged
        finally:
            signal.setitimer(signal.ITIMER_PROF, 0)
    out.stats["skipped_slow"] = skipped


def run_bv_case(case, rng, out):
    import claripy
    if True:
        cache = {}
        try:
            e = TM.build(case["e"], "std", cache)
            cons = [TM.build(c, "std", cache) for c in case["cons"]]
        except _Slow:
            raise
        except Exception:  # noqa: BLE001
            return
        fv = {}
        for t in [case["e"]] + case["cons"]:
            TM.free_vars(t, fv)
        vars_ = sorted(fv.items())
        cls = rng.choice(CLASSES)
        s = getattr(claripy, cls)()
        try:
            s.add(cons)
        except _Slow:
            raise
        except Exception:  # noqa: BLE001
            return
        xs = claripy.BVS("x", case["W"], explicit_name=True)
        calls = [("eval", lambda: [(v,) for v in s.eval(e, 3)], [e], [case["e"]]),
                 ("batch_eval", lambda: list(s.batch_eval([e, xs], 2)), [e, xs], [case["e"], BVS("x", case["W"])]),
                 ("min", lambda: [(s.min(e),)], [e], [case["e"]]), ("max", lambda: [(s.max(e),)], [e], [case["e"]]),
                 ("smin", lambda: [(s.min(e, signed=True),)], [e], [case["e"]]),
                 ("smax", lambda: [(s.max(e, signed=True),)], [e], [case["e"]]),
                 ("eval_after", lambda: [(v,) for v in s.eval(e, 2)], [e], [case["e"]])]
        for name, fn, asts, terms in calls:
            try:
                res = fn()
            except claripy.errors.UnsatError:
                continue
            except _Slow:
                raise
            except Exception as ex:  # noqa: BLE001
                out.write({"k": "pin", "sort": "bv", "out": "PyError:" + type(ex).__name__, "pinned": [], "got": [],
                           "eb": 0, "sb": 0, "call": name, "cls": cls, "cons": case["cons"], "es": terms},
                          outcome="exc")
                continue
            for tup in res:
                vals = [val_bits(v, a) for v, a in zip(tup, asts)]
                fv2 = dict(fv)
                for t in terms:
                    TM.free_vars(t, fv2)
                ev = {"k": "bv", "cls": cls, "call": name, "cons": case["cons"], "es": terms, "vals": vals,
                      "wit": witness(cons, asts, vals, sorted(fv2.items()))}
                out.write(ev, nontrivial_key=[case["cons"], terms, vals], outcome=name,
                          sample={"cls": cls, "call": name, "cons": case["cons"], "es": terms, "vals": vals})


FP_POOL64 = [0.0, -0.0, 1.0, -1.0, 0.1, 1.5, float("inf"), float("-inf"), float("nan"), 5e-324, -5e-324, 2.2250738585072014e-308,
             1.7976931348623157e308, 4.9406564584124654e-322, 2.0 ** 53 + 2, 1e-310, -1e-310, 3.141592653589793, 2.0 ** 63]
FP_POOL32 = [0.0, -0.0, 1.0, -1.5, float("inf"), float("-inf"), float("nan"), 1e-45, -1e-45, 1.17549435e-38, 3.4028235e38, 16777217.0,
             1e-40, 0.1]
STR_POOL = ["", "a", "\x00z", "a\x00", "\n", "\\", "\\u{48}", "\\x41", "(.*)[", "é", "٣", "\U0001F600", "a\U0001F600b", "ÿ",
            "\x7f", "\x1f", "'\"", "0123456789" * 3, " ", "\t\r"]


def run_pins(job, rng, out):
    import claripy
    for sortname, pool, fs in (("d", FP_POOL64, claripy.FSORT_DOUBLE), ("f", FP_POOL32, claripy.FSORT_FLOAT)):
        for v in pool:
            w = fs.length
            if w == 64:
                (iv,) = struct.unpack("<Q", struct.pack("<d", v))
            else:
                (iv,) = struct.unpack("<I", struct.pack("<f", v))
            pinned = TM.bits(iv, w)
            for cls in ("Solver", "SolverCacheless", "SolverComposite", "SolverHybrid"):
                for how in ("bits", "eq"):
                    f = claripy.FPS("f" + sortname, fs, explicit_name=True)
                    s = getattr(claripy, cls)()
                    if v != v:
                        c = claripy.fpIsNaN(f)
                    elif how == "bits":
                        c = claripy.fpToIEEEBV(f) == claripy.BVV(iv, w)
                    else:
                        if v == 0.0:
                            continue            # fpEQ does not distinguish the zeros
                        c = f == claripy.FPV(v, fs)
                    for call in ("eval", "batch_eval"):
                        ev = {"k": "pin", "sort": "fp", "out": "ok", "pinned": pinned, "got": [], "eb": fs.exp,
                              "sb": fs.mantissa, "call": call, "cls": cls, "how": how}
                        try:
                            s.add(c)
                            r = s.eval(f, 1)[0] if call == "eval" else next(iter(s.batch_eval([f, f], 1)))[1]
                            if w == 64:
                                (gi,) = struct.unpack("<Q", struct.pack("<d", r))
                            else:
                                (gi,) = struct.unpack("<I", struct.pack("<f", r))
                            ev["got"] = TM.bits(gi, w)
                        except Exception as ex:  # noqa: BLE001
                            ev["out"] = "PyError:" + type(ex).__name__
                        out.write(ev, nontrivial_key=[sortname, pinned, cls, how, call], outcome="pin-fp",
                                  sample={"sort": "fp", "value": repr(v), "cls": cls})
    for v in STR_POOL:
        pinned = [ord(ch) for ch in v]
        for cls in ("SolverStrings", "Solver", "SolverComposite"):
            for how in ("eq", "concat"):
                x = claripy.StringS("s", explicit_name=True)
                s = getattr(claripy, cls)()
                if how == "eq":
                    c = [x == claripy.StringV(v)]
                    q = x
                    want = pinned
                else:
                    c = [x == claripy.StringV(v)]
                    q = claripy.StrConcat(x, claripy.StringV("|"), x)
                    want = pinned + [ord("|")] + pinned
                ev = {"k": "pin", "sort": "str", "out": "ok", "pinned": want, "got": [], "eb": 0, "sb": 0,
                      "call": "eval", "cls": cls, "how": how}
                try:
                    s.add(c)
                    r = s.eval(q, 1)[0]
                    ev["got"] = [ord(ch) for ch in r]
                except Exception as ex:  # noqa: BLE001
                    ev["out"] = "PyError:" + type(ex).__name__
                out.write(ev, nontrivial_key=["str", want, cls, how], outcome="pin-str",
                          sample={"sort": "str", "value": repr(v), "cls": cls})


def main():
    job = json.load(open(sys.argv[1]))
    rng = random.Random(job.get("seed", 0))
    out = ShardWriter(sys.argv[2], job.get("shard", 4000))
    if job["mode"] == "bv":
        run_bv(job, rng, out)
    else:
        run_pins(job, rng, out)
    out.close()


if __name__ == "__main__":
    main()
