"""Utility engine: C08 (substitution, canonicalisation, ITE utilities, byte slices, identical) and C09 (Z3 round
trip: claripy.simplify, BackendZ3._abstract).  Workers (harness/w_util.py) call claripy's public API and record one
event per call; every verdict is a clause of spec/UtilSem.tla evaluated by TLC through spec/TraceExpr.tla."""
from __future__ import annotations

import json
import os

from . import common as C
from . import term as TM

SO_CAP = 60        # Z3 second opinions per (event kind, clause); a mutant can reject tens of thousands of events
FIXED = 7          # seed of the deterministic streams (independent of VERIF_SEED: their failing inputs are exact sets)

# clauses that are recorded but, by the property statements, are not verdicts
# (kind, clause): Base.identical raises the truthiness ClaripyOperationError whenever the two variable maps differ
# (and BV.identical a ClaripyZeroDivisionError out of the VSA conversion of x % 0); the statement constrains only the
# *answers* of identical() (DESIGN C08), so an exception is counted per type in the evidence, not judged
INFORMATIONAL = {
    ("alpha", "outcome"),
}


def streams_for(pid, tier, seed):
    """the streams of a check; each is cut into NPROC slices (part k of n), slice k of every stream runs in worker k
    (one interpreter = one history of utility calls; one TLC run per worker)"""
    q = tier == "quick"
    S = []
    if pid == "C08":
        # (c) excavate_ite / burrow_ite on the deterministic nested-If trees (depth <= 3, W <= 3) and on random ones
        S.append({"gen": "ite", "trees": "core", "widths": [3] if q else [1, 2, 3], "det": True})
        S.append({"gen": "ite", "n": 40 if q else 2500, "depth": 4, "compose": True})
        # (a) replace / replace_dict, (b) canonicalize
        S.append({"gen": "subst", "trees": "core", "widths": [3] if q else [1, 2, 3], "det": True, "full": not q,
                  "maps": 2 if q else 4, "stride": 16 if q else 1})
        S.append({"gen": "subst", "n": 8 if q else 500, "depth": 4, "full": True, "maps": 3})
        S.append({"gen": "canonchain", "chains": "core", "W": 3, "det": True})
        S.append({"gen": "canonchain", "n": 15 if q else 600})
        # (d) ite_cases / reverse_ite_cases / ite_dict
        S.append({"gen": "cases", "cases": "core", "widths": [3] if q else [2, 3], "det": True, "stride": 2 if q else 1})
        S.append({"gen": "cases", "n": 30 if q else 1500})
        S.append({"gen": "dict", "dicts": "core", "W": 3, "det": True})
        S.append({"gen": "dict", "n": 10 if q else 800})
        # (e) chop / get_byte / get_bytes
        S.append({"gen": "slices", "det": True, "asgs": 16, "widths": [8, 12, 16, 24, 32, 33, 63, 64]})
        S.append({"gen": "slices", "asgs": 16, "widths": [9, 20, 31, 40, 48, 56] if q else list(range(8, 65))})
        # (f) identical
        S.append({"gen": "identical", "pairs": "fixed", "det": True})
        S.append({"gen": "identical", "W": 3, "n": 100 if q else 4000, "keep": 0.004 if q else 0.1, "whole": True})
        S.append({"gen": "identical", "W": 2, "n": 60 if q else 2000, "keep": 0.004 if q else 0.1, "whole": True})
    elif pid == "C09":
        for W in (1, 2, 3):
            S.append({"gen": "simplify", "src": "exh", "W": W, "depth": 1, "det": True})
        for (W, k) in ((1, 8 if q else 1), (2, 150 if q else 8), (3, 1500 if q else 60)):
            S.append({"gen": "simplify", "src": "exh", "W": W, "depth": 2, "sample": k, "sample_seed": seed})
        S.append({"gen": "simplify", "src": "trees", "trees": "core", "widths": [3], "det": True, "stride": 4 if q else 1})
        S.append({"gen": "simplify", "src": "rules", "per": 1 if q else 6, "whole": True})
        S.append({"gen": "simplify", "src": "rand", "n": 60 if q else 1500, "depth": 5, "budget_s": 8})
        S.append({"gen": "z3abs", "widths": [1, 2, 3, 4], "det": True})
        S.append({"gen": "fpstr", "det": True})
        # the same round trips from a NON-MAIN thread (BackendZ3 keeps a Z3 context and its tactics per thread)
        S.append({"gen": "simplify", "src": "exh", "W": 2, "depth": 1, "det": True, "thread": True, "stride": 3 if q else 1})
        S.append({"gen": "simplify", "src": "trees", "trees": "core", "widths": [3], "det": True, "thread": True,
                  "stride": 16 if q else 2})
        S.append({"gen": "fpstr", "det": True, "thread": True})
    return S


def jobs_for(pid, tier, seed):
    n = C.NPROC
    jobs = [{"multi": [], "rlimit_gb": 6, "shard": 6000} for _ in range(n)]
    for si, st in enumerate(streams_for(pid, tier, seed)):
        for k in range(n):
            sub = dict(st)
            # deterministic streams never depend on VERIF_SEED (their failing inputs are listed exactly)
            sub["seed"] = FIXED if st.get("det") else (seed * 1000 + si * 50 + (0 if st.get("whole") else k))
            sub["part"], sub["nparts"] = k, n
            if "n" in st and not st.get("whole"):
                sub["part"], sub["nparts"] = 0, 1          # every slice draws its own n random inputs
            jobs[(k + si) % n]["multi"].append(sub)
    return jobs


# ----------------------------------------------------------------------------------------------
# signatures, second opinion, known findings
# ----------------------------------------------------------------------------------------------

def input_sig(ev, clause):
    """canonical signature of the failing INPUT of an event (what the exact finding sets list)"""
    k = ev["k"]
    if k == "equiv":
        key = [k, ev["u"], ev["w"]]
    elif k == "subst":
        key = [k, ev["u"], ev["e"], ev["os"], ev["ns"]]
    elif k == "canon":
        key = [k, ev["w"]]
    elif k == "canonchain":
        key = [k, ev["ws"]]
    elif k == "fprt":
        key = [k, ev["u"], ev["desc"]]
    elif k == "alpha":
        key = [k, ev["w"], ev["r"]]
    elif k == "cases":
        key = [k, ev["cases"], ev["dflt"]]
    elif k == "dict":
        key = [k, ev["i"], ev["kv"], ev["dflt"]]
    elif k == "revcases":
        key = [k, ev["w"]]
    elif k == "chop":
        key = [k, ev["w"], ev["bits"]]
    elif k == "bytes":
        key = [k, ev["u"], ev["w"], ev["index"], ev["size"]]
    elif k == "z3abs":
        key = [k, ev["via"], ev["zop"], ev["ints"], ev["args"]]
    elif k == "outcome":
        key = [k, ev["f"], ev["desc"]]
    else:
        key = [k, json.dumps(ev, sort_keys=True)]
    return C.sig(key + [clause])


def nested_if(cases, dflt):
    t = dflt
    for c, v in reversed(cases):
        t = TM.T("If", c, v, t)
    return t


def second_opinion(ev, clause):
    """Independent Z3 check of a semantic clause.  Returns 'confirmed', 'spec-suspect' or 'n/a' (clause is not about
    value semantics, or the terms are outside to_z3's language)."""
    try:
        k = ev["k"]
        if clause == "meaning" and k == "equiv":
            return "spec-suspect" if TM.z3_equiv(ev["w"], ev["r"]) else "confirmed"
        if clause == "cases":
            return "spec-suspect" if TM.z3_equiv(nested_if([(c, v) for c, v in ev["cases"]], ev["dflt"]), ev["r"]) else "confirmed"
        if clause == "dict":
            W = TM.width(ev["i"])
            cs = [(TM.T("__eq__", ev["i"], ["BVV", "", kb, []]), v) for kb, v in ev["kv"]]
            return "spec-suspect" if TM.z3_equiv(nested_if(cs, ev["dflt"]), ev["r"]) else "confirmed"
        if clause == "rev-value":
            import z3
            s = z3.Solver()
            w = TM.to_z3(ev["w"])
            s.add(z3.Or(*[z3.And(TM.to_z3(c), TM.to_z3(v) != w) for c, v in ev["pairs"]]))
            return "confirmed" if s.check() == z3.sat else "spec-suspect"
        if clause == "rev-exclusive":
            import z3
            s = z3.Solver()
            cs = [TM.to_z3(c) for c, _ in ev["pairs"]]
            s.add(z3.Or(*[z3.And(cs[i], cs[j]) for i in range(len(cs)) for j in range(i + 1, len(cs))]))
            return "confirmed" if s.check() == z3.sat else "spec-suspect"
        if clause == "rev-cover":
            import z3
            s = z3.Solver()
            s.add(z3.Not(z3.Or(*[TM.to_z3(c) for c, _ in ev["pairs"]])))
            return "confirmed" if s.check() == z3.sat else "spec-suspect"
        if clause == "chop":
            s = TM.width(ev["w"])
            b = ev["bits"]
            ok = all(TM.z3_equiv(TM.T("Extract", ev["w"], ints=(s - 1 - j * b, s - (j + 1) * b)), r)
                     for j, r in enumerate(ev["rs"]))
            return "spec-suspect" if ok else "confirmed"
        if clause == "bytes":
            s = TM.width(ev["w"])
            S = 8 * ((s + 7) // 8)
            src = TM.T("ZeroExt", ev["w"], ints=(S - s,)) if S > s else ev["w"]
            spec = TM.T("Extract", src, ints=(S - 1 - 8 * ev["index"], S - 8 * (ev["index"] + ev["size"])))
            return "spec-suspect" if TM.z3_equiv(spec, ev["r"]) else "confirmed"
        if clause == "z3-meaning":
            return z3_second_opinion(ev)
    except Exception:  # noqa: BLE001
        return "n/a"
    return "n/a"


_Z3F = None


def z3_second_opinion(ev):
    """rebuild the Z3 application with the z3 Python API in the default context and compare with the abstraction"""
    import z3
    A = [TM.to_z3(a) for a in ev["args"]]
    zop, ints = ev["zop"], ev["ints"]
    f = {"bvadd": lambda: sum(A[1:], A[0]), "bvsub": lambda: A[0] - A[1], "bvmul": lambda: _prod(A),
         "bvudiv": lambda: z3.UDiv(*A), "bvurem": lambda: z3.URem(*A), "bvsdiv": lambda: A[0] / A[1],
         "bvsrem": lambda: z3.SRem(*A), "bvsmod": lambda: A[0] % A[1], "bvneg": lambda: -A[0], "bvnot": lambda: ~A[0],
         "bvand": lambda: A[0] & A[1], "bvor": lambda: A[0] | A[1], "bvxor": lambda: _fold(lambda x, y: x ^ y, A),
         "bvshl": lambda: A[0] << A[1], "bvlshr": lambda: z3.LShR(*A), "bvashr": lambda: A[0] >> A[1],
         "ext_rotate_left": lambda: z3.RotateLeft(*A), "ext_rotate_right": lambda: z3.RotateRight(*A),
         "concat": lambda: z3.Concat(*A), "extract": lambda: z3.Extract(ints[0], ints[1], A[0]),
         "zero_extend": lambda: z3.ZeroExt(ints[0], A[0]), "sign_extend": lambda: z3.SignExt(ints[0], A[0]),
         "repeat": lambda: z3.RepeatBitVec(ints[0], A[0]), "ite": lambda: z3.If(*A), "=": lambda: A[0] == A[1],
         "distinct": lambda: z3.Distinct(*A), "bvult": lambda: z3.ULT(*A), "bvule": lambda: z3.ULE(*A),
         "bvugt": lambda: z3.UGT(*A), "bvuge": lambda: z3.UGE(*A), "bvslt": lambda: A[0] < A[1],
         "bvsle": lambda: A[0] <= A[1], "bvsgt": lambda: A[0] > A[1], "bvsge": lambda: A[0] >= A[1],
         "and": lambda: z3.And(*A), "or": lambda: z3.Or(*A), "not": lambda: z3.Not(A[0]), "xor": lambda: z3.Xor(*A),
         "=>": lambda: z3.Implies(*A)}.get(zop)
    if f is None:
        return "n/a"
    s = z3.Solver()
    s.add(f() != TM.to_z3(ev["r"]))
    return "confirmed" if s.check() == z3.sat else "spec-suspect"


def _fold(f, A):
    r = A[0]
    for a in A[1:]:
        r = f(r, a)
    return r


def _prod(A):
    return _fold(lambda x, y: x * y, A)


# predicates of known defects for the seeded streams (deterministic streams use the exact sets)
def _p_identical_vsa(ev, clause):
    """BV.identical compares the VSA abstractions of its arguments: every pair of bit-vector expressions that abstract
    to the same strided interval is reported identical"""
    return ev["k"] == "alpha" and clause == "identical-overclaims" and not TM.is_bool(ev["w"]) and not TM.is_bool(ev["r"])


_LEAF = ("BVS", "BVV", "BoolS", "BoolV")


def burrow_defects(t):
    """which of the two defects of ite_relocation._burrow_ite an input can trigger.  _burrow_ite merges
    If(c, op(..a..), op(..b..)) into op(.., If(c, a, b), ..) when exactly ONE argument position matches
    (`matches.count(True) != 1`), where it means to require exactly one DIFFERING position: with >= 3 arguments the
    other differences are dropped ("multi-diff"), and for Extract the first differing position is the integer `hi`,
    which is passed to claripy.If ("int-args": ClaripyTypeError)."""
    found = set()

    def pair(c, a, b):
        if c[0] in _LEAF or a[0] in _LEAF or b[0] in _LEAF or a[0] != b[0] or a[0] == "If":
            return
        if len(a[2]) != len(b[2]) or len(a[3]) != len(b[3]):
            return
        m = [i == j for i, j in zip(a[2], b[2])] + [x == y for x, y in zip(a[3], b[3])]
        if m.count(True) != 1 or all(m):
            return
        idx = m.index(False)
        if idx < len(a[2]):
            found.add("int-args")
            return
        if m.count(False) > 1:
            found.add("multi-diff")
        pair(c, a[3][idx - len(a[2])], b[3][idx - len(a[2])])

    def walk(u):
        if u[0] == "If":
            pair(u[3][0], u[3][1], u[3][2])
        for x in u[3]:
            walk(x)
    walk(t)
    return found


def _p_burrow_multi(ev, clause):
    return ev["k"] == "equiv" and ev["u"] == "burrow_ite" and clause == "meaning" and "multi-diff" in burrow_defects(ev["w"])


def _p_burrow_int(ev, clause):
    return ev["k"] == "equiv" and ev["u"] == "burrow_ite" and clause == "outcome" \
        and ev["out"] == "PyError:ClaripyTypeError" and "int-args" in burrow_defects(ev["w"])


PREDICATES = {"identical-bv-vsa": _p_identical_vsa, "burrow-multi-diff": _p_burrow_multi, "burrow-int-args": _p_burrow_int}


def load_findings(pid):
    """known findings of the property: known_findings.json plus the entries proposed by this engine
    (findings/util-proposed-findings.json) until the maintainer merges them"""
    out = {f["id"]: f for f in C.load_findings(pid)}
    merged = set()          # ids the maintainer already took over (in any status, e.g. "fixed: <commit>")
    kp = os.path.join(C.VERIF, "known_findings.json")
    if os.path.exists(kp):
        with open(kp) as fh:
            merged = {f.get("id") for f in json.load(fh).get("findings", [])}
    p = os.path.join(C.VERIF, "findings", "util-proposed-findings.json")
    if os.path.exists(p):
        with open(p) as fh:
            for f in json.load(fh).get("findings", []):
                if f.get("property") == pid and f["id"] not in merged and not str(f.get("status", "")).startswith("fixed"):
                    out.setdefault(f["id"], f)
    return list(out.values())


def payload(pid, ev, clause):
    p = {"property": pid, "clause": clause, "kind": ev["k"], "utility": ev.get("u", ""), "outcome": ev["out"],
         "deterministic_stream": ev.get("det", False)}
    for f in ("w", "r", "e", "os", "ns", "same", "map", "ans", "cases", "dflt", "i", "kv", "pairs", "bits", "rs", "index",
              "size", "zop", "ints", "args", "via", "f", "desc", "cls", "ws"):
        if f in ev:
            p[f] = ev[f]
    if "kind" in ev:
        p["z3_decl_kind"] = ev["kind"]
    return p


def check(pid, tier, regen=False):
    seed = C.seed()
    level = {"C08": "exploration", "C09": "translation_validation"}[pid]
    R = C.Result(pid, level, tier)
    if regen:
        # maintenance: the exact sets list the failing inputs of the DETERMINISTIC streams of both tiers
        jobs = []
        for t in ("quick", "thorough"):
            for j in jobs_for(pid, t, seed):
                j = dict(j, multi=[s_ for s_ in j["multi"] if s_.get("det")])
                if j["multi"]:
                    jobs.append(j)
    else:
        jobs = jobs_for(pid, tier, seed)
    bad, stats = C.pipeline("w_util", jobs, "TraceExpr.tla")
    st = C.merge_stats(stats)
    exact = C.load_set(f"{pid}-exact.txt")
    findings = load_findings(pid)
    new_exact = set()
    n_checked = n_known = n_info = 0
    n_so = {}
    info = {}
    for jx, ev, clause, _x in bad:
        n_checked += 1
        if (ev["k"], clause) in INFORMATIONAL:
            n_info += 1
            info[ev["out"]] = info.get(ev["out"], 0) + 1
            continue
        s = input_sig(ev, clause)
        pl = payload(pid, ev, clause)
        pl["sig"] = s
        pl["job"] = jobs[jx]          # the worker job (one interpreter, deterministic given its seeds): --replay re-runs it
        n_so[(ev["k"], clause)] = n_so.get((ev["k"], clause), 0) + 1
        so = second_opinion(ev, clause) if n_so[(ev["k"], clause)] <= SO_CAP else "not-run (cap %d per clause)" % SO_CAP
        pl["second_opinion"] = so
        if so == "spec-suspect":
            raise C.MachineryError("spec (TLC) rejects an event that Z3 accepts: " + json.dumps(pl)[:2000])
        if ev.get("det"):
            new_exact.add(s)
            if s in exact:
                n_known += 1
                fid = next((f["id"] for f in findings if matches(f, ev, clause)), f"{pid}-exact")
                what = next((f["what"] for f in findings if f["id"] == fid),
                            "listed failing input (findings/%s-exact.txt)" % pid)
                R.add_known(fid, what)
                continue
        else:
            hit = next((f for f in findings if matches(f, ev, clause)), None)
            if hit:
                n_known += 1
                R.add_known(hit["id"], hit["what"])
                continue
        R.add_violation(pl)
    if regen:
        with open(os.path.join(C.VERIF, "findings", f"{pid}-exact.txt"), "w") as f:
            for s in sorted(new_exact):
                f.write(s + "\n")
        print(f"regenerated findings/{pid}-exact.txt with {len(new_exact)} entries")
        R.violations = [v for v in R.violations if not v.get("deterministic_stream")]
    kinds_direct, kinds_simpl = set(), set()
    for s_ in stats:
        kinds_direct |= set(s_.get("kinds_direct", []))
        kinds_simpl |= set(s_.get("kinds_simplified", []))
    by_util = {}
    for k, v in st["outcomes"].items():
        kk, u, oc = k.split(":", 2)
        key = (u or kk) + ("" if oc == "ok" else " [" + oc + "]")
        by_util[key] = by_util.get(key, 0) + v
    if st["events"] == 0:
        raise C.MachineryError("no events were produced")
    if pid == "C08":
        R.coverage = {
            "evaluations": st["events"],
            "distinct_nontrivial": st["nontrivial"],
            "rule": "one event per utility call through claripy's public API (replace, replace_dict, canonicalize, "
                    "excavate_ite, burrow_ite, ite_cases, reverse_ite_cases, ite_dict, chop, get_byte, get_bytes, "
                    "identical); inputs: deterministic nested-If trees of depth <= 3 over x,y,c,d at W <= 3 plus seeded "
                    "random trees, every sub-node of the held AST as replaced node, all key sets of 0..7 for ite_dict, "
                    "case lists of length <= 4; non-trivial = the utility returned something structurally different "
                    "from its input (or a table/case list that is not empty, or identical() answered True on two "
                    "different terms), distinct by (utility, input), de-duplicated inside each worker (deterministic "
                    "streams are partitioned, so no input of theirs is seen by two workers)",
            "samples": st["samples"],
            "calls_per_utility": dict(sorted(by_util.items())),
            "clauses_failed_and_examined": n_checked,
            "known_instances": n_known,
            "informational": {"identical() raised instead of answering": info},
            "exhaustive": False,
            "exhaustive_scopes": "ite_dict: all 256 key sets of a 3-bit index (sizes 0..8); every assignment of the "
                                 "<= 10 variable bits of each event at W <= 3; byte utilities: 16 sampled assignments",
            "tlc_module": "TraceExpr.tla (UtilSem.tla, Term.tla, BVBits.tla)",
        }
        R.assumptions = ["TLC evaluates spec/UtilSem.tla / Term.tla correctly (Z3 agrees on every rejected event, else exit 2)",
                         "widths > 10 variable bits (byte utilities) are checked on sampled assignments only",
                         "identical(): only True answers are constrained; exceptions are recorded as informational"]
    else:
        from_claripy = {k: v for k, v in by_util.items() if k.startswith("simplify")}
        R.coverage = {
            "programs": st["events"],
            "disagreements_checked": n_checked,
            "samples": st["samples"],
            "distinct_nontrivial": st["nontrivial"],
            "rule": "programs = expressions pushed through the Z3 round trip: claripy.simplify(e) over the C01 streams "
                    "(all depth-1 terms at W <= 3, seeded sample of depth-2 terms, rewrite-rule instances, random deep "
                    "terms at widths 1..64, nested-If trees) compared with e under every assignment (<= 10 variable bits) "
                    "or 24 sampled ones; Z3 applications of every BV/Bool declaration kind built with the z3 API "
                    "(directly and after z3.simplify) abstracted by BackendZ3._abstract and compared with the SMT-LIB "
                    "meaning of the operator (UtilSem!Z3Apply); FP/string pool: outcome of simplify only",
            "calls": dict(sorted(by_util.items())),
            "simplify_calls": from_claripy,
            "z3_decl_kinds_abstracted_directly": sorted(kinds_direct),
            "z3_decl_kinds_after_z3_simplify": sorted(kinds_simpl),
            "known_instances": n_known,
            "exhaustive": False,
            "tlc_module": "TraceExpr.tla (UtilSem.tla, Term.tla, BVBits.tla)",
        }
        R.assumptions = ["TLC evaluates spec/UtilSem.tla / Term.tla correctly (Z3 agrees on every rejected event, else exit 2)",
                         "Z3's own simplifier is trusted where a Z3 application is abstracted after z3.simplify",
                         "FP and string terms: only the outcome of simplify is checked, not equivalence",
                         "Solver.simplify(): small-width histories with SimplificationAvoidanceAnnotation constraints validated "
                         "against SolverAbs (simplify leaves the model set unchanged)"]
        from . import eng_solver
        R.coverage["solver_simplify_calls"] = eng_solver.simplify_stream(R, pid, tier, C.seed())
    return R.finish()


def replay(pid, path):
    """re-execute the worker job that produced a violation (same seeds, fresh interpreter, current tree) and let TLC
    judge it again; exit 1 when the same input fails the same clause again"""
    with open(path) as fh:
        p = json.load(fh)
    bad, _stats = C.pipeline("w_util", [p["job"]], "TraceExpr.tla")
    hits = [(ev, cl) for _, ev, cl, _x in bad if cl == p["clause"] and input_sig(ev, cl) == p["sig"]]
    if hits:
        ev, cl = hits[0]
        print(f"VIOLATION property={pid} replay={path}")
        print("  reproduced: clause %s on %s" % (cl, json.dumps(payload(pid, ev, cl), default=str)[:1500]))
        return 1
    print(f"OK property={pid} replay={path}: the recorded input no longer fails clause {p['clause']} "
          f"({len(bad)} other rejected event(s) in the re-executed job)")
    return 0


def matches(f, ev, clause):
    """does known finding f describe the failing (event, clause)?"""
    m = f.get("match", {})
    if "pred" in m:
        pred = PREDICATES.get(m["pred"])
        return bool(pred and pred(ev, clause))
    if not (m.get("kind") or m.get("clause")):
        return False
    if m.get("kind") not in (None, ev["k"]) or m.get("clause") not in (None, clause):
        return False
    if "zop" in m and ev.get("zop") not in m["zop"]:
        return False
    if "desc_contains" in m and not any(x in ev.get("desc", "") for x in m["desc_contains"]):
        return False
    return True
