"""Worker: solution sets of floating-point equalities on every frontend class (validated by spec/TraceFPSolve.tla)."""
from __future__ import annotations

import json
import struct
import sys

from .w_solver import mk_solver
from .wlib import ShardWriter


def bits(v, w):
    return [(v >> i) & 1 for i in range(w)]


def main():
    import claripy
    job = json.load(open(sys.argv[1]))
    out = ShardWriter(sys.argv[2], 2000)
    fmts = [(claripy.FSORT_FLOAT, 8, 24, "<f", "<I", 32), (claripy.FSORT_DOUBLE, 11, 53, "<d", "<Q", 64)]
    consts = [0.0, -0.0, 1.0, -2.5, float("inf"), float("-inf"), float("nan"), 1e-45, -1e-320, 3.0e38]
    n = 0
    for cls, kw in job["classes"]:
        for sort, eb, sb, pf, pi, w in fmts:
            for cv in consts:
                try:
                    pat = struct.unpack(pi, struct.pack(pf, cv))[0]
                except OverflowError:
                    continue
                for spell in ("fpEQ", "eq", "fpEQ-rev"):
                    f = claripy.FPS(f"f{n}", sort, explicit_name=True)
                    c = claripy.FPV(cv, sort)
                    con = claripy.fpEQ(f, c) if spell == "fpEQ" else (f == c) if spell == "eq" else claripy.fpEQ(c, f)
                    raw = claripy.fpToIEEEBV(f)
                    ev = {"k": "fpsolve", "cls": cls, "kw": json.dumps(kw, sort_keys=True), "eb": eb, "sb": sb, "c": bits(pat, w),
                          "spell": spell, "vals": [], "negz": False, "poz": False, "exc": "", "ist0": False, "isf1": False}
                    n += 1
                    try:
                        s = mk_solver(cls, kw)
                        s.add(con)
                        ev["vals"] = [bits(v, w) for v in s.eval(raw, 4)]
                        ev["negz"] = bool(s.solution(raw, claripy.BVV(1 << (w - 1), w)))
                        ev["poz"] = bool(s.solution(raw, claripy.BVV(0, w)))
                        # cheap truth checks relative to the constraints (C10): True answers are claims
                        ev["ist0"] = bool(s.is_true(raw == claripy.BVV(0, w)))
                        ev["isf1"] = bool(s.is_false(raw == claripy.BVV(1 << (w - 1), w)))
                    except claripy.errors.UnsatError:
                        ev["exc"] = "UnsatError"
                    except Exception as ex:  # noqa: BLE001
                        ev["exc"] = type(ex).__name__
                    out.write(ev, nontrivial_key=[cls, kw, eb, cv != cv and "nan" or repr(cv), spell], outcome=ev["exc"] or "ok",
                              sample={"cls": cls, "const": repr(cv), "spell": spell})
    out.close({"calls": n})


if __name__ == "__main__":
    main()
