"""Worker: build written terms through claripy's public API in a fresh interpreter and emit events.

usage: python -m harness.w_expr job.json out.ndjson
job = {"gen": "exh"|"rules"|"rand"|"list", "W":…, "depth":…, "part":k, "nparts":n, "seed":…, "spell": bool,
       "z3": n assignments to push through claripy's Z3 translation, "meta": bool, "limit": …}
"""
from __future__ import annotations

import json
import random
import resource
import signal
import sys

from . import gen_expr as G
from . import term as TM
from .wlib import ShardWriter

DUMMY = ["BoolV", "", [0], []]


class _Timeout(Exception):
    pass


def _alarm(signum, frame):
    raise _Timeout()


def guarded(fn, secs=10):
    """run fn() with a wall-clock budget; returns (outcome, value)"""
    import claripy
    # CPU time of this process, not wall-clock time: a loaded machine must not turn a fast construction into a "hang"
    signal.signal(signal.SIGPROF, _alarm)
    signal.setitimer(signal.ITIMER_PROF, secs)
    try:
        return "ok", fn()
    except claripy.errors.ClaripyZeroDivisionError:
        return "ZeroDiv", None
    except claripy.errors.ClaripyError as ex:
        return "ClaripyError:" + type(ex).__name__, None
    except _Timeout:
        return "Timeout", None
    except MemoryError:
        return "MemoryError", None
    except RecursionError:
        return "PyError:RecursionError", None
    except Exception as ex:  # noqa: BLE001
        return "PyError:" + type(ex).__name__, None
    finally:
        signal.setitimer(signal.ITIMER_PROF, 0)


_seen_nodes = set()


def node_meta(ast, limit=40):
    """metadata records for nodes of `ast` not reported before by this worker (C05)"""
    import claripy
    out = []
    stack = [ast]
    while stack and len(out) < limit:
        a = stack.pop()
        if not isinstance(a, claripy.ast.Base) or isinstance(a, claripy.ast.String) or a.op in ("FPV", "StringV"):
            continue
        if id(a) in _seen_nodes:
            continue
        _seen_nodes.add(id(a))
        _keep.append(a)
        t = TM.ser(a)
        cv = []
        if not a.symbolic:
            try:
                v = a.concrete_value
                if isinstance(v, bool):
                    cv = [1 if v else 0]
                elif isinstance(v, int):
                    cv = TM.bits(v, a.length)
            except Exception:  # noqa: BLE001
                cv = []
        out.append({"t": t, "len": a.length if a.length is not None else 0, "vars": sorted(a.variables),
                    "sym": bool(a.symbolic), "depth": a.depth, "cv": cv})
        stack.extend(x for x in a.args if isinstance(x, claripy.ast.Base))
    return out


_keep = []      # strong references so that id() stays unique while the worker lives


def z3_values(ast, w_term, n, rng):
    """values of claripy's Z3 translation of `ast` at n assignments: [[asgpairs, valuebits], ...]"""
    import claripy
    import z3
    fv = TM.free_vars(w_term)
    rv = {}
    for leaf in ast.leaf_asts():
        if leaf.op == "BVS":
            rv[leaf.args[0]] = leaf.args[1]
        elif leaf.op == "BoolS":
            rv[leaf.args[0]] = 0
    if not rv:
        return []
    allv = dict(fv)
    allv.update(rv)
    zt = claripy.backends.z3.convert(ast)
    ctx = zt.ctx
    out = []
    for _ in range(n):
        pairs, subs = [], []
        for nm, w in sorted(allv.items()):
            if w == 0:
                v = rng.getrandbits(1)
                pairs.append([nm, [v]])
                subs.append((z3.Bool(nm, ctx), z3.BoolVal(bool(v), ctx)))
            else:
                v = rng.choice(G.pool(w)) if rng.random() < 0.5 else rng.getrandbits(w)
                pairs.append([nm, TM.bits(v, w)])
                subs.append((z3.BitVec(nm, w, ctx), z3.BitVecVal(v, w, ctx)))
        r = z3.simplify(z3.substitute(zt, *subs))
        if z3.is_bool(r):
            if z3.is_true(r):
                val = [1]
            elif z3.is_false(r):
                val = [0]
            else:
                continue
        elif z3.is_bv_value(r):
            val = TM.bits(r.as_long(), r.size())
        else:
            continue
        out.append([pairs, val])
    return out


def op_event(t, how, job, rng):
    oc, ast = guarded(lambda: TM.build(t, how))
    fv = TM.free_vars(t)
    ev = {"k": "op", "w": t, "how": how, "out": oc, "r": DUMMY, "vars": [[n, w] for n, w in sorted(fv.items())],
          "asgs": [], "z3": [], "nodes": [], "cerr": oc.startswith("ClaripyError")}
    def set_asgs():
        vv = {n: w for n, w in ev["vars"]}
        if sum(vv.values()) + sum(1 for w in vv.values() if w == 0) > job.get("enum_bits", 10):
            ev["asgs"] = G.rand_asgs(rng, vv, job.get("asgs") or 24)

    if oc != "ok":
        set_asgs()
        return ev
    ev["r"] = TM.ser(ast)
    # variables of the result that the written term lacks would make Eval fail: add them
    rfv = TM.free_vars(ev["r"])
    if not set(rfv) <= set(fv):
        fv2 = dict(fv)
        fv2.update(rfv)
        ev["vars"] = [[n, w] for n, w in sorted(fv2.items())]
        ev["extra_vars"] = sorted(set(rfv) - set(fv))
    set_asgs()
    if job.get("z3") and ast.symbolic:
        try:
            ev["z3"] = z3_values(ast, t, job["z3"], rng)
        except Exception as ex:  # noqa: BLE001
            ev["z3err"] = type(ex).__name__
    if job.get("meta", True):
        ev["nodes"] = node_meta(ast)
    return ev


class _TestAnno:
    pass


def metaops_events(job, rng, out):
    """C05: metadata of nodes produced by annotation changes, substitution, Z3 round trips, canonicalisation"""
    import claripy

    class EA(claripy.Annotation):
        eliminatable, relocatable = True, False

        def __init__(self, k):
            self.k = k

        def __hash__(self):
            return hash(("EA", self.k))

        def __eq__(self, o):
            return type(o) is type(self) and o.k == self.k

    class RA(EA):
        eliminatable, relocatable = False, True

    class UA(EA):
        eliminatable, relocatable = False, False

    for i in range(job["n"]):
        W = rng.choice([1, 2, 3, 4, 8, 16, 32, 64])
        t = G.rand_term(rng, W, rng.randint(2, 4), want_bool=rng.random() < 0.3)
        oc, a = guarded(lambda: TM.build(t, "std"))
        if oc != "ok":
            continue
        results = []

        def attempt(fn):
            o, r = guarded(fn)
            if o == "ok" and isinstance(r, claripy.ast.Base):
                results.append(r)

        an = rng.choice([EA, RA, UA])(rng.randrange(3))
        attempt(lambda: a.annotate(an))
        attempt(lambda: a.annotate(an).remove_annotation(an))
        attempt(lambda: a.annotate(an).clear_annotations())
        attempt(lambda: a.annotate(an) + 1 if isinstance(a, claripy.ast.BV) else claripy.Not(a.annotate(an)))
        leaves = [l for l in a.leaf_asts() if l.op == "BVS"]
        if leaves:
            l = rng.choice(leaves)
            attempt(lambda: claripy.replace(a, l, claripy.BVV(rng.getrandbits(l.length), l.length)))
            attempt(lambda: claripy.replace(a, l, claripy.BVS("q", l.length, explicit_name=True) + 1))
            attempt(lambda: claripy.replace(a, l, l.annotate(an)))
        # identity rewrites that hand back a LEAF through make_like() of another node (a constant, ...): the leaf's
        # own metadata must come with it.  The annotated symbol is created without keeping its plain twin alive, so
        # that the result is a new object and not a hash-cons hit on a correctly built one.
        Wl = rng.choice([1, 2, 8, 16])
        wa = claripy.BVS(f"fresh{job.get('seed', 0)}_{i}", Wl, explicit_name=True).annotate(an)
        ones = claripy.BVV((1 << Wl) - 1, Wl)
        p_ = claripy.BVS("p", Wl, explicit_name=True)
        attempt(lambda: (claripy.Concat(p_, ones) & claripy.Concat(p_ + 1, wa))[Wl - 1:0])
        attempt(lambda: (claripy.Concat(ones, p_) & claripy.Concat(wa, p_ + 1))[2 * Wl - 1:Wl])
        attempt(lambda: wa & ones)
        attempt(lambda: ones & wa)
        attempt(lambda: wa | 0)
        attempt(lambda: wa ^ 0)
        attempt(lambda: wa + 0)
        attempt(lambda: claripy.If(claripy.true(), wa, ones))
        # set-like VSA operations rebuilt over other operands
        attempt(lambda: claripy.replace(claripy.union(p_, p_ + 1), p_, claripy.BVS("q", Wl, explicit_name=True)))
        attempt(lambda: claripy.replace(claripy.union(ones, ones - 1), ones, p_))
        attempt(lambda: claripy.replace(claripy.intersection(p_, ones), p_, ones - 1))
        attempt(lambda: claripy.simplify(a))
        attempt(lambda: claripy.backends.z3._abstract(claripy.backends.z3.convert(a)))
        attempt(lambda: a.canonicalize()[2])
        attempt(lambda: claripy.excavate_ite(a))
        attempt(lambda: claripy.burrow_ite(a))
        for r in results:
            tr = TM.ser(r)
            ev = {"k": "op", "w": tr, "how": "metaop", "out": "ok", "r": tr, "vars": [], "asgs": [], "z3": [],
                  "nodes": node_meta(r), "cerr": False, "gi": i}
            if ev["nodes"]:
                out.write(ev, nontrivial_key=[tr], outcome="ok", sample={"result": tr})
        # integer-valued string operations folded on constants vs their symbolic form: same declared width
        sa = rng.choice(["", "a", "abcabc", "x\x00y", "hello world"])
        sb = rng.choice(["", "a", "bc", "zz"])
        wi = rng.choice([8, 16, 32, 64, 65])
        k = rng.choice([0, 1, len(sa), len(sa) + 1, 7, (1 << wi) - 1])
        ss = claripy.StringS("s", explicit_name=True)
        for opn, mk in (("StrIndexOf", lambda a: claripy.StrIndexOf(a, claripy.StringV(sb), claripy.BVV(k & ((1 << wi) - 1), wi))),
                        ("StrLen", lambda a: claripy.StrLen(a)), ("StrToInt", lambda a: claripy.StrToInt(a))):
            o1, rf = guarded(lambda: mk(claripy.StringV(sa)))
            o2, rs = guarded(lambda: mk(ss))
            if o2 != "ok":
                continue
            out.write({"k": "strw", "op": opn, "out": o1, "lenf": (rf.length or 0) if o1 == "ok" else 0, "lend": rs.length or 0,
                       "iw": wi, "start": k, "sa": sa, "sb": sb}, nontrivial_key=[opn, sa, sb, wi, k], outcome=o1,
                      sample={"op": opn, "string": sa, "index_width": wi})


def fpmeta_events(job, rng, out):
    """C05 for floating-point nodes: width / variables / depth of FP operation trees before and after the Z3 round trip"""
    import claripy
    RMs = [claripy.fp.RM.RM_NearestTiesEven, claripy.fp.RM.RM_TowardsZero]
    for i in range(job["n"]):
        fs = rng.choice([claripy.FSORT_DOUBLE, claripy.FSORT_FLOAT])
        f = claripy.FPS("f", fs, explicit_name=True)
        g = claripy.FPS("g", fs, explicit_name=True)
        k = claripy.FPV(rng.choice([0.0, 1.5, -2.0, 1e10]), fs)
        rm = rng.choice(RMs)
        base = [claripy.fpAdd(rm, f, g), claripy.fpMul(rm, f, k), claripy.fpSub(rm, g, f), claripy.fpDiv(rm, f, g),
                claripy.fpNeg(f), claripy.fpAbs(g), claripy.fpSqrt(rm, f),
                claripy.fpToFP(rm, f, claripy.FSORT_FLOAT if fs is claripy.FSORT_DOUBLE else claripy.FSORT_DOUBLE),
                claripy.fpToFP(rm, claripy.BVS("b", fs.length, explicit_name=True), fs),
                claripy.fpToFP(claripy.BVS("b", fs.length, explicit_name=True), fs),
                claripy.fpToIEEEBV(claripy.fpAdd(rm, f, g)), claripy.fpToSBV(rm, claripy.fpMul(rm, f, g), 32),
                claripy.fpToUBV(rm, f, 8), claripy.fpLT(claripy.fpAdd(rm, f, g), k), claripy.fpEQ(f, g),
                claripy.fpIsNaN(claripy.fpDiv(rm, f, g)), claripy.If(claripy.fpGT(f, k), f, g),
                claripy.fpAdd(rm, claripy.fpMul(rm, f, g), k)]
        e = rng.choice(base)
        results = [e]

        def attempt(fn):
            o, r = guarded(fn)
            if o == "ok" and isinstance(r, claripy.ast.Base):
                results.append(r)
        attempt(lambda: claripy.simplify(e))
        attempt(lambda: claripy.backends.z3._abstract(claripy.backends.z3.convert(e)))
        attempt(lambda: claripy.simplify(e == e) if isinstance(e, claripy.ast.FP) else claripy.simplify(claripy.Not(e)) if isinstance(e, claripy.ast.Bool) else claripy.simplify(e + 1))
        for r in results:
            tr = TM.ser(r)
            ev = {"k": "op", "w": tr, "how": "fpmeta", "out": "ok", "r": tr, "vars": [], "asgs": [], "z3": [],
                  "nodes": node_meta(r), "cerr": False, "gi": i}
            if ev["nodes"]:
                out.write(ev, nontrivial_key=[tr], outcome="ok", sample={"result": tr})


def gen_terms(job, rng):
    g = job["gen"]
    if g == "exh":
        W = job["W"]
        if job["depth"] == 1:
            yield from G.d1_bv(W)
            yield from G.d1_bool(W)
        else:
            yield from G.d2(W)
    elif g == "concat":
        yield from G.concat_n(job["W"])
    elif g == "rules":
        yield from G.rule_instances(rng, tuple(job.get("widths", (1, 2, 3, 4, 8, 16, 32, 64))), job.get("per", 4))
    elif g == "rand":
        for _ in range(job["n"]):
            W = rng.choice(job.get("widths", [1, 2, 3, 4, 5, 7, 8, 9, 16, 31, 32, 33, 63, 64, 65, 128]))
            yield G.rand_term(rng, W, rng.randint(2, job.get("depth", 5)), want_bool=rng.random() < 0.35)
    elif g == "boundary":
        yield from G.boundary_terms(rng, job.get("n", 2000))
    elif g == "list":
        yield from job["terms"]


def main():
    job = json.load(open(sys.argv[1]))
    if job.get("rlimit_gb"):
        lim = int(job["rlimit_gb"] * (1 << 30))
        resource.setrlimit(resource.RLIMIT_AS, (lim, lim))
    rng = random.Random(job.get("seed", 0))
    part, nparts = job.get("part", 0), job.get("nparts", 1)
    stride_sample = job.get("sample", 1)      # keep every k-th term (seeded offset) for sampled tiers
    off = job.get("seed", 0) % stride_sample if stride_sample > 1 else 0
    n = 0
    out = ShardWriter(sys.argv[2], job.get("shard", 5000))
    if job["gen"] == "metaops":
        metaops_events(job, rng, out)
        out.close()
        return
    if job["gen"] == "fpmeta":
        fpmeta_events(job, rng, out)
        out.close()
        return
    for i, t in enumerate(gen_terms(job, rng)):
        if stride_sample > 1 and i % stride_sample != off:
            continue
        n += 1
        if n % nparts != part:
            continue
        hows = TM.spellings(t) if job.get("spell", True) else ["std"]
        for how in hows:
            ev = op_event(t, how, job, rng)
            ev["gi"] = i
            nt = ev["out"] == "ok" and ev["r"] != ev["w"]
            out.write(ev, nontrivial_key=[ev["w"], ev["r"]] if nt else None, outcome=ev["out"],
                      sample={"written": ev["w"], "how": how, "result": ev["r"]} if nt else None)
    out.close()


if __name__ == "__main__":
    main()
