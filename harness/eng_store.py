"""C06 -- hash-consing.  TLC explores spec/ExprStore.tla (the store as a state machine: Build / Annotate / BVVk /
Drop over small alphabets of keys and of annotation values that collide under Python's hash()), the exported
behaviours are replayed on the real claripy by harness/w_store.py, and spec/TraceStore.tla validates every recorded
step (Inj and Faithful on the real identity partition).  Pools of expressions from the gen_expr streams are validated
pairwise by the same module."""
from __future__ import annotations

import json
import os
import re
import time
from concurrent.futures import ThreadPoolExecutor

from . import common as C

FAMS = ["si", "int", "usr", "bvv", "str", "mrk", "esi"]
# bounds: quick = the committed spec/ExprStore_<fam>.cfg; thorough overrides (MaxSteps, MaxLive, MaxAnn)
THOROUGH = {"si": (6, 6, 2), "int": (7, 6, 1), "usr": (7, 6, 1), "bvv": (6, 6, 1), "str": (6, 6, 1), "mrk": (7, 6, 1), "esi": (6, 6, 1)}
CODED_FAMS = ["si", "int", "usr", "bvv"]
VERDICT = {"inj", "faithful", "stable", "handles", "outcome"}


# ----------------------------------------------------------------------------------------------
# TLC exploration + export
# ----------------------------------------------------------------------------------------------
def _values(out):
    """bracket-balanced TLA+ values printed by PrintT (possibly wrapped over several lines) -> python lists"""
    buf, depth = None, 0
    for line in out.splitlines():
        s = line.strip()
        if buf is None:
            if not s.startswith("<<"):
                continue
            buf, depth = [], 0
        buf.append(s)
        depth += s.count("<<") - s.count(">>")
        if depth <= 0:
            txt = " ".join(buf).replace("<<", "[").replace(">>", "]").replace("TRUE", "true").replace("FALSE", "false")
            buf = None
            try:
                yield json.loads(txt)
            except ValueError:
                continue


_E = re.compile(r"^([A-Z])([A-Z])(\d+)\.(\d+)\.(\d+)\.(\d+)$")


def explore(fam, coded, tier):
    """run TLC on ExprStore.tla; returns dict(stats, alphabet, hists=[(ok, [entries])])"""
    src = os.path.join(C.SPEC, f"ExprStore_{fam}{'_coded' if coded else ''}.cfg")
    cfg = src
    if tier == "thorough":
        st, lv, an = THOROUGH[fam]
        txt = open(src).read()
        txt = re.sub(r"MaxSteps = \d+", f"MaxSteps = {st}", txt)
        txt = re.sub(r"MaxLive = \d+", f"MaxLive = {lv}", txt)
        txt = re.sub(r"MaxAnn = \d+", f"MaxAnn = {an}", txt)
        cfg = os.path.join(C.scratch(), os.path.basename(src))
        with open(cfg, "w") as f:
            f.write(txt)
    rc, out = C.run_tlc("ExprStore.tla", cfg=cfg, timeout=5400 if tier == "thorough" else 1200)
    st = C.tlc_stats(out)
    if rc != 0 or st is None or "No error has been found" not in out:
        raise C.MachineryError(f"TLC on {os.path.basename(src)} failed (rc={rc}): the store model violates its own "
                               "invariants or TLC crashed\n" + out[-3000:])
    al, hists = None, []
    for v in _values(out):
        if v and v[0] == "ALPHABET":
            al = {"K": v[1], "A": v[2], "V": v[3]}
        elif v and v[0] == "H":
            es = []
            for s in v[2]:
                m = _E.match(s)
                es.append([m.group(1), m.group(2), int(m.group(3)), int(m.group(4)), int(m.group(5)), int(m.group(6))])
            hists.append((bool(v[1]), es))
    if al is None or len(hists) != st["distinct"]:
        raise C.MachineryError(f"export of {os.path.basename(src)}: {len(hists)} histories for {st['distinct']} states")
    dm = re.search(r"depth of the complete state graph search is (\d+)", out)
    return {"fam": fam, "coded": coded, "states": st["distinct"], "generated": st["generated"],
            "depth": int(dm.group(1)) if dm else 0, "al": al, "hists": hists}


def maximal(hists):
    """drop histories that are a proper prefix of another one (every step of a replay is validated, so the longer
    replay covers the shorter)"""
    keys = {tuple(map(tuple, h)) for h in hists}
    pref = set()
    for h in keys:
        for n in range(1, len(h)):
            pref.add(h[:n])
    return sorted([list(map(list, h)) for h in keys if h and h not in pref])


# ----------------------------------------------------------------------------------------------
# jobs
# ----------------------------------------------------------------------------------------------
def pool_jobs(tier, seed):
    n = C.NPROC
    J = []
    if tier == "quick":
        J += [{"mode": "pool", "gen": "exh", "W": 2, "depth": 2, "part": k, "nparts": 6, "sample": 12, "seed": seed,
               "max": 2000} for k in range(6)]
        J += [{"mode": "pool", "gen": "rules", "per": 1, "seed": seed * 1000 + k, "widths": [1, 2, 4, 8, 32],
               "max": 2000} for k in range(2)]
        J += [{"mode": "pool", "gen": "rand", "n": 300, "depth": 4, "seed": seed * 1000 + 500 + k, "max": 2000}
              for k in range(2)]
    else:
        J += [{"mode": "pool", "gen": "exh", "W": 2, "depth": 2, "part": k, "nparts": n, "sample": 2, "seed": seed,
               "max": 2000} for k in range(n)]
        J += [{"mode": "pool", "gen": "exh", "W": 3, "depth": 2, "part": k, "nparts": n, "sample": 24, "seed": seed,
               "max": 2000} for k in range(n)]
        J += [{"mode": "pool", "gen": "rules", "per": 4, "seed": seed * 1000 + k, "max": 2000} for k in range(n)]
        J += [{"mode": "pool", "gen": "rand", "n": 1500, "depth": 5, "seed": seed * 1000 + 500 + k, "max": 2000}
              for k in range(n)]
    return J


def chunks(lst, n):
    n = max(1, min(n, len(lst)))
    per = (len(lst) + n - 1) // n
    return [lst[i:i + per] for i in range(0, len(lst), per)]


def selftest(jobs, meta, bad, stats):
    """TLC must accept every genuine self-test recording and reject every corrupted copy with the expected clause"""
    n = 0
    for jix, (kind, _) in enumerate(meta):
        if kind != "selftest":
            continue
        got = {}
        for j, ev, clause, _x in bad:
            if j == jix and clause != "drift":
                got.setdefault((ev["tix"], ev["what"]), set()).add(clause)
        for path, _n in stats[jix]["files"]:
            with open(path) as f:
                for line in f:
                    ev = json.loads(line)
                    if ev["k"] != "trace":
                        continue
                    g = got.get((ev["tix"], ev["what"]), set())
                    # (a genuine recording that TLC rejects is not a machinery matter: the same history is part of the
                    #  replay set and is reported there as a known finding or a violation)
                    if ev["expect"] and ev["expect"] not in g:
                        raise C.MachineryError(f"validator self-test: corrupted recording ({ev['what']}) not rejected "
                                               f"with '{ev['expect']}' (got {sorted(g)})")
                    n += bool(ev["expect"])
    if n < 8:
        raise C.MachineryError(f"validator self-test too small ({n})")
    return n


# ----------------------------------------------------------------------------------------------
def check(pid, tier, regen=False):
    seed = C.seed()
    R = C.Result(pid, "model_checking", tier)
    # the as-coded reading is explored only where the alphabet has annotation values / requests on which it differs
    plan = [(f, cd) for f in FAMS for cd in (False, True) if not cd or f in CODED_FAMS]
    with ThreadPoolExecutor(max_workers=C.NPROC) as ex:
        models = list(ex.map(lambda p: explore(p[0], p[1], tier), plan))
    t_explore = round(time.time() - R.t0, 1)
    spec = {m["fam"]: m for m in models if not m["coded"]}
    coded = {m["fam"]: m for m in models if m["coded"]}
    for f in FAMS:
        if f not in coded:
            coded[f] = {"al": spec[f]["al"], "hists": [], "states": 0, "generated": 0}

    jobs, meta = [], []
    n_hist = {}
    predicted = {}
    todo = {}
    for fam in FAMS:
        al = spec[fam]["al"]
        if coded[fam]["al"] != al:
            raise C.MachineryError("alphabets of the two readings differ: " + fam)
        # every (store, arriving request) of the specification reading + every history the as-coded reading predicts
        # to break Faithful
        pred = [h for ok, h in coded[fam]["hists"] if not ok]
        predicted[fam] = len(pred)
        hs = maximal([h for _, h in spec[fam]["hists"]] + pred)
        n_hist[fam] = len(hs)
        todo[fam] = hs
        jobs.append({"mode": "canon", "fam": fam, "al": al})
        meta.append((fam, None))
    # replay jobs of about equal size (fresh interpreter + one TLC start per job)
    size = max(150, sum(n_hist.values()) // (C.NPROC - 2 if tier == "quick" else 3 * C.NPROC) + 1)
    for fam in FAMS:
        for base in range(0, len(todo[fam]), size):
            ch = todo[fam][base:base + size]
            jobs.append({"mode": "replay", "fam": fam, "al": spec[fam]["al"], "hists": ch, "base": base})
            meta.append((fam, ch))
    # validator self-test (vacuity guard): genuine recordings + copies with one corrupted field each
    st_hists = [h for h in todo["str"] if len(h) >= 3 and h[-1][0] == "B"][:3] + \
               [h for h in todo["si"] if len(h) >= 3 and h[-1][0] == "A" and h[-1][5] == 3][:2]
    jobs.append({"mode": "selftest", "fam": "str", "al": spec["str"]["al"], "hists": st_hists[:3]})
    meta.append(("selftest", None))
    jobs.append({"mode": "selftest", "fam": "si", "al": spec["si"]["al"], "hists": st_hists[3:]})
    meta.append(("selftest", None))
    pj = pool_jobs(tier, seed)
    for j in pj:
        jobs.append(j)
        meta.append(("pool", None))

    bad, stats = C.pipeline("w_store", jobs, "TraceStore.tla", ttimeout=1500, keep_events=True)
    n_selftest = selftest(jobs, meta, bad, stats)
    bad = [b for b in bad if meta[b[0]][0] != "selftest"]
    st = C.merge_stats([s for s, m in zip(stats, meta) if m[0] != "selftest"])
    t_replay = round(time.time() - R.t0 - t_explore, 1)

    # known failures: exact set of (alphabet, clause, requested key, key of the object that came back)
    exact = C.load_set(f"{pid}-exact.txt") | (C.load_set(f"{pid}-exact-thorough.txt") if tier == "thorough" else set())
    new_exact = set()
    drift = {}
    seen = set()
    n_fail = n_known = n_explained = n_steps_failing = 0
    clauses_at = {}
    for jix, ev, clause, extra in bad:
        if ev["k"] == "trace":
            clauses_at.setdefault((jix, ev["tix"], int(extra)), set()).add(clause)
    for jix, ev, clause, extra in bad:
        fam, ch = meta[jix]
        step = int(extra) if extra is not None else 0
        if ev["k"] == "canon":
            raise C.MachineryError(f"alphabet '{fam}': key {ev['kind']}[{ev['i']}] built in an empty store comes back "
                                   f"different from what was written ({clause}): {json.dumps(ev)[:1200]}")
        if ev["k"] == "pool":
            if clause == "inj":
                payload = {"property": pid, "clause": "inj", "where": "pool", "job": jobs[jix], "key": ev["nodes"][step - 1],
                           "what": "two distinct live objects have this structural key"}
            else:
                p = ev["pairs"][step - 1]
                payload = {"property": pid, "clause": "faithful", "where": "pool", "job": jobs[jix], "written": p["w"],
                           "returned_in_crowded_store": p["r"], "returned_in_empty_store": p["r0"]}
            R.add_violation(payload)
            continue
        # trace
        hist = [s["e"] for s in ev["steps"]]
        prefix = hist[:step]
        if clause == "drift":
            d = drift.setdefault(fam, [0, None])
            d[0] += 1
            if d[1] is None:
                d[1] = {"fam": fam, "requests": prefix,
                        "observed_faithful": "faithful" not in clauses_at[(jix, ev["tix"], step)]}
            continue
        if clause not in VERDICT:
            raise C.MachineryError("unknown clause " + clause)
        so = ev["steps"][step - 1]
        if clause == "faithful":
            e = so["e"]
            al = jobs[jix]["al"]
            if e[0] == "B":
                req = al["K"][e[2] - 1]
            elif e[0] == "V":
                req = al["V"][e[2] - 1]
            else:
                tk = ev["steps"][step - 2]["occ"][so["tgt"] - 1]["k"]
                req = [tk[0], tk[1], tk[2], tk[3], tk[4] + [al["A"][e[5] - 1]], tk[5]]
            got = so["occ"][so["ret"] - 1]["k"] if so["ret"] else None
            s = C.sig([fam, clause, req, got])
        else:
            req = got = None
            s = C.sig([fam, clause, prefix])
        n_steps_failing += 1
        if s in seen:
            continue
        seen.add(s)
        n_fail += 1
        new_exact.add(s)
        explained = clause == "faithful" and "drift" not in clauses_at[(jix, ev["tix"], step)]
        n_explained += explained
        if s in exact:
            n_known += 1
            R.add_known(f"{pid}-{fam}", KNOWN_WHAT.get(fam, "listed failing request") +
                        " [findings/%s-exact*.txt]" % pid)
            continue
        R.add_violation({"property": pid, "clause": clause, "alphabet": fam, "requests": prefix, "requested": req,
                         "keys": {"K": jobs[jix]["al"]["K"], "A": jobs[jix]["al"]["A"], "V": jobs[jix]["al"]["V"]},
                         "returned": so["occ"][so["ret"] - 1] if so["ret"] else None, "observation": so,
                         "predicted_by_as_coded_model": explained, "sig": s})
    # the store across processes: an expression that arrives by unpickling (same process after collection, fresh
    # processes under PYTHONHASHSEED 0 / 1 / random) enters the store under the key THIS process computes, so building
    # an equal leaf again returns that very object (clause rebuild-identity of TracePickle.tla)
    pj2 = [{"n": 30 if tier == "quick" else 300, "seed": seed * 100 + 70 + k} for k in range(4)]
    pbad, pstats = C.pipeline("w_pickle", pj2, "TracePickle.tla")
    n_xp = C.merge_stats(pstats)["events"]
    for _, ev, clause, _x in pbad:
        if clause in ("rebuild-identity", "identity"):
            R.add_violation({"property": pid, "clause": "unpickle-" + clause, "mode": ev.get("mode"), "original": ev["w"],
                             "roundtrip": ev["r"]})
    if regen:
        name = f"{pid}-exact.txt" if tier == "quick" else f"{pid}-exact-thorough.txt"
        with open(os.path.join(C.VERIF, "findings", name), "w") as f:
            for s in sorted(new_exact):
                f.write(s + "\n")
        print(f"regenerated findings/{name} with {len(new_exact)} entries")
        R.violations = []

    # every action of the model must have been exercised on the real code
    for a in ("act_B", "act_A", "act_D", "act_V"):
        if not st.get(a):
            raise C.MachineryError(f"action {a} never replayed")
    if st.get("leaked"):
        R.notes.append(f"{st['leaked']} replays did not return the weak tables to their size before the replay")
    for fam, (cnt, first) in sorted(drift.items()):
        print(f"SPEC-DRIFT property={pid} alphabet={fam}: {cnt} step(s) where the as-coded reading of ExprStore.tla "
              f"and the real run disagree about Faithful; first: {json.dumps(first)[:600]}")
    n_traces = st["outcomes"].get("trace", 0)
    R.coverage = {
        "states": sum(m["states"] for m in spec.values()),
        "transitions": sum(m["generated"] for m in spec.values()),
        "traces_validated_against_impl": n_traces,
        "unpickle_roundtrips_validated": n_xp,
        "samples": st["samples"],
        "per_alphabet": {f: {"states": spec[f]["states"], "transitions": spec[f]["generated"], "depth": spec[f]["depth"],
                             "as_coded_states": coded[f]["states"], "as_coded_transitions": coded[f]["generated"],
                             "as_coded_predicted_unfaithful_states": predicted[f],
                             "histories_replayed": n_hist[f], "keys": len(spec[f]["al"]["K"]),
                             "annotation_values": len(spec[f]["al"]["A"]), "bvv_requests": len(spec[f]["al"]["V"])}
                         for f in FAMS},
        "steps_validated": st.get("steps", 0),
        "wall_explore_s": t_explore, "wall_replay_validate_s": t_replay,
        "actions_replayed": {k[4:]: v for k, v in st.items() if k.startswith("act_")},
        "failing_steps": n_steps_failing,
        "failing_distinct": n_fail,
        "failing_known": n_known,
        "failing_distinct_predicted_by_as_coded_model": n_explained,
        "spec_drift_steps": sum(c for c, _ in drift.values()),
        "validator_selftest_corrupted_traces_rejected": n_selftest,
        "pools": st.get("pools", 0),
        "pool_nodes": st.get("pool_nodes", 0),
        "pool_requests": st.get("pool_built", 0),
        "pool_requests_rewritten_by_claripy": st.get("pool_rewritten", 0),
        "evaluations": n_traces + st.get("pool_built", 0),
        "distinct_nontrivial": st["nontrivial"],
        "rule": "one replay per maximal history among: the shortest history TLC found for every distinct (store, "
                "arriving request) state of ExprStore.tla (specification reading) and for every state the as-coded "
                "reading predicts to break Faithful; non-trivial = more than one distinct live object was observed",
        "exhaustive": True,
        "tlc_modules": "ExprStore.tla + ExprStore_<alphabet>[_coded].cfg (exploration), TraceStore.tla (validation)",
    }
    R.assumptions = ["annotation identity is by content and order (the key lists a node's annotations in order)",
                     "bounds: see spec/ExprStore_*.cfg (quick) / eng_store.THOROUGH; alphabets in ExprStore.tla",
                     "a key whose width differs from the natural width of (op, args) is built through the AST class "
                     "constructor BV(op, args, length=w)",
                     "pools: the harness holds a strong reference to every built expression; Faithful on pools = the "
                     "key returned in the crowded store equals the key returned for the same request in an empty store"]
    return R.finish()


KNOWN_WHAT = {
    "si": "StridedIntervalAnnotation contents that collide under hash() (bounds -1/-2) are conflated: the request "
          "returns the first object, carrying the other bounds",
    "int": "user annotation whose __hash__ is hash(int): contents -1/-2, 2^61-1/0, 2^61/1 are conflated",
    "usr": "annotations with colliding __hash__ (constant __hash__; RegionAnnotation base -1/-2) are conflated",
    "bvv": "BVV(v, w, annotations=...) poisons the side cache: a later BVV(v, w) returns the annotated object",
}


def replay(pid, path):
    with open(path) as f:
        v = json.load(f)
    if "requests" not in v:
        print(json.dumps(v, indent=1)[:3000])
        return 1
    job = {"mode": "replay", "fam": v["alphabet"], "al": v["keys"], "hists": [v["requests"]], "base": 0}
    bad, _ = C.pipeline("w_store", [job], "TraceStore.tla")
    bad = [(c, x) for _, _, c, x in bad if c in VERDICT]
    print("replay:", "reproduced " + json.dumps(bad) if bad else "not reproduced")
    return 1 if bad else 0
