"""Worker-side helpers: sharded ndjson output that TLC consumes directly, plus per-job statistics."""
from __future__ import annotations

import hashlib
import json


class ShardWriter:
    def __init__(self, prefix, shard=5000):
        self.prefix, self.shard = prefix, shard
        self.k, self.n, self.total = 0, 0, 0
        self.f = None
        self.files = []
        self.stats = {"events": 0, "outcomes": {}, "nontrivial": 0, "samples": []}
        self._seen = set()

    def _open(self):
        p = f"{self.prefix}.{self.k}.ndjson"
        self.f = open(p, "w")
        self.files.append(p)
        self.n = 0

    def write(self, ev, nontrivial_key=None, outcome=None, sample=None):
        if self.f is None or self.n >= self.shard:
            if self.f:
                self.f.close()
                self.k += 1
            self._open()
        self.f.write(json.dumps(ev, separators=(",", ":")))
        self.f.write("\n")
        self.n += 1
        self.total += 1
        st = self.stats
        st["events"] += 1
        if outcome is not None:
            st["outcomes"][outcome] = st["outcomes"].get(outcome, 0) + 1
        if nontrivial_key is not None:
            h = hashlib.sha256(json.dumps(nontrivial_key, sort_keys=True).encode()).digest()[:8]
            if h not in self._seen:
                self._seen.add(h)
                st["nontrivial"] += 1
                if sample is not None and len(st["samples"]) < 2:
                    st["samples"].append(sample)

    def close(self, extra=None):
        if self.f:
            self.f.close()
        st = dict(self.stats)
        st["files"] = [[p, n] for p, n in zip(self.files, self._counts())]
        if extra:
            st.update(extra)
        with open(self.prefix + ".stats.json", "w") as f:
            json.dump(st, f)

    def _counts(self):
        out = []
        for p in self.files:
            with open(p) as f:
                out.append(sum(1 for _ in f))
        return out
