"""C26: values extracted from models are real — TLC (TraceValues.tla) re-evaluates constraints and expression under a
witness model with Term.tla (any width), and compares pinned FP / string values bit for bit."""
from __future__ import annotations

import json

from . import common as C


def pinned_by_eq(ev):
    """the queried expression is the symbolic side of an `e == constant` constraint (for which SolverReplacement
    installs the replacement e -> constant and then answers without consulting the constraints)"""
    if ev.get("k") != "bv":
        return False
    for c in ev["cons"]:
        if c[0] == "__eq__" and len(c[3]) == 2:
            a, b = c[3]
            for x, y in ((a, b), (b, a)):
                if y[0] == "BVV" and any(x == q for q in ev["es"]):
                    return True
    return False


def check(pid, tier, regen=False):
    seed = C.seed()
    R = C.Result(pid, "exploration", tier)
    n = 16
    per = 14 if tier == "quick" else 300
    jobs = [{"mode": "bv", "n": per, "seed": seed * 100 + k, "env": {"REUSE_Z3_SOLVER": "1" if k % 4 == 3 else "0"}}
            for k in range(n)]
    jobs.append({"mode": "pins", "seed": seed})
    bad, stats = C.pipeline("w_values", jobs, "TraceValues.tla")
    st = C.merge_stats(stats)
    findings = C.load_findings(pid)
    for _, ev, clause, _x in bad:
        fid = None
        for f in findings:
            m = f.get("match", {})
            if m.get("clause") in (None, clause) and m.get("sort") in (None, ev.get("sort")) and \
                    m.get("out") in (None, ev.get("out")) and (not m.get("classes") or ev.get("cls") in m["classes"]) \
                    and (m.get("pred") != "queried-expr-pinned-by-eq" or pinned_by_eq(ev)):
                fid = f
                break
        if fid:
            R.add_known(fid["id"], fid["what"])
            continue
        R.add_violation({"property": pid, "clause": clause, "event": ev})
    # values served from caches after multi-step histories (branches, adds that keep / drop cached models): the small-width
    # solver traces are validated against SolverAbs; only the clauses that say "this value is not a value the expression
    # takes" belong to C26
    from . import eng_solver as ES
    hj = ES.jobs_generic(ES.PLAIN + ES.COMPOSITE + [["SolverHybrid", {}]], "c26h", 30, 300, n=8, branchy=True)(tier, seed) + \
        ES.jobs_generic(ES.PLAIN + ES.COMPOSITE, "c26w1", 25, 250, n=4, W=1, alpha="xyz", multi=True)(tier, seed)   # 1-bit values
    # single-constraint solvers (the trivially-satisfiable shortcuts seed the model cache themselves): every constraint of
    # the alphabets alone, at widths 1, 2, 3, on every exact class, asked satisfiable() first
    from .w_solver import alphabet3
    for W in (1, 2, 3):
        A3 = alphabet3(W)
        hs = [[["new", cls, kw], ["add", 0, [c]], ["satisfiable", 0, []]] + [["eval", 0, e, (1 << W) + 1, []] for e in A3["exprs"][:3]]
              for cls, kw in ES.PLAIN + ES.COMPOSITE + [["SolverHybrid", {}], ["SolverReplacement", {}]] for c in A3["cons"]]
        hj.append({"mode": "list", "W": W, "alpha": "xyz", "histories": hs, "probe": True, "tag": f"c26one{W}",
                   "env": {"REUSE_Z3_SOLVER": "0"}})
    hbad, hstats = C.pipeline("w_solver", hj, "TraceSolver.tla")
    hst = C.merge_stats(hstats)
    hfind = C.load_findings(pid) + C.load_findings("C12")
    for _, tr, clause, extra in hbad:
        if clause not in ("eval-infeasible", "eval-on-unsat", "answer-on-unsat", "min", "max"):
            continue
        k = int(extra)
        if clause in ("min", "max"):
            # only "not a feasible value" is C26's business (a feasible but non-optimal value is C11's)
            continue
        fid = ES.match_finding(hfind, tr, k, clause)
        if fid:
            R.add_known(fid["id"], fid["what"])
            continue
        R.add_violation({"property": pid, "clause": clause, "tid": tr["tid"], "step": k,
                         "event": ES.describe(tr["ev"][k - 1]), "history": [ES.describe(e) for e in tr["ev"][:k]]})
    R.coverage = {"solver_history_calls": hst.get("calls", 0), "evaluations": st["events"], "distinct_nontrivial": st["nontrivial"],
                  "rule": "one event per returned value (eval / batch_eval / min / max, signed and unsigned, before and "
                          "after other queries) on Solver, SolverCacheless, SolverComposite, SolverHybrid, "
                          "SolverReplacement at widths 1..256, plus FP (double/float incl. NaN, signed zeros, infinities, "
                          "subnormals) and string (NUL, escapes look-alikes, astral) values pinned by constraints; "
                          "distinct by (constraints, expressions, value)",
                  "samples": st["samples"], "outcomes": st["outcomes"], "exhaustive": False}
    R.assumptions = ["the witness model comes from an independent SolverCacheless query but is re-validated by TLC "
                     "(Term.tla) — a missing witness is reported as value-not-real", "Z3 is correct"]
    return R.finish()
